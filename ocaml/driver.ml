(* Generic driver for the extracted model: reads one request per line
       <name> <oracle-table sexp> <argument sexp>
   calls Skmodel.dispatch and prints the result s-expression on one line.
   S-expression syntax:  ( ... )  list;  decimal digits  number (N);  x<hex>  byte string. *)
module M = Skmodel
type positive = M.positive = XI of positive | XO of positive | XH
type n = M.n = N0 | Npos of positive
type sx = M.sx = SN of n | SB of n list | SL of sx list
let dispatch = M.dispatch_all
module N = M.N


(* numbers: arbitrary precision decimal <-> Coq N, via lists of decimal digits processed with small ints *)
let rec pos_of_int (i : int) : positive =
  if i = 1 then XH else if i land 1 = 0 then XO (pos_of_int (i lsr 1)) else XI (pos_of_int (i lsr 1))
let n_of_int (i : int) : n = if i = 0 then N0 else Npos (pos_of_int i)
let rec int_of_pos (p : positive) : int = match p with XH -> 1 | XO q -> 2 * int_of_pos q | XI q -> 2 * int_of_pos q + 1

(* decimal string -> N by repeated (acc * 10 + d) using the extracted N arithmetic *)
let n_of_decimal (s : string) : n =
  if String.length s <= 17 then n_of_int (int_of_string s)
  else begin
    let acc = ref N0 in
    let ten = n_of_int 10 in
    String.iter (fun c -> acc := N.add (N.mul !acc ten) (n_of_int (Char.code c - 48))) s;
    !acc
  end

let rec bits_of_pos p = match p with XH -> 1 | XO q -> 1 + bits_of_pos q | XI q -> 1 + bits_of_pos q

let decimal_of_n (x : n) : string =
  match x with
  | N0 -> "0"
  | Npos p when bits_of_pos p <= 61 -> string_of_int (int_of_pos p)
  | _ ->
    let ten = n_of_int 10 in
    let buf = Buffer.create 32 in
    let rec go v acc =
      match v with
      | N0 -> acc
      | _ -> let q = N.div v ten and r = N.modulo v ten in
             let d = (match r with N0 -> 0 | Npos p -> int_of_pos p) in
             go q (Char.chr (48 + d) :: acc) in
    List.iter (Buffer.add_char buf) (go x []);
    Buffer.contents buf

let hexval c = match c with
  | '0'..'9' -> Char.code c - 48 | 'a'..'f' -> Char.code c - 87 | 'A'..'F' -> Char.code c - 55
  | _ -> failwith "bad hex"

(* table of the 256 byte values as Coq N (shared) *)
let byte_tab = Array.init 256 n_of_int

let bytes_of_hex (s : string) (start : int) (stop : int) : n list =
  let rec go i acc = if i < start then acc else go (i - 2) (byte_tab.(hexval s.[i] * 16 + hexval s.[i+1]) :: acc) in
  go (stop - 2) []

let parse (s : string) : sx list =
  let len = String.length s in
  let pos = ref 0 in
  let rec skip () = while !pos < len && (s.[!pos] = ' ' || s.[!pos] = '\t') do incr pos done in
  let rec item () : sx =
    skip ();
    if !pos >= len then failwith "eof";
    match s.[!pos] with
    | '(' -> incr pos;
      let acc = ref [] in
      let fin = ref false in
      while not !fin do
        skip ();
        if !pos >= len then failwith "unclosed";
        if s.[!pos] = ')' then (incr pos; fin := true) else acc := item () :: !acc
      done;
      SL (List.rev !acc)
    | 'x' -> incr pos;
      let st = !pos in
      while !pos < len && s.[!pos] <> ' ' && s.[!pos] <> ')' && s.[!pos] <> '(' do incr pos done;
      SB (bytes_of_hex s st !pos)
    | '0'..'9' ->
      let st = !pos in
      while !pos < len && s.[!pos] >= '0' && s.[!pos] <= '9' do incr pos done;
      SN (n_of_decimal (String.sub s st (!pos - st)))
    | c -> failwith (Printf.sprintf "unexpected %c at %d" c !pos)
  in
  let out = ref [] in
  skip ();
  while !pos < len do out := item () :: !out; skip () done;
  List.rev !out

let hexdig = "0123456789abcdef"
let rec print (b : Buffer.t) (v : sx) : unit =
  match v with
  | SN x -> Buffer.add_string b (decimal_of_n x)
  | SB l -> Buffer.add_char b 'x';
    List.iter (fun x ->
      let i = (match x with N0 -> 0 | Npos p -> if bits_of_pos p > 20 then 999999 else int_of_pos p) in
      if i < 256 then (Buffer.add_char b hexdig.[i lsr 4]; Buffer.add_char b hexdig.[i land 15])
      else Buffer.add_string b (Printf.sprintf "<%d>" i)) l
  | SL l -> Buffer.add_char b '(';
    List.iteri (fun i x -> if i > 0 then Buffer.add_char b ' '; print b x) l;
    Buffer.add_char b ')'

let () =
  let b = Buffer.create 65536 in
  (try
    while true do
      let line = input_line stdin in
      Buffer.clear b;
      (try
        match parse line with
        | [SB name; tbl; arg] -> print b (dispatch tbl name arg)
        | _ -> Buffer.add_string b "!bad-request"
      with
      | Stack_overflow -> Buffer.clear b; Buffer.add_string b "!stack-overflow"
      | Failure m -> Buffer.clear b; Buffer.add_string b ("!failure " ^ m));
      print_string (Buffer.contents b); print_newline ()
    done
  with End_of_file -> ())
