"""C18 -- checkpoints are enforced; the real network's blocks stay valid.
Theorems: props/Properties_C18.v (checkpoint rule of the model for the regenerated table; table well-formedness;
genesis codec facts by computation).  The statement about the recorded real blocks is decided by executing the
UNPATCHED implementation (real scrypt) on them -- no Gallina scrypt exists here (DESIGN.md section 8)."""
import json
import os
from binascii import unhexlify

import chaingen
import common
import consensus_check
import model
import spec


def real_blocks():
    from skepticoin.datatypes import Block
    d = os.path.join(common.REPO, 'tests', 'testdata', 'chain')
    out = []
    for fn in sorted(os.listdir(d)):
        with open(os.path.join(d, fn), 'rb') as f:
            raw = f.read()
        out.append((fn, raw, Block.deserialize(raw)))
    return out


def node_level(ck, tier):
    from skepticoin.humans import human
    """checkpoints on the path blocks take into a node: with a (test) horizon and checkpoints in force, a competing block
    at a checkpointed height is refused whether it is relayed or arrives as a reply during a bulk download -- also when the
    node's chain already extends far past that height (bulk-download validation interval patched to 4 = the checkpointed
    height, as 10,000 divides the real checkpoint heights)"""
    import sys
    import nodeharness
    import simnet
    from skepticoin.networking import messages as M
    rng = ck.rng
    keys = chaingen.Keys()
    with chaingen.Env(period=50) as env0:
        tg = chaingen.TreeGen(env0, keys, rng)
        n = tg.genesis
        for _ in range(7):
            n = tg.extend(n, txs=[], fees=0, dt=100)
        main = list(tg.nodes)
        sib = tg.extend(main[3], txs=[], fees=0, dt=101)          # competing, otherwise fully valid block at height 4
        sib_child = tg.extend(sib, txs=[], fees=0, dt=100)
    known = {0: human(main[0].id), 4: human(main[4].id)}
    from skepticoin.networking import local_peer as _lp, remote_peer as _rp, manager as _mg, params as _np   # noqa (loaded before patching)
    patched = []
    for mn, mod in list(sys.modules.items()):
        if mn.startswith('skepticoin.networking') and mod is not None and 'IBD_VALIDATION_SKIP' in getattr(mod, '__dict__', {}):
            patched.append((mod, mod.IBD_VALIDATION_SKIP))
            mod.IBD_VALIDATION_SKIP = 4
    try:
        with chaingen.Env(period=50, hz=4, known=known) as env:
            for irt in (0, 73):
                with simnet.Net(seed=rng.getrandbits(30), t0=main[-1].view.time + 5000) as net:
                    sn = nodeharness.SingleNode(net, chaingen.impl_state_from(main), [m.block for m in main[1:]], npeers=2)
                    sn.new_messages()
                    net.clock.t += 400            # a quiet spell: nothing was written for more than five minutes
                    for blk_node in (sib, sib_child):
                        sn.deliver(rng.randrange(2), M.DataMessage(M.DATA_BLOCK, blk_node.block), irt=irt)
                    st = sn.observe()
                    if sib.id in st['rows'] or sib.id in st['buffer']:
                        ck.violation('refused-block-in-store', 'a competing block at the checkpointed height 4, refused by the running '
                                     'node (%s), is in the block store%s: a restart loads it without validation'
                                     % ('reply during a bulk download' if irt else 'relayed', '' if sib.id in st['rows'] else "'s write buffer"),
                                     {'kind': 'node-checkpoint', 'in_response_to': irt, 'block': sib.block.serialize().hex(), 'stored': True})
                    ck.case(('node-checkpoint', irt), kind='node-level/%s/competing-block-at-checkpoint' % ('reply' if irt else 'relayed'))
                    if sib.id in st['blocks']:
                        ck.violation('checkpoint-not-enforced', 'a node whose chain reaches height %d accepts a competing block at the '
                                     'checkpointed height 4 delivered as a %s' % (main[-1].height, 'reply during a bulk download' if irt else 'relayed block'),
                                     {'kind': 'node-checkpoint', 'in_response_to': irt, 'block': sib.block.serialize().hex()})
    finally:
        for mod, val in patched:
            mod.IBD_VALIDATION_SKIP = val


def run(tier, seed):
    ck = common.Check('C18', tier, seed)
    ck.rule = ('(a) genesis + every recorded real block: id vs file name / checkpoint 0, byte-identical re-encoding, full '
               'validation with the REAL scrypt and the horizon lifted for this run, and the same through the extracted '
               'model with the recorded oracle transcript; (b) every one of the built-in checkpoint heights (all of them), '
               'candidate with the right id and candidates with wrong ids, through validate_block_in_coinstate with the '
               'shipped table, and through the model; neighbouring non-checkpoint heights; (c) generated chains under a '
               'TEST horizon (checkpoints at generated heights): otherwise fully valid fork blocks at checkpointed heights '
               'must be refused, at the last checkpointed height too; non-trivial = distinct (height, candidate id)')
    ck.trusted += ['extraction + OCaml driver', 'real scrypt / sha256d / blake2 as oracles (transcript)',
                   'the recorded blocks under tests/testdata/chain are taken to be the real network\'s']
    ck.assumptions += ['conformance of the recorded real blocks is established by execution (finite data), not by proof']
    r = ck.build(extract=True)
    from skepticoin import consensus as C
    from skepticoin import cheating
    from skepticoin.coinstate import CoinState
    from skepticoin.datatypes import Block
    from skepticoin.genesis import genesis_block_data
    from skepticoin.humans import human

    # ---------------- (a) real blocks, real scrypt
    genesis = Block.deserialize(genesis_block_data)
    gid = spec.sha256d(genesis.header.serialize())
    ck.case(('genesis',), kind='real-block', sample={'genesis_id': gid.hex()})
    if human(genesis.hash()) != cheating.KNOWN_HASHES.get(0) or genesis.hash() != gid:
        ck.violation('genesis-id', 'the built-in genesis block does not have the id of checkpoint 0',
                     {'kind': 'genesis', 'id': gid.hex()})
    if genesis.serialize() != genesis_block_data:
        ck.violation('genesis-reencode', 'the built-in genesis block does not re-encode byte-identically', {'kind': 'genesis'})
    reqs = []
    meta = []
    with chaingen.Env(period=common.param('BLOCKS_BETWEEN_TARGET_READJUSTMENT'), block_span=120, fast=False) as env:
        env.span = common.param('DESIRED_TARGET_READJUSTMENT_TIMESPAN')
        cs = CoinState.zero()
        # genesis evidence recomputes with the real scrypt
        try:
            ev = C.construct_pow_evidence(CoinState.empty(), genesis.header.summary, 0, genesis.transactions)
            if ev != genesis.header.pow_evidence:
                ck.violation('genesis-evidence', 'genesis proof-of-work evidence does not recompute', {'kind': 'genesis'})
        except Exception as e:
            ck.violation('genesis-evidence', 'recomputing genesis evidence raised %s' % type(e).__name__, {'kind': 'genesis'})
        prefix = [genesis]
        for fn, raw, blk in real_blocks():
            want_id = fn.split('-')[1]
            ck.case(('real', fn), kind='real-block', sample={'file': fn} if fn.startswith('00000003') else None)
            if human(blk.hash()) != want_id or human(spec.sha256d(blk.header.serialize())) != want_id:
                ck.violation('real-block-id', 'recorded real block %s no longer has its id' % fn, {'kind': 'real', 'file': fn})
            if blk.serialize() != raw:
                ck.violation('real-block-reencode', 'recorded real block %s does not re-encode byte-identically' % fn,
                             {'kind': 'real', 'file': fn})
            with model.Transcript() as tr:
                v, new = consensus_check.impl_verdict(cs, blk, blk.timestamp)
                for b in prefix + [blk]:
                    tr.add_block_ids(b)
                tbl = tr.table()
            if v != [1]:
                ck.violation('real-block-rejected', 'recorded real block %s fails full validation (real scrypt): %s' % (fn, new),
                             {'kind': 'real', 'file': fn})
                break
            reqs.append(('chain', tbl, [env.params_sx(), [[0, b.serialize()] for b in prefix] + [[1, raw, blk.timestamp]], 0]))
            meta.append(('real block %s' % fn, [1], {'kind': 'real', 'file': fn}))
            cs = new
            prefix.append(blk)

        # (a1) out-of-order presentation: each recorded block is offered once BEFORE its parent is known (refused), then
        #      the chain is offered in order -- an earlier refusal must not stick; and the genesis evidence recomputes on
        #      whatever chain state it is asked on
        try:
            rb_ = real_blocks()
            cs3 = CoinState.zero()
            for idx, (fn, raw, blk) in enumerate(rb_):
                if idx + 1 < len(rb_):
                    early = rb_[idx + 1][2]
                    ve, _ = consensus_check.impl_verdict(cs3, early, early.timestamp)
                    ck.case(('real-early', fn), kind='real-block-before-its-parent/%s' % ('accepted' if ve == [1] else 'refused'))
                v3, new3 = consensus_check.impl_verdict(cs3, blk, blk.timestamp)
                ck.case(('real-after-early', fn), kind='real-block-after-early-offer')
                if v3 != [1]:
                    ck.violation('real-block-rejected', 'recorded real block %s fails full validation after it had been offered '
                                 'once before its parent was known: %s' % (fn, new3), {'kind': 'real', 'file': fn, 'early_offer': True})
                    break
                cs3 = new3
            for label_, st_ in (('genesis-only state', CoinState.zero()), ('state holding the recorded blocks', cs3)):
                try:
                    evg = C.construct_pow_evidence(st_, genesis.header.summary, 0, genesis.transactions)
                    okg = (evg == genesis.header.pow_evidence)
                except Exception as e:
                    okg = False
                ck.case(('genesis-evidence', label_), kind='genesis-evidence')
                if not okg:
                    ck.violation('genesis-evidence', 'the genesis proof-of-work evidence does not recompute on a %s' % label_,
                                 {'kind': 'genesis', 'state': label_})
        except Exception as e:
            ck.disagree('scenario out-of-order real blocks raised %r' % (e,), {})

        # (a1') the recorded blocks keep their evidence on every platform the package has branches for: a child
        #       interpreter in which sys.platform reports win32 / darwin before the package is imported recomputes the
        #       genesis and first recorded block's evidence with the real scrypt
        try:
            import subprocess
            import sys as _sys
            code = (
                "import sys, os, tempfile, hashlib, struct, json, logging, socket, selectors, sqlite3, threading, decimal\n"
                "import datetime, random, traceback, typing, ipaddress, io, itertools, collections, argparse, time, pathlib\n"
                "import urllib.request, multiprocessing, subprocess, shutil, binascii, copy\n"
                "try:\n    import immutables, ecdsa, scrypt\nexcept Exception:\n    pass\n"
                "os.chdir(tempfile.mkdtemp())\n"
                "sys.platform = %r      # from here on the package sees that platform\n"
                "sys.path.insert(0, %r)\n"
                "from skepticoin.datatypes import Block\n"
                "from skepticoin.genesis import genesis_block_data\n"
                "from skepticoin.coinstate import CoinState\n"
                "from skepticoin import consensus as C\n"
                "g = Block.deserialize(genesis_block_data)\n"
                "ok = C.construct_pow_evidence(CoinState.empty(), g.header.summary, 0, g.transactions) == g.header.pow_evidence\n"
                "cs = CoinState.empty().add_block_no_validation(g)\n"
                "d = os.path.join(%r, 'tests', 'testdata', 'chain')\n"
                "b1 = Block.stream_deserialize(open(os.path.join(d, sorted(os.listdir(d))[0]), 'rb'))\n"
                "ok = ok and C.construct_pow_evidence(cs, b1.header.summary, b1.height, b1.transactions) == b1.header.pow_evidence\n"
                "print('EVIDENCE', ok)\n")
            for plat in ('win32', 'darwin'):
                cp = subprocess.run([_sys.executable, '-c', code % (plat, common.REPO, common.REPO)], stdout=subprocess.PIPE,
                                    stderr=subprocess.STDOUT, text=True, timeout=300)
                ck.case(('platform', plat), kind='real-evidence-on-platform/' + plat)
                if 'EVIDENCE True' not in cp.stdout:
                    ck.violation('real-block-rejected', 'with sys.platform = %s the evidence of the genesis / first recorded block does '
                                 'not recompute (real scrypt): %s' % (plat, cp.stdout.strip().splitlines()[-1][:160] if cp.stdout.strip() else ''),
                                 {'kind': 'platform', 'platform': plat})
        except Exception as e:
            ck.disagree('platform probe raised %r' % (e,), {})

        # (a2) the same real blocks arriving while a competing (longer) branch is the node's head
        try:
            rb = real_blocks()
            cs2 = CoinState.zero()
            gnode = chaingen.genesis_node()
            nodes2 = [gnode]
            for fn, raw, blk in rb[:2]:
                cs2 = cs2.add_block_no_validation(blk)
                nodes2.append(chaingen.Node(blk, nodes2[-1], spec.apply_block(nodes2[-1].utxo, spec.BlockView(blk))))
            comp = nodes2[-1]
            for i in range(4):
                cbx = chaingen.coinbase(comp.height + 1, 10 ** 9, b'\x55' * 64, data=b'competing%d' % i)
                fb = chaingen.assemble(env, comp, [cbx], comp.view.time + 500 + i, mine=False)
                comp = chaingen.Node(fb, comp, spec.apply_block(comp.utxo, spec.BlockView(fb)))
                cs2 = cs2.add_block_no_validation(fb)
            for fn, raw, blk in rb[2:]:
                v, new = consensus_check.impl_verdict(cs2, blk, blk.timestamp)
                ck.case(('real-on-side-branch', fn), kind='real-block-while-on-competing-branch')
                if v != [1]:
                    ck.violation('real-block-rejected', 'recorded real block %s fails full validation while a competing '
                                 'branch is the head: %s' % (fn, new), {'kind': 'real', 'file': fn, 'competing': True})
                    break
                cs2 = new
        except Exception as e:
            ck.disagree('scenario real-blocks-on-side-branch raised %r' % (e,), {})

    # ---------------- (b) the shipped table, every checkpointed height
    table = dict(cheating.KNOWN_HASHES)
    hz = cheating.MAX_KNOWN_HASH_HEIGHT
    ck.extra['checkpoints'] = len(table)
    ck.extra['horizon'] = hz
    if common.param('MAX_KNOWN_HASH_HEIGHT') != hz or common.param('KNOWN_HASHES') is not cheating.KNOWN_HASHES and common.param('KNOWN_HASHES') != table:
        ck.violation('validator-uses-other-table', 'consensus uses a checkpoint table / horizon different from cheating.py',
                     {'kind': 'table'})
    if hz != max(table):
        ck.violation('horizon-not-max', 'checkpoint horizon is not the greatest checkpointed height', {'kind': 'table'})
    known_sx = [[h, unhexlify(v)] for h, v in sorted(table.items())]
    params = [hz + 1, known_sx, common.param('BLOCKS_BETWEEN_TARGET_READJUSTMENT'), common.param('DESIRED_TARGET_READJUSTMENT_TIMESPAN'),
              common.param('MAX_BLOCK_SIZE'), common.param('MAX_COINBASE_RANDOM_DATA_SIZE'), common.param('MAX_FUTURE_BLOCK_TIME'), common.param('MAX_SASHIMI'),
              common.param('SUBSIDY_HALVING_INTERVAL'), common.param('INITIAL_SUBSIDY'), common.param('CHAIN_SAMPLE_COUNT'), common.param('CHAIN_SAMPLE_SIZE')]
    cs0 = CoinState.zero()
    roots = {}         # height h -> id of a stored stand-in parent at height h - 1 (so that a candidate at h sits AT that position)
    heights = sorted(table)
    extra_heights = sorted(set([h + d for h in heights[:5] + heights[-5:] for d in (-1, 1) if h + d > 0 and (h + d) not in table]))
    ops = []
    parent_ops = []
    expect = []
    tbl = [('sha256d', genesis.header.serialize(), gid)] + [('sha256d', t.serialize(), spec.sha256d(t.serialize())) for t in genesis.transactions]
    for h in heights + extra_heights:
        for variant in ('right', 'wrong-random', 'wrong-neighbour'):
            if h in table:
                if variant == 'right':
                    cid = unhexlify(table[h])
                elif variant == 'wrong-random':
                    cid = bytes(ck.rng.getrandbits(8) for _ in range(32))
                else:
                    other = heights[(heights.index(h) + 1) % len(heights)]
                    cid = unhexlify(table[other])
            else:
                if variant != 'right':
                    continue
                cid = bytes(ck.rng.getrandbits(8) for _ in range(32))
            cb = chaingen.coinbase(h, 1, b'\x22' * 64, data=b'c18')
            from skepticoin.datatypes import BlockHeader, BlockSummary, PowEvidence
            if h == 0:
                prev_id = b'\x00' * 32
            else:
                if h not in roots:
                    # a stand-in parent at height h - 1, stored without validation (as blocks loaded from disk are)
                    pcb = chaingen.coinbase(h - 1, 1, b'\x22' * 64, data=b'par')
                    psum = BlockSummary(h - 1, b'\x00' * 32, b'\x44' * 32, 1600000000, b'\x00' * 32, h)
                    pblk = Block(BlockHeader(psum, PowEvidence(b'\x01' * 32, b'\x02' * 32, b'\x03' * 32)), [pcb])
                    cs0 = cs0.add_block_no_validation(pblk)
                    roots[h] = pblk
                    parent_ops.append([0, pblk.serialize()])
                    tbl.append(('sha256d', pblk.header.serialize(), spec.sha256d(pblk.header.serialize())))
                    tbl.append(('sha256d', pcb.serialize(), spec.sha256d(pcb.serialize())))
                prev_id = spec.sha256d(roots[h].header.serialize())
            summ = BlockSummary(h, prev_id, b'\x44' * 32, 1700000000, b'\x00' * 32, ck.rng.getrandbits(32))
            hdr = BlockHeader(summ, PowEvidence(b'\x01' * 32, b'\x02' * 32, b'\x03' * 32))
            blk = Block(hdr, [cb], hash=cid)
            try:
                C.validate_block_in_coinstate(blk, cs0)
                v = [1]
            except C.ValidateTransactionError:
                v = [0, 1]
            except C.ValidationError:
                v = [0, 2]
            except Exception:
                v = [0, 3]
            ck.case((h, cid), kind='checkpoint/%s/%s' % (variant if h in table else 'no-checkpoint', 'accept' if v == [1] else 'reject'),
                    sample={'height': h, 'candidate': variant, 'verdict': v} if h == 163000 else None)
            should_accept = (h not in table) or variant == 'right'
            if v == [1] and not should_accept:
                ck.violation('checkpoint-not-enforced', 'a block with an id other than the checkpoint is accepted at '
                             'checkpointed height %d' % h, {'kind': 'checkpoint', 'height': h, 'id': cid.hex()})
            if v != [1] and should_accept and h <= hz:
                ck.violation('checkpoint-refuses-right-id' if h in table else 'below-horizon-refused',
                             'a block %s is refused at height %d below the horizon' %
                             ('carrying the checkpointed id' if h in table else 'at a non-checkpointed height', h),
                             {'kind': 'checkpoint', 'height': h, 'id': cid.hex()})
            ops.append([7, blk.serialize(), 0, [[b'sha256d', hdr.serialize(), cid]]])
            expect.append(v)
    # a candidate without a stored parent is refused at every height but 0, whatever the table says
    for h in (1, 499, 500, 163000):
        cbx = chaingen.coinbase(h, 1, b'\x22' * 64, data=b'orph')
        for prev_x in (b'\x00' * 32, b'\x33' * 32):
            sx_ = BlockSummary(h, prev_x, b'\x44' * 32, 1700000000, b'\x00' * 32, 5)
            hx_ = BlockHeader(sx_, PowEvidence(b'\x01' * 32, b'\x02' * 32, b'\x03' * 32))
            cidx = unhexlify(table[h]) if h in table else bytes(ck.rng.getrandbits(8) for _ in range(32))
            bx_ = Block(hx_, [cbx], hash=cidx)
            try:
                C.validate_block_in_coinstate(bx_, cs0)
                vx = [1]
            except C.ValidateTransactionError:
                vx = [0, 1]
            except C.ValidationError:
                vx = [0, 2]
            except Exception:
                vx = [0, 3]
            ck.case(('parentless', h, prev_x), kind='checkpoint/no-stored-parent/%s' % ('accept' if vx == [1] else 'reject'))
            if vx == [1]:
                ck.violation('parentless-block-accepted', 'a block at height %d without a stored parent (previous id %s) passes in-state '
                             'validation%s' % (h, 'all zero' if prev_x[0] == 0 else 'unknown', ' carrying the checkpointed id' if h in table else ''),
                             {'kind': 'checkpoint', 'height': h, 'id': cidx.hex(), 'parentless': True})
            ops.append([7, bx_.serialize(), 0, [[b'sha256d', hx_.serialize(), cidx]]])
            expect.append(vx)
    reqs.append(('chain', tbl, [params, [[0, genesis.serialize()]] + parent_ops + ops, 0]))
    meta.append(('checkpoint-table', expect, {'kind': 'table', 'parents': len(parent_ops)}))

    # ---------------- (b2) shipped constants, the recorded real blocks as the chain: a block built on the real head that
    #                  merely DECLARES a height at or below the horizon must not ride the checkpoint shortcut
    try:
        from skepticoin.datatypes import BlockHeader, BlockSummary, PowEvidence
        cs_real = CoinState.zero()
        real = real_blocks()
        for fn, raw, blk in real:
            cs_real = cs_real.add_block_no_validation(blk)
        rhead = cs_real.head()
        ops2, expect2 = [], []
        tbl2 = list(tbl)
        for fn, raw, blk in real:
            tbl2.append(('sha256d', blk.header.serialize(), spec.sha256d(blk.header.serialize())))
            for t in blk.transactions:
                tbl2.append(('sha256d', t.serialize(), spec.sha256d(t.serialize())))
        for d in (1, 2, 3, 499, 500, 501, 162999, 163000):
            if d == rhead.height + 1:
                continue
            cb = chaingen.coinbase(d, 10 ** 15, b'\x22' * 64, data=b'c18')
            mr = spec.merkle_root([spec.sha256d(cb.serialize())])
            nonce = 0
            while True:
                summ = BlockSummary(d, rhead.hash(), mr, rhead.timestamp + 1, b'\xff' * 32, nonce)
                ablk = Block(BlockHeader(summ, PowEvidence(b'\x00' * 32, b'\x00' * 32, b'\x00' * 32)), [cb])
                if ablk.hash() < ablk.target:
                    break
                nonce += 1
            v, new = consensus_check.impl_verdict(cs_real, ablk, rhead.timestamp + 2)
            ck.case(('declared', d), kind='declared-height-below-horizon/%s' % ('accept' if v == [1] else 'reject'),
                    sample={'parent_height': rhead.height, 'declared_height': d, 'verdict': v} if d == 1 else None)
            if v == [1]:
                ck.violation('declared-height-below-horizon-accepted',
                             'shipped constants: a block built on the head (height %d) that declares height %d, with target 2^256-1, '
                             'zeroed proof-of-work evidence and a reward of 10^15, is accepted by full validation%s'
                             % (rhead.height, d, ' and becomes the head' if new.head().hash() == ablk.hash() else ''),
                             {'kind': 'declared-height', 'declared': d, 'block': ablk.serialize().hex()})
            hid = spec.sha256d(ablk.header.serialize())
            ops2.append([6, ablk.serialize(), rhead.timestamp + 2, [[b'sha256d', ablk.header.serialize(), hid],
                                                                     [b'sha256d', cb.serialize(), spec.sha256d(cb.serialize())]]])
            expect2.append(v)
        reqs.append(('chain', tbl2, [params, [[0, genesis.serialize()]] + [[0, raw] for fn, raw, blk in real] + ops2, 0]))
        meta.append(('declared-height', expect2, {'kind': 'declared-height'}))
    except Exception as e:
        import traceback
        ck.disagree('declared-height probe raised %r' % (e,), {'trace': traceback.format_exc()[-500:]})

    # ---------------- (c) generated chains under a test horizon
    keys = chaingen.Keys()
    ntrees = 3 if tier == 'quick' else 40
    for trial in range(ntrees):
        with chaingen.Env(period=ck.rng.choice([3, 50])) as env0:
            tg = chaingen.TreeGen(env0, keys, ck.rng)
            tg.grow(7, fork_p=0.0)       # a linear chain first: heights 1..7
            main = list(tg.nodes)
            cp_heights = [2, 4, 5]
            known = {0: human(main[0].id)}
            for h in cp_heights:
                known[h] = human(main[h].id)
            forks = []
            for h in (2, 3, 4, 5, 6):
                forks.append(tg.extend(main[h - 1]))   # a competing, fully valid block at height h
        with chaingen.Env(period=env0.period, hz=max(cp_heights), known=known) as env:
            cs = chaingen.impl_state_from(main)
            for fb in forks:
                with model.Transcript() as tr:
                    v, new = consensus_check.impl_verdict(cs, fb.block, fb.view.time)
                    for m in main + [fb]:
                        tr.add_block_ids(m.block)
                    tbl = tr.table() + spec.full_oracle([m.view for m in fb.parent.chain()], fb.parent.utxo, fb.view,
                                                        fb.view.time, env.period, env.span, env.scrypt)
                h = fb.height
                ck.case(('testhz', trial, h), kind='test-horizon/height%d/%s' % (h, 'accept' if v == [1] else 'reject'),
                        sample={'test_horizon': max(cp_heights), 'checkpointed': cp_heights, 'fork_height': h, 'verdict': v}
                        if trial == 0 else None)
                rp = {'label': 'fork-at-checkpoint', 'prefix': [m.block.serialize().hex() for m in main],
                      'block': fb.block.serialize().hex(), 'now': fb.view.time, 'period': env.period, 'span': env.span,
                      'interval': env.interval, 'hz': env.hz, 'known': known}
                if h in cp_heights and v == [1]:
                    ck.violation('checkpoint-not-enforced', 'an alternative (otherwise fully valid) block is accepted at '
                                 'checkpointed height %d (horizon %d)' % (h, env.hz), rp)
                if h not in cp_heights and v != [1]:
                    ck.disagree('valid fork block at non-checkpointed height %d refused under test horizon' % h, rp)
                reqs.append(('chain', tbl, [env.params_sx(), [[0, m.block.serialize()] for m in main] +
                                            [[1, fb.block.serialize(), fb.view.time]], 0]))
                meta.append(('test-horizon fork at height %d' % h, v, rp))
    try:
        node_level(ck, tier)
    except Exception:
        import traceback
        tb = traceback.format_exc()
        if 'could not mine a block' not in tb:
            ck.disagree('node-level checkpoint probe crashed: %s' % tb[-500:], {})
    if r.ok:
        outs = model.run_batch(reqs)
        for (what, want, rp), o in zip(meta, outs):
            if what == 'checkpoint-table':
                got = o[0][1 + rp.get('parents', 0):]
                if got != want:
                    bad = [i for i, (a, b) in enumerate(zip(want, got)) if a != b]
                    ck.disagree('validate_block_in_coinstate vs model on the checkpoint table: %d cases differ' % len(bad), rp)
            elif what == 'declared-height':
                got = o[0][-len(want):] if want else []
                if got != want:
                    ck.disagree('add_block vs model on blocks declaring a height below the horizon: impl %s model %s' % (want, got), rp)
            else:
                got = o[0][-1]
                if got != want:
                    ck.disagree('add_block vs model on %s: impl %s model %s' % (what, want, got), rp)
        ck.extra['traces_validated_against_impl'] = sum(len(m[1]) if m[0] == 'checkpoint-table' else 1 for m in meta)
    return ck.finish()


def replay(path):
    d = json.load(open(path))
    rp = d.get('replay', {})
    if rp.get('kind') == 'declared-height':
        from skepticoin.datatypes import Block
        from skepticoin.coinstate import CoinState
        cs = CoinState.zero()
        for fn, raw, blk in real_blocks():
            cs = cs.add_block_no_validation(blk)
        ablk = Block.deserialize(bytes.fromhex(rp['block']))
        v, _ = consensus_check.impl_verdict(cs, ablk, cs.head().timestamp + 2)
        print('block declaring height %d on the real head (height %d): verdict %s (1 = accepted)' % (rp['declared'], cs.head().height, v))
        return 1 if v == [1] else 0
    if rp.get('label') == 'fork-at-checkpoint':
        from skepticoin.datatypes import Block
        with chaingen.Env(period=rp['period'], hz=rp['hz'], known={int(k): v for k, v in rp['known'].items()}):
            main = [Block.deserialize(bytes.fromhex(h)) for h in rp['prefix']]
            from skepticoin.coinstate import CoinState
            cs = CoinState.empty()
            for b in main:
                cs = cs.add_block_no_validation(b)
            v, _ = consensus_check.impl_verdict(cs, Block.deserialize(bytes.fromhex(rp['block'])), rp['now'])
            print('fork block at a checkpointed height -> verdict', v)
            return 1 if v == [1] else 0
    print(json.dumps(d, indent=1)[:2000])
    return 1
