"""In-process simulator driving the REAL LocalPeer / ConnectedRemotePeer / NetworkManager / ChainManager / BlockStore
objects with no threads and no OS sockets: fake socket module, fake selector, virtual clock, seeded randomness.
Everything is installed from outside by attribute assignment; /repo is not modified.

Events a scheduler can fire on a node:
  ('recv', conn, k)  move up to k in-flight bytes into conn's inbox and fire a READ selector event (one recv(1024))
  ('eof', conn)      READ event on a connection whose other side closed / was refused
  ('write', conn)    WRITE selector event (only when the node asked for it)
  ('step', t)        step_managers(t)
"""
import logging
import os
import random
import selectors
import shutil
import tempfile


class Clock:
    def __init__(self, t=1_700_000_000):
        self.t = t

    def __call__(self):
        return self.t

    # the same object also stands in for the `time` MODULE (code written as `import time; time.time()`)
    def time(self):
        return self.t

    def __getattr__(self, name):
        import time as _time
        return getattr(_time, name)


class FakeSocket:
    _n = 0

    def __init__(self, net, node, local_addr):
        FakeSocket._n += 1
        self.id = FakeSocket._n
        self.net = net
        self.node = node            # owning Node or RawPeer
        self.local_addr = local_addr
        self.remote_addr = None
        self.other = None
        self.inbox = bytearray()    # bytes available to recv()
        self.flight = bytearray()   # bytes sent by the other side, not yet delivered
        self.closed = False
        self.remote_closed = False
        self.refused = False
        self.send_limit = getattr(net, 'default_send_limit', None)      # max bytes accepted per send() (None = all)

    # --- socket API used by the node
    def setblocking(self, flag):
        pass

    def setsockopt(self, *a):
        pass

    def fileno(self):
        return -1 if self.closed else 1000 + self.id

    def connect_ex(self, addr):
        self.remote_addr = addr
        if self.net.is_unreachable(addr[0]):
            self.refused = True          # no route: the connect fails on the spot (ENETUNREACH), nothing will ever arrive
            return 101
        self.net.connect(self, addr)
        return 115

    def connect(self, addr):
        rc = self.connect_ex(addr)
        if rc == 101:
            raise OSError(101, 'Network is unreachable')
        raise BlockingIOError(115, 'Operation now in progress')

    def sendall(self, data):
        n = self.send(data)
        if n < len(data):
            raise BlockingIOError(11, 'Resource temporarily unavailable')

    def getpeername(self):
        if self.remote_addr is None:
            raise OSError(107, 'Transport endpoint is not connected')
        return self.remote_addr

    def send(self, data):
        if self.closed:
            raise OSError(9, 'Bad file descriptor')
        if self.refused:
            raise ConnectionRefusedError(111, 'Connection refused')
        if self.other is None or self.remote_closed:
            raise BrokenPipeError(32, 'Broken pipe')
        n = len(data) if self.send_limit is None else min(len(data), self.send_limit)
        self.other.flight += data[:n]
        self.net.bytes_sent += n
        return n

    def recv(self, n):
        if self.closed:
            raise OSError(9, 'Bad file descriptor')
        if self.refused:
            raise ConnectionRefusedError(111, 'Connection refused')
        if self.inbox:
            out = bytes(self.inbox[:n])
            del self.inbox[:n]
            return out
        if self.remote_closed:
            return b''
        raise BlockingIOError(11, 'Resource temporarily unavailable')

    def close(self):
        if self.closed:
            return
        self.closed = True
        if self.other is not None:
            self.other.remote_closed = True

    def accept(self):
        raise NotImplementedError


class ListenSocket:
    def __init__(self, node):
        self.node = node
        self.pending = []

    def accept(self):
        conn = self.pending.pop(0)
        return conn, conn.remote_addr


class FakeSocketModule:
    AF_INET = 2
    SOCK_STREAM = 1
    SOL_SOCKET = 1
    SO_REUSEADDR = 2

    def __init__(self, net):
        self.net = net
        self.socket_cls = FakeSocket
        self.error = OSError

    def socket(self, *a):
        node = self.net.acting
        limit = getattr(self.net, 'max_open_sockets', None)
        if limit is not None:
            opened = getattr(node, 'sockets_opened', [])
            opened[:] = [x for x in opened if not x.closed]
            if len(opened) >= limit:
                raise OSError(24, 'Too many open files')
        self.net.ephemeral += 1
        sk = FakeSocket(self.net, node, (node.host, 40000 + self.net.ephemeral % 9000))   # a real ephemeral port never exceeds 65535
        if limit is not None:
            if not hasattr(node, 'sockets_opened'):
                node.sockets_opened = []
            node.sockets_opened.append(sk)
        return sk


class FakeSelector:
    def __init__(self):
        self.map = {}

    def register(self, sock, events, data=None):
        if sock in self.map:
            raise KeyError('already registered')
        self.map[sock] = selectors.SelectorKey(sock, sock.fileno() if hasattr(sock, 'fileno') else -2, events, data)
        return self.map[sock]

    def modify(self, sock, events, data=None):
        if getattr(sock, 'closed', False):
            raise ValueError('Invalid file descriptor: -1')
        if sock not in self.map:
            raise KeyError('%r is not registered' % sock)
        self.map[sock] = selectors.SelectorKey(sock, sock.fileno(), events, data)
        return self.map[sock]

    def unregister(self, sock):
        if sock not in self.map:
            raise KeyError('%r is not registered' % sock)
        return self.map.pop(sock)

    def get_map(self):
        return self.map

    def select(self, timeout=None):
        return []

    def close(self):
        pass


class Node:
    """one real LocalPeer with its own directory (peers.json, chain.db) and block store"""

    def __init__(self, net, name, host, port, coinstate, listen=True, real_store=True):
        from skepticoin.networking.local_peer import LocalPeer
        from skepticoin.networking.disk_interface import DiskInterface
        from skepticoin import blockstore
        self.net = net
        self.name = name
        self.host = host
        self.port = port
        self.dir = os.path.join(net.root, name)
        os.makedirs(self.dir)
        net.acting = self
        os.chdir(self.dir)
        import contextlib, io
        with contextlib.redirect_stdout(io.StringIO()):
            self.store = blockstore.BlockStore(os.path.join(self.dir, 'chain.db')) if real_store else None
        blockstore.DefaultBlockStore.instance = self.store
        if self.store is not None:
            # the store holds the chain the node starts from (as after a restart), parents first
            try:
                initial = sorted((b for b in coinstate.block_by_hash.values() if b.height > 0), key=lambda b: b.height)
                if initial:
                    with contextlib.redirect_stdout(io.StringIO()):
                        self.store.write_blocks_to_disk(initial)
            except Exception:
                pass
        # the node is put together the way the scripts do it: through NetworkingThread's constructor (which creates the
        # LocalPeer and hands it the chain state); the thread itself is never started -- simnet drives the event loop
        try:
            from skepticoin.networking.threading import NetworkingThread

            class OfflineDiskInterface(DiskInterface):
                def load_peers(self):          # the real one fetches a seed list over the network when peers.json is missing
                    return {}
            self.thread = NetworkingThread(coinstate, port if listen else None, OfflineDiskInterface())
            self.lp = self.thread.local_peer
            self.lp.network_manager.disconnected_peers = {}
        except Exception:
            self.lp = LocalPeer(disk_interface=DiskInterface())
            self.lp.chain_manager.set_coinstate(coinstate)
        self.lp.selector = FakeSelector()
        self.lp.running = True
        self.lp.chain_manager.started_at = net.clock()
        if listen:
            self.lp.port = port
            self.lsock = ListenSocket(self)
            net.listeners[(host, port)] = self
        self.escaped = []      # exceptions that escaped an event handler (must stay empty)

    def activate(self):
        from skepticoin import blockstore
        self.net.acting = self
        os.chdir(self.dir)
        if self.store is not None:
            blockstore.DefaultBlockStore.instance = self.store

    def conns(self):
        return [k.data for s, k in self.lp.selector.map.items() if isinstance(s, FakeSocket)]

    def key_of(self, sock):
        return self.lp.selector.map.get(sock)

    # ---- events
    def enabled(self):
        ev = []
        for s, key in list(self.lp.selector.map.items()):
            if not isinstance(s, FakeSocket) or s.closed:
                continue
            if s.flight or s.inbox:
                ev.append(('recv', s))
            elif s.remote_closed or s.refused:
                ev.append(('eof', s))
            if key.events & selectors.EVENT_WRITE:
                ev.append(('write', s))
        return ev

    def fire(self, ev, k=None):
        self.activate()
        kind, s = ev[0], ev[1]
        key = self.lp.selector.map.get(s)
        if key is None:
            return
        try:
            if kind == 'recv':
                n = len(s.flight) if k is None else min(k, len(s.flight))
                s.inbox += s.flight[:n]
                del s.flight[:n]
                self.lp.handle_remote_peer_selector_event(key, selectors.EVENT_READ)
            elif kind == 'eof':
                self.lp.handle_remote_peer_selector_event(key, selectors.EVENT_READ)
            elif kind == 'write':
                self.lp.handle_remote_peer_selector_event(key, selectors.EVENT_WRITE)
        except BaseException as e:
            if getattr(e, 'harness_abort', False):
                raise                    # the harness's own watchdog / kill signal is not an implementation exception   # the property: nothing may escape the per-connection handler
            self.escaped.append((kind, repr(e)))

    def step(self, t=None):
        self.activate()
        if t is not None:
            self.net.clock.t = t
        try:
            self.lp.step_managers(self.net.clock())
        except BaseException as e:
            if getattr(e, 'harness_abort', False):
                raise                    # the harness's own watchdog / kill signal is not an implementation exception
            self.escaped.append(('step', repr(e)))

    def accept_pending(self):
        self.activate()
        while getattr(self, 'lsock', None) is not None and self.lsock.pending:
            try:
                self.lp.handle_incoming_connection(self.lsock)
            except BaseException as e:
                if getattr(e, 'harness_abort', False):
                    raise                # the harness's own watchdog / kill signal is not an implementation exception
                self.escaped.append(('accept', repr(e)))

    def close(self):
        try:
            if self.store is not None:
                self.store.close()
        except Exception:
            pass


class RawPeer:
    """a scripted (possibly adversarial) peer: one socket, arbitrary bytes out, collects bytes in"""

    def __init__(self, net, host='10.9.9.9'):
        self.net = net
        self.host = host
        self.name = 'raw-' + host
        net.ephemeral += 1
        self.sock = FakeSocket(net, self, (host, 50000 + net.ephemeral % 15000))   # a real ephemeral port never exceeds 65535
        self.received = bytearray()

    def connect(self, node):
        self.sock.remote_addr = (node.host, node.port)
        self.net.connect(self.sock, (node.host, node.port))
        node.accept_pending()
        return self

    def send(self, data):
        data = bytes(data)
        while data:                      # a scripted peer writes like a blocking client: everything goes out
            n = self.sock.send(data)
            data = data[n:]

    def drain(self):
        self.received += self.sock.flight
        del self.sock.flight[:]
        return bytes(self.received)

    def close(self):
        self.sock.close()


class RawServer:
    """a scripted listener: accepts connections; the harness decides what it says on each"""

    def __init__(self, net, host, port):
        self.net = net
        self.host = host
        self.port = port
        self.name = 'srv-%s:%d' % (host, port)
        self.lsock = ListenSocket(self)
        self.conns = []
        net.listeners[(host, port)] = self

    def accept_pending(self):
        while self.lsock.pending:
            self.conns.append(self.lsock.pending.pop(0))

    def live(self):
        return [c for c in self.conns if not c.closed and not c.remote_closed]


class Net:
    def __init__(self, seed=0, t0=1_700_000_000):
        self.root = tempfile.mkdtemp(prefix='skv-net-')
        self.clock = Clock(t0)
        self.listeners = {}
        self.nodes = []
        self.acting = None
        self.ephemeral = 0
        self.bytes_sent = 0
        self.rng = random.Random(seed)
        self.saved = []
        self.cwd = os.getcwd()
        self.allowed = None       # optional set of frozenset({hostA, hostB}): every other connection attempt is refused
        self.default_send_limit = None   # congested links: every send() takes at most this many bytes
        self.unreachable = set()         # hosts without a route: connecting fails on the spot
        self.max_open_sockets = None     # per-node descriptor limit (EMFILE beyond it)

    def __enter__(self):
        from skepticoin.networking import local_peer as LP, remote_peer as RP, manager as MG
        from skepticoin import blockstore
        self.saved = [(LP, 'socket', LP.socket),
                      (blockstore.DefaultBlockStore, 'instance', blockstore.DefaultBlockStore.instance)]
        LP.socket = FakeSocketModule(self)
        r = random.Random(self.rng.getrandbits(32))
        # clock and randomness wherever the networking modules look them up (absent names are left alone)
        from skepticoin.networking import disk_interface as DI_
        for mod, name, val in ((LP, 'time', self.clock), (RP, 'time', self.clock), (MG, 'time', self.clock),
                               (blockstore, 'time', self.clock), (DI_, 'time', self.clock),
                               (RP, 'random', r), (MG, 'random', r), (LP, 'random', r)):
            if hasattr(mod, name):
                self.saved.append((mod, name, getattr(mod, name)))
                setattr(mod, name, val)
        self.loglevel = logging.root.manager.disable
        logging.disable(logging.CRITICAL)
        return self

    def __exit__(self, *a):
        for n in self.nodes:
            n.close()
        for mod, name, val in reversed(self.saved):
            setattr(mod, name, val)
        logging.disable(self.loglevel)
        os.chdir(self.cwd)
        shutil.rmtree(self.root, ignore_errors=True)

    def add_node(self, name, coinstate, host=None, port=2412, listen=True, real_store=True):
        host = host or '10.0.0.%d' % (len(self.nodes) + 1)
        n = Node(self, name, host, port, coinstate, listen=listen, real_store=real_store)
        self.nodes.append(n)
        return n

    def is_unreachable(self, host):
        """no route: explicitly listed hosts, and multicast / broadcast IPv4 addresses (connect fails with ENETUNREACH)"""
        if host in self.unreachable:
            return True
        try:
            first = int(str(host).split('.')[0])
        except ValueError:
            return False
        return 224 <= first <= 239 or str(host) == '255.255.255.255'

    def connect(self, sock, addr):
        target = self.listeners.get(tuple(addr))
        if target is not None and self.allowed is not None and \
                frozenset((sock.local_addr[0], addr[0])) not in self.allowed:
            target = None          # the topology is fixed: hosts that are not linked cannot reach each other
        if target is None:
            sock.refused = True
            return
        self.ephemeral += 1
        srv = FakeSocket(self, target, (target.host, target.port))
        srv.remote_addr = sock.local_addr
        srv.other = sock
        sock.other = srv
        target.lsock.pending.append(srv)

    def link(self, a, b):
        """a opens an outgoing connection to b (through the real start_outgoing_connection)"""
        from skepticoin.networking.remote_peer import DisconnectedRemotePeer, OUTGOING
        a.activate()
        key = (b.host, b.port, OUTGOING)
        nm = a.lp.network_manager
        d = nm.disconnected_peers.get(key) or DisconnectedRemotePeer(b.host, b.port, OUTGOING, None, 0)
        nm.disconnected_peers[key] = d
        a.lp.start_outgoing_connection(d)
        b.accept_pending()

    def add_server(self, host, port=2412):
        return RawServer(self, host, port)

    def enabled(self):
        out = []
        for n in self.nodes:
            for ev in n.enabled():
                out.append((n, ev))
        return out

    def run_until_quiet(self, max_events=200000, chunk=None, step_every=50, dt=1, scheduler=None, quiet_needed=3):
        """fire enabled events (scheduler-chosen order) with periodic manager steps until nothing is enabled except
        timer steps and `settle` consecutive steps produced no traffic"""
        fired = 0
        quiet_steps = 0
        while fired < max_events:
            for n in self.nodes:
                n.accept_pending()
            evs = self.enabled()
            if not evs:
                if quiet_steps >= quiet_needed:
                    return fired
                quiet_steps += 1
                self.clock.t += dt
                for n in self.nodes:
                    n.step()
                continue
            quiet_steps = 0
            node, ev = (scheduler or self.rng.choice)(evs)
            node.fire(ev, k=chunk(self.rng) if chunk else None)
            fired += 1
            if step_every and fired % step_every == 0:
                self.clock.t += dt
                for n in self.nodes:
                    n.step()
        return fired
