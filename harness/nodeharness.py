"""One real node (LocalPeer + managers + real BlockStore) inside simnet with scripted raw peers: deliveries of blocks
and transactions, observation of chain state / pool / store rows / write buffer / per-peer outbox, and the validators'
verdicts computed OUTSIDE the handlers (the inputs of NodeModel)."""
import struct
from io import BytesIO

import chaingen
import simnet
import spec

MAGIC = b'MAJI'


def frame(data):
    return MAGIC + struct.pack('>I', len(data)) + data


def split_frames(buf):
    out = []
    pos = 0
    while len(buf) - pos >= 8 and buf[pos:pos + 4] == MAGIC:
        (n,) = struct.unpack('>I', buf[pos + 4:pos + 8])
        if len(buf) - pos - 8 < n:
            break
        out.append(bytes(buf[pos + 8:pos + 8 + n]))
        pos += 8 + n
    return out


def classify(payload):
    """(kind, id) of a protocol message frame"""
    from skepticoin.networking import messages as M
    from skepticoin import datatypes as D
    f = BytesIO(payload)
    h = M.MessageHeader.stream_deserialize(f)
    m = M.Message.stream_deserialize(f)
    if type(m) is M.DataMessage:
        if type(m.data) is D.Block:
            return ('block', spec.sha256d(m.data.header.serialize()), h.in_response_to)
        if type(m.data) is D.Transaction:
            return ('tx', spec.sha256d(m.data.serialize()), h.in_response_to)
    return (type(m).__name__, None, h.in_response_to)


class SingleNode:
    def __init__(self, net, coinstate, stored_blocks, npeers=3):
        self.net = net
        self.node = net.add_node('N', coinstate)
        # the store must hold the chain the node starts from (genesis is written by BlockStore itself)
        self.node.activate()
        if stored_blocks:
            self.node.store.write_blocks_to_disk(list(stored_blocks))
        self.peers = []
        self.seen = []
        self.msg_id = 100
        for i in range(npeers):
            p = simnet.RawPeer(net, host='10.1.0.%d' % (i + 1)).connect(self.node)
            self.peers.append(p)
            self.seen.append(0)
        self.node.step()                    # node sends its hello on every connection
        self.pump()
        for i, p in enumerate(self.peers):
            self.send(i, self.hello())
        self.pump()

    def hello(self):
        from skepticoin.networking import messages as M
        from ipaddress import IPv6Address
        return M.HelloMessage([M.SupportedVersion(0)], IPv6Address('::FFFF:10.0.0.1'), 2412, IPv6Address('0::0'), 0,
                              123456, b'skv-test')

    def lp(self):
        return self.node.lp

    def send(self, i, message, irt=0, raw=None):
        from skepticoin.networking import messages as M
        self.msg_id += 1
        data = raw if raw is not None else (M.MessageHeader(self.net.clock(), self.msg_id, irt, 7).serialize() +
                                            message.serialize())
        try:
            self.peers[i].send(frame(data))
        except OSError:
            return False
        return True

    def pump(self, max_events=10000):
        """deliver everything in flight to the node and let it write everything it wants to write"""
        n = 0
        while n < max_events:
            evs = self.node.enabled()
            if not evs:
                break
            self.node.fire(evs[0])
            n += 1
        return n

    def deliver(self, i, message, irt=0, raw=None):
        ok = self.send(i, message, irt=irt, raw=raw)
        self.pump()
        return ok

    def new_messages(self):
        """messages each raw peer received since the last call: list per peer of (kind, id, in_response_to)"""
        out = []
        for i, p in enumerate(self.peers):
            frames = split_frames(p.drain())
            new = frames[self.seen[i]:]
            self.seen[i] = len(frames)
            out.append([classify(f) for f in new])
        return out

    def connected(self, i):
        s = self.peers[i].sock
        return not (s.remote_closed or s.closed)

    def observe(self):
        cm = self.lp().chain_manager
        cs = cm.coinstate
        self.node.activate()
        rows = set(bytes(r[0]) for r in self.node.store.connection.execute('select block_hash from chain'))
        return {
            'blocks': set(bytes(h) for h in cs.block_by_hash.keys()),
            'head': bytes(cs.current_chain_hash),
            'pool': [spec.sha256d(t.serialize()) for t in cm.transaction_pool],
            'rows': rows,
            'buffer': [spec.sha256d(b.header.serialize()) for b in self.node.store.write_buffer],
            'valid_head': None if cm.last_known_valid_coinstate is None else
            bytes(cm.last_known_valid_coinstate.current_chain_hash),
        }

    # ---- verdicts computed outside the handlers, on the prior state
    def block_verdicts(self, block, now=None):
        from skepticoin import consensus as C
        cs = self.lp().chain_manager.coinstate
        now = self.net.clock() if now is None else now
        try:
            C.validate_block_by_itself(block, now)
            itself = True
        except Exception:
            itself = False
        try:
            cs.add_block_no_validation(block)
            apply_ok = True
        except Exception:
            apply_ok = False
        try:
            C.validate_block_in_coinstate(block, cs)
            instate = True
        except Exception:
            instate = False
        return itself, apply_ok, instate

    def tx_itself(self, tx):
        from skepticoin import consensus as C
        try:
            C.validate_non_coinbase_transaction_by_itself(tx)
            return True
        except Exception:
            return False

    def tx_valid_at(self, tx, cs=None):
        from skepticoin import consensus as C
        cs = cs or self.lp().chain_manager.coinstate
        try:
            C.validate_non_coinbase_transaction_in_coinstate(tx, cs.current_chain_hash, cs)
            return True
        except Exception:
            return False


def tx_conflict(a, b):
    ra = set((bytes(i.output_reference.hash), i.output_reference.index) for i in a.inputs)
    rb = set((bytes(i.output_reference.hash), i.output_reference.index) for i in b.inputs)
    return bool(ra & rb)


class IdMap:
    """real 32-byte ids -> small numbers for the abstract models (0 is reserved)"""

    def __init__(self):
        self.m = {}

    def __call__(self, x):
        if x not in self.m:
            self.m[x] = len(self.m) + 1
        return self.m[x]
