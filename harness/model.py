"""Python side of the extracted model: s-expression rendering/parsing, batch calls to the OCaml driver,
recording of oracle transcripts (hash functions, signature verification) while the implementation runs."""
import os
import subprocess
import tempfile

import common

DRIVER = os.path.join(common.OCAML, 'driver')


# ---------------------------------------------------------------- s-expressions
def sx(v):
    if isinstance(v, bool):
        return '1' if v else '0'
    if isinstance(v, int):
        if v < 0:
            raise ValueError('negative number in sx')
        return str(v)
    if isinstance(v, (bytes, bytearray)):
        return 'x' + bytes(v).hex()
    if isinstance(v, (list, tuple)):
        return '(' + ' '.join(sx(x) for x in v) + ')'
    if v is None:
        return '(0)'
    raise TypeError('cannot render %r' % (v,))


def some(v):
    return [1, v]


NONE = [0]


def parse(s):
    """inverse of sx: numbers -> int, x.. -> bytes, lists -> list.  Sentinel bytes (<n>) -> string 'MISSING'"""
    pos = 0
    n = len(s)

    def item():
        nonlocal pos
        while pos < n and s[pos] == ' ':
            pos += 1
        c = s[pos]
        if c == '(':
            pos += 1
            out = []
            while True:
                while pos < n and s[pos] == ' ':
                    pos += 1
                if s[pos] == ')':
                    pos += 1
                    return out
                out.append(item())
        if c == 'x':
            st = pos + 1
            pos = st
            while pos < n and s[pos] not in ' ()':
                pos += 1
            tok = s[st:pos]
            if '<' in tok:
                return 'MISSING:' + tok
            return bytes.fromhex(tok)
        st = pos
        while pos < n and s[pos].isdigit():
            pos += 1
        if st == pos:
            raise ValueError('bad sx at %d: %r' % (pos, s[max(0, pos - 20):pos + 20]))
        return int(s[st:pos])

    if s.startswith('!'):
        return 'DRIVER-ERROR:' + s
    return item()


def run_batch(requests):
    """requests: list of (name, oracle_table(list of (name, in, out)), arg).  Returns parsed results."""
    if not requests:
        return []
    with tempfile.NamedTemporaryFile('w', suffix='.req', delete=False) as f:
        for name, tbl, arg in requests:
            t = '(' + ' '.join('(x%s x%s x%s)' % (k.encode().hex(), i.hex(), o.hex()) for (k, i, o) in tbl) + ')'
            f.write('x%s %s %s\n' % (name.encode().hex(), t, sx(arg)))
        path = f.name
    try:
        with open(path) as fin:
            p = subprocess.run(['bash', '-c', 'ulimit -s unlimited 2>/dev/null; exec "%s"' % DRIVER], stdin=fin,
                               stdout=subprocess.PIPE, text=True, timeout=3000)
        lines = p.stdout.split('\n')
        if lines and lines[-1] == '':
            lines.pop()
        if len(lines) != len(requests):
            raise RuntimeError('driver returned %d lines for %d requests (rc=%s)' % (len(lines), len(requests),
                                                                                  p.returncode))
        return [parse(ln) for ln in lines]
    finally:
        os.unlink(path)


# ---------------------------------------------------------------- oracle transcripts
class Transcript:
    """records input->output of the cryptographic primitives while the implementation runs.
    Patches the names in every skepticoin module that imported them (from .hash import ...)."""

    def __init__(self):
        self.entries = {}
        self.patches = []

    def add_sha(self, b):
        import hashlib
        self.entries[('sha256d', bytes(b))] = hashlib.sha256(hashlib.sha256(b).digest()).digest()

    def add_block_ids(self, block):
        """ids of a block and its transactions (the implementation caches them at decode time, possibly before the
        transcript started)"""
        self.add_sha(block.header.serialize())
        for t in block.transactions:
            self.add_sha(t.serialize())

    def table(self):
        return [(k[0], k[1], v) for k, v in self.entries.items()]

    def _wrap1(self, name, fn):
        def w(b):
            out = fn(b)
            self.entries[(name, bytes(b))] = out
            return out
        w.__wrapped_by_skv__ = fn
        return w

    def __enter__(self):
        import skepticoin.hash as H
        import skepticoin.datatypes as D
        import skepticoin.merkletree as MT
        import skepticoin.pow as P
        import skepticoin.consensus as C
        import skepticoin.signing as S
        for mod, attr, name in ((D, 'sha256d', 'sha256d'), (MT, 'sha256d', 'sha256d'), (P, 'sha256d', 'sha256d'),
                                (H, 'sha256d', 'sha256d'), (C, 'blake2', 'blake2'), (H, 'blake2', 'blake2')):
            if hasattr(mod, attr):
                orig = getattr(mod, attr)
                self.patches.append((mod, attr, orig))
                setattr(mod, attr, self._wrap1(name, orig))
        for mod_ in (C, H):
            if 'scrypt' in mod_.__dict__:
                orig = mod_.scrypt
                self.patches.append((mod_, 'scrypt', orig))

                def sc(password, salt, _o=orig):
                    out = _o(password, salt)
                    self.entries[('scrypt', bytes(password) + bytes(salt))] = out
                    return out
                mod_.scrypt = sc
        origv = S.SECP256k1PublicKey.validate
        self.patches.append((S.SECP256k1PublicKey, 'validate', origv))
        tr = self

        def validate(self_pk, signature, message, _o=origv):
            res = _o(self_pk, signature, message)
            if isinstance(signature, S.SECP256k1Signature):
                tr.entries[('verify', bytes(self_pk.public_key) + bytes(signature.signature) + bytes(message))] = \
                    b'\x01' if res else b'\x00'
            return res
        S.SECP256k1PublicKey.validate = validate
        return self

    def __exit__(self, *a):
        for mod, attr, orig in reversed(self.patches):
            setattr(mod, attr, orig)
        self.patches = []
