"""C05 -- header rules."""
import json

import common
import consensus_check
import spec

TAGS = ('C05',)


def oracle(chain_views, parent_utxo, bv, now, env):
    return spec.c05_conjuncts(chain_views, bv, now, env.period, env.span, env.scrypt)


def node_level(ck, tier):
    """the same rules on the paths that feed full validation: a relayed block is judged against the NODE's clock (not
    against anything the sender writes into the message), and what the node's own miner assembles satisfies them"""
    import chaingen
    import nodeharness
    import simnet
    from skepticoin.networking import messages as M
    rng = ck.rng
    keys = chaingen.Keys()
    with chaingen.Env(period=50) as env:
        tg = chaingen.TreeGen(env, keys, rng)
        n = tg.genesis
        for _ in range(3):
            n = tg.extend(n, txs=[], fees=0, dt=60)
        main = list(tg.nodes)
        with simnet.Net(seed=rng.getrandbits(30), t0=n.view.time + 500) as net:
            sn = nodeharness.SingleNode(net, chaingen.impl_state_from(main), [m.block for m in main[1:]], npeers=2)
            sn.new_messages()
            mid = 1000
            for ahead, forged in ((3600, True), (31, True), (3600, False), (31, False), (30, True), (5, False)):
                head = [x for x in tg.nodes if x.id == bytes(sn.lp().chain_manager.coinstate.current_chain_hash)][0]
                ts = net.clock() + ahead
                nb = tg.extend(head, txs=[], fees=0, dt=ts - head.view.time)
                mid += 1
                raw = M.MessageHeader(ts if forged else net.clock(), mid, 0, 7).serialize() + \
                    M.DataMessage(M.DATA_BLOCK, nb.block).serialize()
                sn.deliver(rng.randrange(2), None, raw=raw)
                got = nb.id in sn.observe()['blocks']
                ck.case(('relayed-future', ahead, forged), kind='relayed/%+ds/%s' % (ahead, 'accepted' if got else 'refused'))
                if got != (ahead <= 30):
                    ck.violation('relayed-block-clock', 'a relayed block stamped %d s ahead of the node\'s clock (message header '
                                 'timestamp %s) is %s' % (ahead, 'forged to match the block' if forged else 'honest',
                                                          'accepted' if got else 'refused'),
                                 {'node_level': True, 'ahead': ahead, 'header_forged': forged, 'block': nb.block.serialize().hex()})
                if not got:
                    tg.nodes.remove(nb)
                else:
                    net.clock.t = ts + 1
    # a history that full validation never saw (loaded from disk, below a checkpoint, skipped during a bulk download) may
    # run backwards in time: a candidate on the retarget boundary whose timestamp is later than its parent's but EARLIER
    # than the interval's first block has a negative elapsed time -- no target is prescribed for it, none may be accepted
    from skepticoin.coinstate import CoinState
    with chaingen.Env(period=4) as env:
        g = chaingen.genesis_node()
        nodes = [g]
        par = g
        cs = CoinState.empty().add_block_no_validation(g.block)
        times = [g.view.time + 1000, g.view.time + 2000, g.view.time + 3000, g.view.time + 90000,
                 g.view.time + 80000, g.view.time + 70000, g.view.time + 60000]
        for i, ts in enumerate(times):
            cb = chaingen.coinbase(par.height + 1, env.subsidy(par.height + 1), keys.pks[0], b'bk%d' % i)
            blk = chaingen.assemble(env, par, [cb], ts, overrides={'target': par.view.target}, mine=False)
            par = chaingen.Node(blk, par, spec.apply_block(par.utxo, spec.BlockView(blk)))
            nodes.append(par)
            cs = cs.add_block_no_validation(blk)
        ts = par.view.time + 1                                # height 8 = boundary; interval started at height 4 (time +90000)
        for tgt_label, tgt in (('2^256-1', b'\xff' * 32), ('the parent target', par.view.target)):
            cb = chaingen.coinbase(par.height + 1, env.subsidy(par.height + 1), keys.pks[0], b'neg')
            try:
                cand = chaingen.assemble(env, par, [cb], ts, overrides={'target': tgt})
            except Exception:
                continue
            v, _ = consensus_check.impl_verdict(cs, cand, ts)
            ck.case(('negative-elapsed', tgt_label), kind='boundary-with-negative-elapsed-time/%s' % ('accept' if v == [1] else 'reject'))
            if v == [1]:
                ck.violation('accepts:stated target is not the one the retargeting rule prescribes',
                             'a block on a retarget boundary whose timestamp lies BEFORE the first block of the interval (elapsed '
                             'time %d s) is accepted with target %s' % (ts - nodes[4].view.time, tgt_label),
                             {'label': 'negative-elapsed', 'prefix': [m.block.serialize().hex() for m in nodes],
                              'block': cand.serialize().hex(), 'now': ts, 'period': 4, 'span': env.span, 'interval': None})
    import check_C12
    for tz_ in ('America/New_York', 'Asia/Tokyo'):
        try:
            check_C12.pool_then_mine_scenario(ck, 50, tier, tz=tz_)      # the miner's clock in time zones on both sides of UTC
        except Exception:
            import traceback
            tb = traceback.format_exc()
            if 'could not mine a block' not in tb:
                ck.disagree('miner time-zone scenario crashed: %s' % tb[-400:], {})
    for trial in range(2 if tier == 'quick' else 6):
        try:
            check_C12.scenario(ck, 100 + trial, tier, [], [], clock_offsets=(0, 1, 30, 4000))
        except Exception:
            import traceback
            tb = traceback.format_exc()
            if 'could not mine a block' not in tb:
                ck.disagree('miner scenario crashed: %s' % tb[-400:], {})


def function_sweep(ck):
    """calculate_new_target and select_block_height over the WHOLE domain the statement names (every 256-bit previous
    target, every elapsed time; every sample hash and height), on the shipped constants: implementation against the
    statement's formula and against the extracted model.  This is the tie of the two functions when the translator
    has to fall back to its reference text, and the search behind a broken bridge lemma."""
    import model
    from skepticoin import consensus as C
    from skepticoin import pow as P
    import random as _random
    rng = _random.Random(ck.seed * 7919 + 5)      # own stream: the scenarios that follow keep theirs
    span = common.param('DESIRED_TARGET_READJUSTMENT_TIMESPAN')
    period = common.param('BLOCKS_BETWEEN_TARGET_READJUSTMENT')
    top = 2 ** 256 - 1
    targets = {0, 1, top, top - 1, 2 ** 255, 2 ** 255 - 1, 2 ** 255 + 1}
    for k in range(1, 257):
        lo, hi = 2 ** (k - 1), 2 ** k - 1
        targets.update((lo, hi, rng.randint(lo, hi)))
    targets.update(rng.randint(2 ** 255, top) for _ in range(40))
    targets = sorted(targets)
    times = [0, 1, 2, 59, 600, span // 4, span // 2, span - 1, span, span + 1, 2 * span - 1, 2 * span, 4 * span, 4 * span + 1,
             2 ** 31, 2 ** 32 - 1, 2 ** 32, 2 ** 63, 2 ** 64 - 1]
    psx = [1, [], period, span, 1, 1, 1, 1, 1, 1, 1, 1]
    pairs = []
    for t in targets:
        for dt in rng.sample(times, 3) + [span, rng.randrange(1, 8 * span)]:
            pairs.append((t, dt))
    reqs = [('new_target', [], [psx, t.to_bytes(32, 'big'), dt]) for t, dt in pairs]
    try:
        mres = model.run_batch(reqs) if (ck.build_result is not None and ck.build_result.ok) else [None] * len(pairs)
    except Exception as e:  # noqa
        ck.disagree('model run of calculate_new_target failed: %r' % (e,), {})
        mres = [None] * len(pairs)
    for (t, dt), mo in zip(pairs, mres):
        want = min(t * dt // span, top).to_bytes(32, 'big')
        try:
            got = C.calculate_new_target(t.to_bytes(32, 'big'), dt)
        except Exception as e:  # noqa
            got = 'raises %s' % type(e).__name__
        ck.case(('new_target', t, dt), kind='retarget/%s' % ('capped' if t * dt // span > top else
                                                             'top-bit' if t >= 2 ** 255 else 'plain'),
                sample={'previous_target': hex(t), 'elapsed': dt, 'new': got.hex() if isinstance(got, bytes) else got}
                if t >= 2 ** 255 and dt == span else None)
        rp = {'function': 'calculate_new_target', 'previous_target': t.to_bytes(32, 'big').hex(), 'elapsed': dt,
              'expected': want.hex()}
        if got != want:
            ck.violation('retarget-function', 'calculate_new_target(%s, %d) %s; the rule (previous target times elapsed '
                         'seconds over %d, integer-exact, capped at 2^256-1) prescribes %s'
                         % (hex(t), dt, 'returns ' + got.hex() if isinstance(got, bytes) else got, span, want.hex()), rp)
            break
        if mo is not None and mo != want:
            ck.disagree('model calculate_new_target differs from the formula', rp)
            break
    # id below target: the comparison itself, on pairs no search can reach (id equal to the target, one above, one below,
    # differing in the first / last byte only)
    for _ in range(200):
        t = rng.choice(targets[3:])
        for h, below in ((t - 1, True), (t, False), (t + 1, False), (0, True), (top, False),
                         (t ^ 1, (t ^ 1) < t), (t ^ (1 << 255), (t ^ (1 << 255)) < t)):
            if not 0 <= h <= top:
                continue
            try:
                C.validate_proof_of_work(h.to_bytes(32, 'big'), t.to_bytes(32, 'big'))
                okp = True
            except C.ValidationError:
                okp = False
            except Exception as e:  # noqa
                okp = 'raises %s' % type(e).__name__
            ck.case(('pow-compare', h, t), kind='id-vs-target/%s' % ('equal' if h == t else 'below' if below else 'above'))
            if okp is not below:
                ck.violation('pow-comparison', 'validate_proof_of_work passes an id that is not below the target' if okp is True
                             else 'validate_proof_of_work refuses an id below the target (%s)' % okp,
                             {'function': 'validate_proof_of_work', 'id': h.to_bytes(32, 'big').hex(),
                              'target': t.to_bytes(32, 'big').hex(), 'below': below})
                break
        else:
            continue
        break
    # chain sampling: which ancestor a hash selects
    cases = []
    for _ in range(300):
        h = rng.choice([rng.randbytes(32), b'\xff' * 32, b'\x00' * 32, b'\x80' + bytes(31), rng.randbytes(8) + bytes(24)])
        height = rng.choice([1, 2, 3, 255, 256, 10080, 2 ** 32, 2 ** 63, 2 ** 64 - 1, rng.randrange(1, 2 ** 40)])
        cases.append((h, height))
    try:
        mres = model.run_batch([('select_height', [], [h, n]) for h, n in cases]) if (ck.build_result is not None and ck.build_result.ok) \
            else [None] * len(cases)
    except Exception as e:  # noqa
        ck.disagree('model run of select_block_height failed: %r' % (e,), {})
        mres = [None] * len(cases)
    for (h, n), mo in zip(cases, mres):
        want = int.from_bytes(h[:8], 'big') % n
        try:
            got = P.select_block_height(h, n)
        except Exception as e:  # noqa
            got = 'raises %s' % type(e).__name__
        ck.case(('select_height', h, n), kind='sample-height')
        rp = {'function': 'select_block_height', 'hash': h.hex(), 'height': n, 'expected': want}
        if got != want:
            ck.violation('sample-height-function', 'select_block_height(%s, %d) gives %s; the first 8 bytes of the hash modulo '
                         'the height give %d' % (h.hex(), n, got, want), rp)
            break
        if mo is not None and mo != want:
            ck.disagree('model select_block_height differs from the formula', rp)
            break


def run(tier, seed):
    ck = common.Check('C05', tier, seed)
    ck.rule = ('random block trees (7-20 blocks, forks, retarget period 3-6, 0-3 signed transactions per block), every '
               'generated block fully validated in a random parent-first arrival order; on up to 4 parents per tree '
               '(head, boundary, fork tip, random) every header-rule mutant (id above target, target +-1 / not adjusted / from the '
               'other branch / interval off by one, height +-1, reward height, time equal / before parent / 31 s ahead, '
               'evidence fields altered / sampled from a sibling branch / for another height, a checkpoint horizon inside '
               'the chain and blocks merely declaring a height below it); node level: relayed blocks stamped 5 s .. 1 h ahead '
               'with honest and forged message-header timestamps, and the real miner handlers (every candidate handed out); '
               'verdict of CoinState.add_block compared with the extracted model and with the property '
               'oracle; receiver state digested before and after; non-trivial = distinct (mutant kind, block id)')
    ck.trusted += ['extraction + OCaml driver', 'chain generator and independent block assembler (harness/spec.py)',
                   'test parameters patched from outside: checkpoint horizon -1, retarget period 3-6, sha256 stand-in '
                   'for scrypt', 'ecdsa verification as an oracle (real library outcome recorded per call)']
    ck.assumptions += ['full-validation path only (height above the checkpoint horizon)',
                       '"prior state left exactly as it was" is a tie obligation (digest before/after), not a theorem: '
                       'the functional model cannot mutate its argument']
    ck.build(extract=True)
    consensus_check.run_consensus(ck, TAGS, oracle, tier)
    try:
        function_sweep(ck)
        consensus_check.node_relay_probe(ck, tier, TAGS)
        node_level(ck, tier)
    except Exception:
        import traceback
        ck.disagree('node-level scenario crashed: %s' % traceback.format_exc()[-500:], {})
    return ck.finish()


def replay(path):
    d = json.load(open(path))
    rp = d.get('replay', {})
    if rp.get('function') == 'calculate_new_target':
        from skepticoin import consensus as C
        try:
            got = C.calculate_new_target(bytes.fromhex(rp['previous_target']), rp['elapsed']).hex()
        except Exception as e:  # noqa
            got = 'raises %r' % (e,)
        print('calculate_new_target ->', got, '; the rule prescribes', rp['expected'])
        return 1 if got != rp['expected'] else 0
    if rp.get('function') == 'validate_proof_of_work':
        from skepticoin import consensus as C
        try:
            C.validate_proof_of_work(bytes.fromhex(rp['id']), bytes.fromhex(rp['target']))
            got = True
        except C.ValidationError:
            got = False
        print('validate_proof_of_work(id, target) passes:', got, '; id below target:', rp['below'])
        return 1 if got != rp['below'] else 0
    if rp.get('function') == 'select_block_height':
        from skepticoin import pow as P
        try:
            got = P.select_block_height(bytes.fromhex(rp['hash']), rp['height'])
        except Exception as e:  # noqa
            got = 'raises %r' % (e,)
        print('select_block_height ->', got, '; expected', rp['expected'])
        return 1 if got != rp['expected'] else 0
    if 'block' in rp:
        v = consensus_check.replay_case(rp)
        print('mutant', rp.get('label'), '-> implementation verdict', v, '(1 = accepted)')
        return 1 if v[0] == 1 else 0
    print(json.dumps(d, indent=1)[:3000])
    return 1
