"""C05 -- header rules."""
import json

import common
import consensus_check
import spec

TAGS = ('C05',)


def oracle(chain_views, parent_utxo, bv, now, env):
    return spec.c05_conjuncts(chain_views, bv, now, env.period, env.span, env.scrypt)


def node_level(ck, tier):
    """the same rules on the paths that feed full validation: a relayed block is judged against the NODE's clock (not
    against anything the sender writes into the message), and what the node's own miner assembles satisfies them"""
    import chaingen
    import nodeharness
    import simnet
    from skepticoin.networking import messages as M
    rng = ck.rng
    keys = chaingen.Keys()
    with chaingen.Env(period=50) as env:
        tg = chaingen.TreeGen(env, keys, rng)
        n = tg.genesis
        for _ in range(3):
            n = tg.extend(n, txs=[], fees=0, dt=60)
        main = list(tg.nodes)
        with simnet.Net(seed=rng.getrandbits(30), t0=n.view.time + 500) as net:
            sn = nodeharness.SingleNode(net, chaingen.impl_state_from(main), [m.block for m in main[1:]], npeers=2)
            sn.new_messages()
            mid = 1000
            for ahead, forged in ((3600, True), (31, True), (3600, False), (31, False), (30, True), (5, False)):
                head = [x for x in tg.nodes if x.id == bytes(sn.lp().chain_manager.coinstate.current_chain_hash)][0]
                ts = net.clock() + ahead
                nb = tg.extend(head, txs=[], fees=0, dt=ts - head.view.time)
                mid += 1
                raw = M.MessageHeader(ts if forged else net.clock(), mid, 0, 7).serialize() + \
                    M.DataMessage(M.DATA_BLOCK, nb.block).serialize()
                sn.deliver(rng.randrange(2), None, raw=raw)
                got = nb.id in sn.observe()['blocks']
                ck.case(('relayed-future', ahead, forged), kind='relayed/%+ds/%s' % (ahead, 'accepted' if got else 'refused'))
                if got != (ahead <= 30):
                    ck.violation('relayed-block-clock', 'a relayed block stamped %d s ahead of the node\'s clock (message header '
                                 'timestamp %s) is %s' % (ahead, 'forged to match the block' if forged else 'honest',
                                                          'accepted' if got else 'refused'),
                                 {'node_level': True, 'ahead': ahead, 'header_forged': forged, 'block': nb.block.serialize().hex()})
                if not got:
                    tg.nodes.remove(nb)
                else:
                    net.clock.t = ts + 1
    # a history that full validation never saw (loaded from disk, below a checkpoint, skipped during a bulk download) may
    # run backwards in time: a candidate on the retarget boundary whose timestamp is later than its parent's but EARLIER
    # than the interval's first block has a negative elapsed time -- no target is prescribed for it, none may be accepted
    from skepticoin.coinstate import CoinState
    with chaingen.Env(period=4) as env:
        g = chaingen.genesis_node()
        nodes = [g]
        par = g
        cs = CoinState.empty().add_block_no_validation(g.block)
        times = [g.view.time + 1000, g.view.time + 2000, g.view.time + 3000, g.view.time + 90000,
                 g.view.time + 80000, g.view.time + 70000, g.view.time + 60000]
        for i, ts in enumerate(times):
            cb = chaingen.coinbase(par.height + 1, env.subsidy(par.height + 1), keys.pks[0], b'bk%d' % i)
            blk = chaingen.assemble(env, par, [cb], ts, overrides={'target': par.view.target}, mine=False)
            par = chaingen.Node(blk, par, spec.apply_block(par.utxo, spec.BlockView(blk)))
            nodes.append(par)
            cs = cs.add_block_no_validation(blk)
        ts = par.view.time + 1                                # height 8 = boundary; interval started at height 4 (time +90000)
        for tgt_label, tgt in (('2^256-1', b'\xff' * 32), ('the parent target', par.view.target)):
            cb = chaingen.coinbase(par.height + 1, env.subsidy(par.height + 1), keys.pks[0], b'neg')
            try:
                cand = chaingen.assemble(env, par, [cb], ts, overrides={'target': tgt})
            except Exception:
                continue
            v, _ = consensus_check.impl_verdict(cs, cand, ts)
            ck.case(('negative-elapsed', tgt_label), kind='boundary-with-negative-elapsed-time/%s' % ('accept' if v == [1] else 'reject'))
            if v == [1]:
                ck.violation('accepts:stated target is not the one the retargeting rule prescribes',
                             'a block on a retarget boundary whose timestamp lies BEFORE the first block of the interval (elapsed '
                             'time %d s) is accepted with target %s' % (ts - nodes[4].view.time, tgt_label),
                             {'label': 'negative-elapsed', 'prefix': [m.block.serialize().hex() for m in nodes],
                              'block': cand.serialize().hex(), 'now': ts, 'period': 4, 'span': env.span, 'interval': None})
    import check_C12
    for tz_ in ('America/New_York', 'Asia/Tokyo'):
        try:
            check_C12.pool_then_mine_scenario(ck, 50, tier, tz=tz_)      # the miner's clock in time zones on both sides of UTC
        except Exception:
            import traceback
            tb = traceback.format_exc()
            if 'could not mine a block' not in tb:
                ck.disagree('miner time-zone scenario crashed: %s' % tb[-400:], {})
    for trial in range(2 if tier == 'quick' else 6):
        try:
            check_C12.scenario(ck, 100 + trial, tier, [], [], clock_offsets=(0, 1, 30, 4000))
        except Exception:
            import traceback
            tb = traceback.format_exc()
            if 'could not mine a block' not in tb:
                ck.disagree('miner scenario crashed: %s' % tb[-400:], {})


def run(tier, seed):
    ck = common.Check('C05', tier, seed)
    ck.rule = ('random block trees (7-20 blocks, forks, retarget period 3-6, 0-3 signed transactions per block), every '
               'generated block fully validated in a random parent-first arrival order; on up to 4 parents per tree '
               '(head, boundary, fork tip, random) every header-rule mutant (id above target, target +-1 / not adjusted / from the '
               'other branch / interval off by one, height +-1, reward height, time equal / before parent / 31 s ahead, '
               'evidence fields altered / sampled from a sibling branch / for another height, a checkpoint horizon inside '
               'the chain and blocks merely declaring a height below it); node level: relayed blocks stamped 5 s .. 1 h ahead '
               'with honest and forged message-header timestamps, and the real miner handlers (every candidate handed out); '
               'verdict of CoinState.add_block compared with the extracted model and with the property '
               'oracle; receiver state digested before and after; non-trivial = distinct (mutant kind, block id)')
    ck.trusted += ['extraction + OCaml driver', 'chain generator and independent block assembler (harness/spec.py)',
                   'test parameters patched from outside: checkpoint horizon -1, retarget period 3-6, sha256 stand-in '
                   'for scrypt', 'ecdsa verification as an oracle (real library outcome recorded per call)']
    ck.assumptions += ['full-validation path only (height above the checkpoint horizon)',
                       '"prior state left exactly as it was" is a tie obligation (digest before/after), not a theorem: '
                       'the functional model cannot mutate its argument']
    ck.build(extract=True)
    consensus_check.run_consensus(ck, TAGS, oracle, tier)
    try:
        consensus_check.node_relay_probe(ck, tier, TAGS)
        node_level(ck, tier)
    except Exception:
        import traceback
        ck.disagree('node-level scenario crashed: %s' % traceback.format_exc()[-500:], {})
    return ck.finish()


def replay(path):
    d = json.load(open(path))
    rp = d.get('replay', {})
    if 'block' in rp:
        v = consensus_check.replay_case(rp)
        print('mutant', rp.get('label'), '-> implementation verdict', v, '(1 = accepted)')
        return 1 if v[0] == 1 else 0
    print(json.dumps(d, indent=1)[:3000])
    return 1
