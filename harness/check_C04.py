"""C04 -- fork choice: head = first-seen block of greatest height; tips = childless blocks; by-height index =
ancestors.  Theorems: props/Properties_C04.v (all trees, all parent-before-child arrival orders).  Tie: real
CoinState.add_block_no_validation / forks() against the extracted model, exhaustively for all parent-choice sequences of
small length, randomly beyond.  Search oracle: the three statements recomputed from the arrival list."""
import itertools
import json

import chaingen
import common
import model
import spec


def build_sequence(env, parents, salt=0):
    """parents[i] = index (into the arrival list) of the parent of arrival i+1; arrival 0 is genesis"""
    g = chaingen.genesis_node()
    nodes = [g]
    for i, p in enumerate(parents):
        par = nodes[p]
        cb = chaingen.coinbase(par.height + 1, 10 ** 9, b'\x11' * 64, data=bytes([i & 255, (i >> 8) & 255, salt & 255, (salt >> 8) & 255]))
        blk = chaingen.assemble(env, par, [cb], par.view.time + 60 + i, mine=False)
        nodes.append(chaingen.Node(blk, par, spec.apply_block(par.utxo, spec.BlockView(blk))))
    return nodes


def expected(nodes):
    """head / tips / index from the arrival list, straight from the property statement"""
    best = None
    for n in nodes:
        if best is None or n.height > best.height:
            best = n
    tips = sorted(n.id for n in nodes if not any(m.parent is n for m in nodes))
    index = {}
    for n in nodes:
        index[n.id] = sorted([a.height, a.id] for a in n.chain())
    return best.id, tips, index


def impl_observe(cs):
    head = None if cs.current_chain_hash is None else bytes(cs.current_chain_hash)
    tips = sorted(bytes(h) for h in cs.heads.keys())
    index = {bytes(h): sorted([k, spec.sha256d(v.header.serialize())] for k, v in m.items())
             for h, m in cs.block_by_height_by_hash.items()}
    return head, tips, index


def lca_expected(nodes, head_id):
    byid = {n.id: n for n in nodes}
    main = set(a.id for a in byid[head_id].chain())
    out = []
    for n in nodes:
        if any(m.parent is n for m in nodes):
            continue
        a = n
        while a.id not in main:
            a = a.parent
        out.append([n.id, a.id])
    return sorted(out)


def node_level(ck, tier):
    import nodeharness
    import simnet
    from skepticoin.networking import messages as M
    rng = ck.rng
    keys = chaingen.Keys()
    for trial in range(3 if tier == 'quick' else 12):
        with chaingen.Env(period=50) as env:
            tg = chaingen.TreeGen(env, keys, rng)
            g = tg.genesis
            a = [tg.extend(g, txs=[], fees=0, dt=60)]
            for _ in range(rng.choice([1, 2])):
                a.append(tg.extend(a[-1], txs=[], fees=0, dt=60))
            b = [tg.extend(g, txs=[], fees=0, dt=61)]                  # sibling of the first block: head does not move
            while len(b) < len(a):
                b.append(tg.extend(b[-1], txs=[], fees=0, dt=61))       # ties
            b.append(tg.extend(b[-1], txs=[], fees=0, dt=61))           # overtakes
            extra = tg.extend(a[0], txs=[], fees=0, dt=70)              # another childless side block
            deliveries = a + b[:-1] + [extra, b[-1]]
            if trial % 2 == 1:
                deliveries = [a[0], b[0]] + a[1:] + b[1:-1] + [extra, b[-1]]
            with simnet.Net(seed=rng.getrandbits(30), t0=max(n.view.time for n in tg.nodes) + 100) as net:
                sn = nodeharness.SingleNode(net, chaingen.impl_state_from([g]), [], npeers=2)
                sn.new_messages()
                arrived = [g]
                fail_at = len(deliveries) - 1 if trial % 3 == 2 else None      # a storage failure while the LAST block (the one
                #                                                                that overtakes) is handled: fork choice is not storage
                import mutators as _mut
                for di_, nd in enumerate(deliveries):
                    if di_ == len(a) + 1 and trial % 3 != 2:
                        # between the deliveries: a relayed block that passes the stand-alone checks but breaks a rule in
                        # state (refused): the competing tip that arrived before must survive it
                        cur = [x for x in arrived if x.id == bytes(sn.lp().chain_manager.coinstate.current_chain_hash)][0]
                        bad_ = [c for c in _mut.mutants(tg, cur, rng, tags=('C02',)) if c['label'] == 'reward-plus-one']
                        if bad_:
                            net.clock.t = max(net.clock.t, bad_[0]['now'])
                            sn.deliver(rng.randrange(2), M.DataMessage(M.DATA_BLOCK, bad_[0]['block']))
                            ck.count('node-level/rule-breaking-block-between-deliveries')
                    if di_ == fail_at:
                        import sqlite3
                        st_ = sn.node.store
                        orig_flush = st_.flush_blocks_to_disk
                        state_ = {'n': 0}

                        def failing_flush(_o=orig_flush):
                            state_['n'] += 1
                            if state_['n'] == 1:
                                raise sqlite3.OperationalError('database is locked')
                            return _o()
                        st_.flush_blocks_to_disk = failing_flush
                    sn.deliver(rng.randrange(2), M.DataMessage(M.DATA_BLOCK, nd.block))
                    if di_ == fail_at:
                        st_.flush_blocks_to_disk = orig_flush
                        ck.count('node-level/storage-failure-injected')
                    arrived.append(nd)
                    cs = sn.lp().chain_manager.coinstate
                    head, tips, index = impl_observe(cs)
                    ehead, etips, eindex = expected(arrived)
                    ck.case(('node', trial, len(arrived)), kind='node-level/%d-blocks' % len(arrived))
                    rp = {'node_level': True, 'trial': trial, 'delivered': [x.block.serialize().hex() for x in arrived[1:]]}
                    if set(bytes(h) for h in cs.block_by_hash.keys()) != set(x.id for x in arrived):
                        ck.violation('node-drops-valid-block', 'after %d valid blocks were delivered parent-first the served '
                                     'chain state holds %d blocks' % (len(arrived) - 1, len(cs.block_by_hash) - 1), rp)
                        break
                    if head != ehead:
                        ck.violation('head-not-first-seen-max', 'node level: the served head is not the first-seen block of '
                                     'greatest height after %d deliveries' % (len(arrived) - 1), rp)
                        break
                    if tips != etips:
                        ck.violation('tips-not-childless-set', 'node level: reported tips differ from the childless stored blocks', rp)
                        break


def miner_level(ck, tier):
    """arrivals at a node come from two threads: relayed blocks (network thread) and found blocks (miner thread).  A found block
    whose candidate was handed out before the network thread adopted peer blocks arrives AFTER them"""
    import check_C12
    for trial in (1, 2):                     # 1 resp. 2 peer blocks adopted between the work request and the result
        facts = check_C12.stale_result_scenario(ck, trial, tier)
        if not facts:
            continue
        ehead, etips, _ = expected(facts['arrived'])
        ck.case(('miner-level', trial), kind='node-level/found-block-after-%d-peer-blocks' % facts['k_between'])
        missing = [x for x in facts['arrived'] if x.id not in facts['served_blocks']]
        if facts['served_head'] != ehead or missing or facts['served_tips'] != etips:
            ck.violation('found-block-displaces-adopted-peer-blocks',
                         'arrivals at the node: %d peer block(s) adopted by the network thread, then the miner thread\'s found '
                         'block built on the earlier head: the served head is %s (first-seen block of greatest height: the peer '
                         'block), %d arrived block(s) are missing from the served chain state'
                         % (facts['k_between'], 'the found block' if facts['served_head'] == facts['found'] else 'another block',
                            len(missing)), facts['replay'])


def side_tip_then_found(ck, tier):
    """the miner has fetched work; a relayed block becomes a second tip WITHOUT moving the head; the miner keeps asking for
    work and finds a block on the head: every arrived block is served, the tips are the childless ones"""
    import check_C12
    import nodeharness
    import simnet
    from skepticoin.networking import messages as M
    rng = ck.rng
    keys = chaingen.Keys()
    with chaingen.Env(period=50) as env:
        tg = chaingen.TreeGen(env, keys, rng)
        n = tg.genesis
        for _ in range(3):
            n = tg.extend(n, txs=[], fees=0, dt=100)
        main = list(tg.nodes)
        with simnet.Net(seed=rng.getrandbits(30), t0=n.view.time + 50) as net:
            sn = nodeharness.SingleNode(net, chaingen.impl_state_from(main), [m.block for m in main[1:]], npeers=2)
            sn.new_messages()
            side = tg.extend(main[-2], txs=[], fees=0, dt=101)           # sibling of the head

            def relay_side():
                net.clock.t = max(net.clock.t, side.view.time + 1)
                sn.deliver(1, M.DataMessage(M.DATA_BLOCK, side.block))
            found = check_C12.mine_one(sn, net, keys, tg, n, after_watcher=relay_side)
            if found is None:
                return
            cs = sn.lp().chain_manager.coinstate
            arrived = main + [side, found]
            head, tips, _idx = impl_observe(cs)
            ehead, etips, _ = expected(arrived)
            ck.case(('side-tip-then-found',), kind='node-level/side-tip-then-found-block')
            missing = [x for x in arrived if x.id not in set(bytes(h) for h in cs.block_by_hash.keys())]
            if missing or head != ehead or tips != etips:
                ck.violation('node-drops-valid-block' if missing else 'tips-not-childless-set',
                             'arrivals: work request | relayed sibling of the head (second tip, head unchanged) | found block on the '
                             'head: %d arrived block(s) are missing from the served chain state, served head %s, tips %s'
                             % (len(missing), 'right' if head == ehead else 'wrong', 'right' if tips == etips else 'wrong'),
                             {'node_level': True, 'history': 'work request | side tip relayed | found block'})


def run(tier, seed):
    ck = common.Check('C04', tier, seed)
    nmax = 6 if tier == 'quick' else 7
    if common.REDUCED:
        nmax = 5
    ck.rule = ('ALL sequences in which arrival i+1 picks any of the i+1 earlier blocks as parent, for 1..%d arrivals after '
               'genesis (exhaustive: 1!+2!+...+%d! sequences), plus seeded random sequences of 12-40 arrivals; after each '
               'complete sequence the head, the tip set, the by-height index at every block and forks() of the real '
               'CoinState are compared with the statement recomputed from the arrival list and with the extracted model; '
               'non-trivial = distinct sequence') % (nmax, nmax)
    ck.trusted += ['extraction + OCaml driver', 'blocks assembled by harness/spec.py without proof of work '
                   '(add_block_no_validation does not look at it)']
    ck.assumptions += ['each arrival names an earlier block as parent, has height parent+1 and a fresh id (what the three '
                       'call sites guarantee); total work is height in this version']
    r = ck.build(extract=True)
    from skepticoin.coinstate import CoinState
    reqs = []
    meta = []
    with chaingen.Env(period=1000) as env:
        seqs = []
        for n in range(1, nmax + 1):
            for parents in itertools.product(*[range(i + 1) for i in range(n)]):
                seqs.append(list(parents))
        nexh = len(seqs)
        for _ in range(30 if tier == 'quick' else 300):
            n = ck.rng.randrange(12, 40)
            mode = ck.rng.random()
            ps = []
            for i in range(n):
                if mode < 0.5:
                    ps.append(ck.rng.randrange(max(0, i - 3), i + 1))       # bushy near the tip: many ties
                else:
                    ps.append(ck.rng.randrange(0, i + 1))
            seqs.append(ps)
        # long histories: a fork near the bottom, then hundreds / thousands of blocks on the active chain (a childless
        # block stays a tip however deep it lies), and a deep side branch that finally overtakes
        for depth in ((800,) if tier == 'quick' else (800, 1500, 3000)):
            # arrivals 1 and 2 are siblings on genesis, arrival 3 extends arrival 2, then a line on top of it
            ps = [0, 0, 2] + [i for i in range(3, 3 + depth)]
            seqs.append(ps)
            seqs.append(ps + [1] + [len(ps) + 1 + j for j in range(depth + 2)])     # branch from arrival 1 grows past it
        ck.extra['exhaustive'] = True
        ck.extra['exhaustive_sequences'] = nexh
        for k, parents in enumerate(seqs):
            nodes = build_sequence(env, parents, salt=k)
            try:
                cs = CoinState.empty()
                for nd in nodes:
                    cs = cs.add_block_no_validation(nd.block)
                head, tips, index = impl_observe(cs)
                forks = sorted([spec.sha256d(t.header.serialize()), spec.sha256d(a.header.serialize())]
                               for t, a in cs.forks())
            except Exception as e:
                ck.violation('arrival-raises', 'add_block_no_validation / forks raised %s on an admissible sequence'
                             % type(e).__name__, {'parents': parents})
                continue
            ehead, etips, eindex = expected(nodes)
            ck.case(tuple(parents), kind='len%d' % min(len(parents), 8),
                    sample={'parents': parents, 'head_arrival': [n.id for n in nodes].index(head) if head in [n.id for n in nodes] else None}
                    if len(parents) == 5 and len(ck.samples) < 3 else None)
            rp = {'parents': parents}
            if head != ehead:
                ck.violation('head-not-first-seen-max', 'head is arrival #%s, the first-seen block of greatest height is '
                             'arrival #%d' % ([n.id for n in nodes].index(head) if head in [n.id for n in nodes] else '?',
                                              [n.id for n in nodes].index(ehead)), rp)
            if tips != etips:
                ck.violation('tips-not-childless-set', 'reported tips differ from the set of stored blocks without '
                             'stored children', rp)
            if index != eindex:
                ck.violation('index-not-ancestors', 'by-height index differs from the ancestors of a block', rp)
            if forks != lca_expected(nodes, ehead) and head == ehead:
                ck.violation('forks-not-lca', 'forks() does not report the last common ancestor with the active chain', rp)
            tbl = []
            for nd in nodes:
                tbl.append(('sha256d', nd.view.header_bytes, nd.id))
                for t in nd.view.txs:
                    tbl.append(('sha256d', t.bytes, t.id))
            if len(parents) <= 100:
                reqs.append(('chain', tbl, [env.params_sx(), [[0, nd.block.serialize()] for nd in nodes] + [[3]], 1]))
                meta.append((parents, chaingen.digest_state(cs), forks))
            else:
                ck.count('long-sequence(oracle only)')
    # ---- node level: the same statements for the chain state a NODE serves after the blocks were delivered by peers
    #      (siblings that do not move the head, side branches that tie and then overtake)
    try:
        node_level(ck, tier)
    except Exception:
        import traceback
        ck.disagree('node-level scenario crashed: %s' % traceback.format_exc()[-500:], {})
    try:
        side_tip_then_found(ck, tier)
    except Exception:
        import traceback
        tb = traceback.format_exc()
        if 'could not mine a block' not in tb:
            ck.disagree('side-tip scenario crashed: %s' % tb[-500:], {})
    try:
        miner_level(ck, tier)
    except Exception:
        import traceback
        tb = traceback.format_exc()
        if 'could not mine a block' not in tb:
            ck.disagree('miner-level scenario crashed: %s' % tb[-500:], {})
    if r.ok:
        outs = model.run_batch(reqs)
        for (parents, dg, forks), o in zip(meta, outs):
            try:
                md = chaingen.digest_model_state(o[1])
                mf = sorted([e[0], e[1][1]] for e in o[0][-1])
            except Exception:
                md, mf = 'unparsable', None
            if md != dg or mf != forks:
                ck.disagree('CoinState.add_block_no_validation / forks vs model on arrival sequence %s' % parents,
                            {'parents': parents})
        ck.extra['traces_validated_against_impl'] = len(reqs)
    return ck.finish()


def replay(path):
    d = json.load(open(path))
    rp = d.get('replay', {})
    if 'parents' in rp:
        from skepticoin.coinstate import CoinState
        with chaingen.Env(period=1000) as env:
            nodes = build_sequence(env, rp['parents'])
            cs = CoinState.empty()
            for nd in nodes:
                cs = cs.add_block_no_validation(nd.block)
            head, tips, index = impl_observe(cs)
            ehead, etips, eindex = expected(nodes)
            ids = [n.id for n in nodes]
            print('parents', rp['parents'])
            print('head arrival #', ids.index(head) if head in ids else None, 'expected #', ids.index(ehead))
            print('tips ok', tips == etips, 'index ok', index == eindex)
            return 0 if (head, tips, index) == (ehead, etips, eindex) else 1
    print(json.dumps(d, indent=1)[:2000])
    return 1
