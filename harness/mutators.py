"""Single-defect mutators: each builds, on a given parent of a generated tree, a candidate block that is fully valid
except for ONE rule (and a few controls that are fully valid).  Blocks are re-assembled (merkle root, evidence, proof of
work) after the defect is introduced, so that only the intended rule can reject them.
Each case: dict(label, tags, block, now, expect) with expect in {'accept', 'reject'}."""
import chaingen
import spec
from chaingen import assemble, coinbase, mk_tx, signed_tx

MAXS = spec.MAX_SASHIMI


def _created_on_chain(node):
    created = {}
    for n in node.chain():
        for t in n.view.txs:
            for j, o in enumerate(t.outputs):
                created[(t.id, j)] = o
    return created


def mutants(tg, parent, rng, tags=('C01', 'C02', 'C05', 'struct'), horizon_env=None, with_warm=False):
    env, keys = tg.env, tg.keys
    out = []
    height = parent.height + 1
    ts = parent.view.time + 120
    sub = env.subsidy(height)
    miner = keys.pks[0]
    avail = sorted(tg.spendable(parent))
    created = _created_on_chain(parent)
    spent = sorted((r, vo) for r, vo in created.items() if r not in parent.utxo and vo[1] in keys.by_pk)
    other = []
    for n in tg.nodes:
        for r, vo in n.utxo.items():
            if r not in created and vo[1] in keys.by_pk:
                other.append((r, vo))
    other = sorted(set(other))

    def add(label, tag, txs, fees=0, expect='reject', reward=None, now=None, ts_=None, ov=None, cbdata=b'm', mine=True,
            cb=None, first=None):
        if tag not in tags:
            return
        t = ts if ts_ is None else ts_
        cbtx = cb if cb is not None else coinbase((ov or {}).get('cb_height', height),
                                                  sub + fees if reward is None else reward, miner, cbdata)
        alltx = ([cbtx] if first is None else first) + list(txs)
        try:
            blk = assemble(env, parent, alltx, t, overrides=ov, mine=mine)
        except Exception as e:  # could not build (e.g. unencodable value)
            return
        out.append({'label': label, 'tag': tag, 'block': blk, 'now': t if now is None else now, 'expect': expect})

    def spend(refs_vo, outs=None, fee=0, **kw):
        refs = [r for r, _ in refs_vo]
        tot = sum(vo[0] for _, vo in refs_vo)
        if outs is None:
            outs = [(tot - fee, keys.pks[1])]
        u = dict(parent.utxo)
        u.update(kw.pop('extra_utxo', {}))
        return signed_tx(keys, u, refs, outs, **kw)

    # ---- controls (fully valid)
    add('control-empty', 'C01', [], expect='accept')
    add('control-empty', 'C02', [], expect='accept')
    add('control-empty', 'C05', [], expect='accept')
    add('control-cbdata-200', 'struct', [], expect='accept', cbdata=b'x' * 200)
    add('control-time-now+30', 'C05', [], expect='accept', now=ts - 30)
    add('control-reward-less', 'C02', [], expect='accept', reward=sub - 1)
    if avail:
        a0 = avail[0]
        add('control-exact-spend', 'C01', [spend([a0])], expect='accept')
        add('control-exact-spend', 'C02', [spend([a0])], expect='accept')
        add('control-fee-claimed', 'C02', [spend([a0], fee=min(7, a0[1][0] - 1))], fees=min(7, a0[1][0] - 1), expect='accept')
        if len(avail) >= 2:
            add('control-two-inputs-two-keys', 'C01', [spend(avail[:2])], expect='accept')
            add('control-two-txs', 'C01', [spend([avail[0]]), spend([avail[1]])], expect='accept')
        if a0[1][0] >= 2:
            add('control-two-outputs', 'C02', [spend([a0], outs=[(1, keys.pks[2]), (a0[1][0] - 1, keys.pks[3])])],
                expect='accept')

    # ---- C01: spending rules
    rnd_ref = (bytes(rng.getrandbits(8) for _ in range(32)), 0)
    fake_vo = (5, keys.pks[1])
    add('spend-missing-output', 'C01', [spend([(rnd_ref, fake_vo)], extra_utxo={rnd_ref: fake_vo})], fees=0)
    if spent:
        add('spend-already-spent', 'C01', [spend([spent[0]], extra_utxo=dict([spent[0]]))], fees=0)
    if other:
        add('spend-other-fork-output', 'C01', [spend([other[0]], extra_utxo=dict([other[0]]))], fees=0)
    if avail:
        a0 = avail[0]
        v0 = a0[1][0]
        add('ref-twice-in-tx', 'C01', [spend([a0, a0], outs=[(v0, keys.pks[1])])])
        add('ref-in-two-txs', 'C01', [spend([a0]), spend([a0], outs=[(v0, keys.pks[2])])])
        if len(avail) >= 2:
            # the same output spent by two transactions that are NOT adjacent in the block
            add('ref-in-two-nonadjacent-txs', 'C01', [spend([a0]), spend([avail[1]]), spend([a0], outs=[(v0, keys.pks[2])])])
            add('ref-in-two-nonadjacent-txs', 'C02', [spend([a0]), spend([avail[1]]), spend([a0], outs=[(v0, keys.pks[2])])])
        if len(avail) >= 3:
            add('ref-in-first-and-fourth-tx', 'C01', [spend([a0]), spend([avail[1]]), spend([avail[2]]),
                                                       spend([avail[1], a0], outs=[(v0 + avail[1][1][0], keys.pks[3])])][:3] +
                [spend([a0], outs=[(v0, keys.pks[4])])])
        wrong = [pk for pk in keys.pks if pk != a0[1][1]][0]
        add('signed-by-other-key', 'C01', [spend([a0], sign_with={a0[0]: wrong})])
        good = spend([a0])
        import render
        rg = render.r_tx(good)
        add('outputs-changed-after-signing', 'C01',
            [mk_tx([(a0[0][0], a0[0][1], ('sig', rg[0][0][1][1]))], [(v0, keys.pks[4])])])
        if v0 >= 2:
            add('value-split-changed-after-signing', 'C01',
                [mk_tx([(a0[0][0], a0[0][1], ('sig', rg[0][0][1][1]))], [(v0 - 1, keys.pks[1])])], fees=1)
        if len(avail) >= 2:
            a1 = avail[1]
            # signature made for a0 re-used on a1 (reference changed after signing)
            add('reference-changed-after-signing', 'C01',
                [mk_tx([(a1[0][0], a1[0][1], ('sig', rg[0][0][1][1]))], [(a1[1][0], keys.pks[1])])])
            two = spend([a0, a1])
            r2 = render.r_tx(two)
            add('signatures-swapped-between-inputs', 'C01' if a0[1][1] != a1[1][1] else 'skip',
                [mk_tx([(a0[0][0], a0[0][1], ('sig', r2[0][1][1][1])), (a1[0][0], a1[0][1], ('sig', r2[0][0][1][1]))],
                       [(v0 + a1[1][0], keys.pks[1])])])
            # one good input, one input owned by someone else signed with our key
            add('second-input-signed-by-first-key', 'C01' if a0[1][1] != a1[1][1] else 'skip',
                [spend([a0, a1], sign_with={a1[0]: a0[1][1]})])
            add('first-input-signed-by-second-key', 'C01' if a0[1][1] != a1[1][1] else 'skip',
                [spend([a0, a1], sign_with={a0[0]: a1[1][1]})])
            # two inputs paying the SAME key: the first correctly signed, the second signed by another key
            samek = [(x, y) for x in avail for y in avail if x[0] != y[0] and x[1][1] == y[1][1]]
            if samek:
                x_, y_ = samek[0]
                other_k = [pk for pk in keys.pks if pk != x_[1][1]][0]
                add('second-input-of-same-key-signed-by-other-key', 'C01', [spend([x_, y_], sign_with={y_[0]: other_k})])
                add('control-two-inputs-same-key', 'C01', [spend([x_, y_])], expect='accept')
        # the SAME in-memory transaction object is validated once inside a valid block (as pool admission or an earlier
        # offer would), then altered -- outputs / inputs lists rebound on the object, or on a deep copy of it -- and offered
        # in a block: whatever the object remembers from the first validation, the altered content is what counts
        if 'C01' in tags and with_warm:
            import copy
            from skepticoin.datatypes import Output, Input, OutputReference
            from skepticoin.signing import SECP256k1PublicKey
            for variant in ('outputs-rebound', 'deepcopy-outputs-rebound', 'input-appended') if len(avail) >= 2 else ('outputs-rebound', 'deepcopy-outputs-rebound'):
                obj = spend([a0])
                cbw = coinbase(height, sub, miner, b'w')
                try:
                    warm = assemble(env, parent, [cbw, obj], ts)
                except Exception:
                    break

                def mutate(obj=obj, variant=variant, cbw=cbw):
                    t = copy.deepcopy(obj) if variant.startswith('deepcopy') else obj
                    if variant == 'input-appended':
                        a1_ = avail[1]
                        t.inputs = list(t.inputs) + [Input(OutputReference(a1_[0][0], a1_[0][1]), t.inputs[0].signature)]
                        t.outputs = [Output(v0 + a1_[1][0], SECP256k1PublicKey(keys.pks[3]))]
                    else:
                        t.outputs = [Output(v0, SECP256k1PublicKey(keys.pks[3]))]
                    t.cached_hash = None
                    return assemble(env, parent, [cbw, t], ts)
                out.append({'label': 'validated-object-then-' + variant, 'tag': 'C01', 'block': warm, 'warm': warm,
                            'mutate': mutate, 'now': ts, 'expect': 'reject'})
        add('placeholder-signature', 'C01', [mk_tx([(a0[0][0], a0[0][1], None)], [(v0, keys.pks[1])])])
        add('reward-data-as-signature', 'C01', [mk_tx([(a0[0][0], a0[0][1], ('cb', height, b'zz'))], [(v0, keys.pks[1])])])
        add('null-reference-in-spend', 'C01',
            [mk_tx([(b'\x00' * 32, 0, ('sig', rg[0][0][1][1]))], [(1, keys.pks[1])])], fees=0)
        # spend an output created in the same block
        t1 = spend([a0])
        id1 = spec.sha256d(t1.serialize())
        t2 = signed_tx(keys, {(id1, 0): (v0, keys.pks[1])}, [(id1, 0)], [(v0, keys.pks[2])])
        add('spend-output-of-same-block', 'C01', [t1, t2])
        cbref_utxo = {}
        # spend this block's own reward
        # (the reward transaction's id depends on its content; build it first)
        cb0 = coinbase(height, sub, miner, b'm')
        idc = spec.sha256d(cb0.serialize())
        if miner in keys.by_pk:
            t3 = signed_tx(keys, {(idc, 0): (sub, miner)}, [(idc, 0)], [(sub, keys.pks[2])])
            add('spend-own-reward-in-block', 'C01', [t3], cb=cb0)
        add('duplicate-transaction', 'C01', [t1, t1])

    # an output paying a 64-byte "public key" that is not a curve point: verification raises inside the ecdsa library
    # (not a validation error); the block must still be refused without a trace
    bad_pk = [(r, vo) for r, vo in sorted(parent.utxo.items()) if vo[1] == chaingen.MALFORMED_PK]
    if bad_pk:
        r0, vo0 = bad_pk[0]
        add('spend-output-with-malformed-key', 'C01',
            [mk_tx([(r0[0], r0[1], ('sig', bytes(64)))], [(vo0[0], keys.pks[1])])])

    # ---- C02: value rules
    add('reward-plus-one', 'C02', [], reward=sub + 1)
    # reward transaction with several outputs: the SUM is what counts
    def cb_multi(vals):
        return mk_tx([(b'\x00' * 32, 0, ('cb', height, b'm'))], [(v, miner) for v in vals])
    if sub >= 2:
        add('control-reward-two-outputs-exact', 'C02', [], cb=cb_multi([sub - 1, 1]), expect='accept')
        add('reward-two-outputs-sum-plus-one', 'C02', [], cb=cb_multi([sub, 1]))
        add('reward-three-outputs-last-small', 'C02', [], cb=cb_multi([sub, sub, 1]))
        add('reward-two-outputs-first-small', 'C02', [], cb=cb_multi([1, sub]))
    if avail:
        a0 = avail[0]
        v0 = a0[1][0]
        if v0 >= 3:
            add('reward-claims-fee-plus-one', 'C02', [spend([a0], fee=2)], fees=3)
            add('fee-claimed-twice', 'C02', [spend([a0], fee=2)], fees=4)
        add('overspend-by-one', 'C02', [spend([a0], outs=[(v0 + 1, keys.pks[1])])], fees=0)
        add('zero-value-single-output', 'C02', [spend([a0], outs=[(0, keys.pks[1])])], fees=v0)
        add('zero-value-among-outputs', 'C02', [spend([a0], outs=[(0, keys.pks[1]), (v0, keys.pks[2])])])
        add('output-max-plus-one', 'C02', [spend([a0], outs=[(MAXS + 1, keys.pks[1])])], fees=0)
        add('output-2^64-1', 'C02', [spend([a0], outs=[(2 ** 64 - 1, keys.pks[1])])], fees=0)
        add('total-over-max-parts-in-range', 'C02', [spend([a0], outs=[(MAXS, keys.pks[1]), (MAXS, keys.pks[2])])], fees=0)
        if other:
            # fees computed from the wrong state: the reward claims the value an input has on another fork
            o0 = other[0]
            if o0[1][0] > 1:
                add('fee-from-other-fork-state', 'C02',
                    [spend([o0], outs=[(1, keys.pks[1])], extra_utxo=dict([o0]))], fees=o0[1][0] - 1)

    # ---- C05: header rules
    pt = parent.view.target
    ipt = int.from_bytes(pt, 'big')
    on_boundary = (height % env.period == 0)
    add('target-doubled' + ('-at-boundary' if on_boundary else ''), 'C05', [],
        ov={'target': min(ipt * 2, 2 ** 256 - 1).to_bytes(32, 'big')})
    add('target-minus-one' + ('-at-boundary' if on_boundary else ''), 'C05', [],
        ov={'target': (int.from_bytes(spec.retarget(pt, height, ts, {v.height: v for v in [n.view for n in parent.chain()]},
                                                      env.period, env.span), 'big') - 1).to_bytes(32, 'big')})
    if on_boundary:
        add('target-not-adjusted-at-boundary', 'C05', [], ov={'target': pt})
        mychain = set(n.id for n in parent.chain())
        for n in tg.nodes:
            if n.height == height - env.period and n.id not in mychain and ts > n.view.time:
                r = ipt * (ts - n.view.time) // env.span
                tgt = min(r, 2 ** 256 - 1).to_bytes(32, 'big')
                if tgt != spec.retarget(pt, height, ts, {v.height: v for v in [x.view for x in parent.chain()]},
                                        env.period, env.span):
                    add('target-from-other-branch-interval', 'C05', [], ov={'target': tgt})
                    break
        # off-by-one in the interval: elapsed time measured from the neighbouring ancestors
        byh = {x.height: x for x in parent.chain()}
        for dh, lab in ((1, 'target-interval-start-plus-one'), (-1, 'target-interval-start-minus-one')):
            a = byh.get(height - env.period + dh)
            if a is not None and ts > a.view.time:
                tgt = min(ipt * (ts - a.view.time) // env.span, 2 ** 256 - 1).to_bytes(32, 'big')
                add(lab, 'C05', [], ov={'target': tgt})
    # evidence whose chain sample is taken from the blocks of a SIBLING branch (same heights, other blocks)
    mychain_ids = set(n.id for n in parent.chain())
    for tip in tg.nodes:
        if tip.id in mychain_ids or tip.height < 2:
            continue
        mixed = {v.height: v for v in [x.view for x in parent.chain()]}
        differs = False
        for x in tip.chain():
            if x.height in mixed and mixed[x.height].id != x.id:
                mixed[x.height] = x.view
                differs = True
        if differs:
            try:
                cbx = coinbase(height, sub, miner, b'm')
                good = assemble(env, parent, [cbx], ts, mine=False)
                alt = assemble(env, parent, [cbx], ts, overrides={'sample_chain': mixed}, mine=False)
                if bytes(good.header.pow_evidence.serialize()) != bytes(alt.header.pow_evidence.serialize()):
                    nbefore = len(out)
                    add('evidence-sampled-from-sibling-branch', 'C05', [], ov={'sample_chain': mixed})
                    if len(out) > nbefore:
                        # mining changed the nonce, hence which ancestors are sampled: keep the mutant only if its evidence
                        # still differs from the evidence recomputed from the block's own ancestors
                        bvx = spec.BlockView(out[-1]['block'])
                        own = {v.height: v for v in [x.view for x in parent.chain()]}
                        if spec.evidence(bvx.summary_bytes, bvx.height, own, [t.bytes for t in bvx.txs], env.scrypt) == bvx.evidence:
                            out.pop()
                    break
            except Exception:
                pass
    add('time-equal-parent', 'C05', [], ts_=parent.view.time)
    if parent.view.time > 0:
        add('time-before-parent', 'C05', [], ts_=parent.view.time - 1)
    add('time-31s-in-future', 'C05', [], now=ts - 31)
    if horizon_env is not None and horizon_env.hz >= 1 and height > 1:
        # a checkpoint horizon is in force: blocks that merely DECLARE a height at or below it (while attached here)
        hz, known = horizon_env.hz, horizon_env.known
        ds = [d for d in range(1, hz + 1) if d != height]
        free = [d for d in ds if d not in known]
        picks = ([rng.choice(free)] if free else []) + ([rng.choice([d for d in ds if d in known])] if [d for d in ds if d in known] else [])
        for d in picks:
            lab = 'declared-height-%s-below-horizon' % ('not-checkpointed' if d not in known else 'checkpointed')
            ovd = {'height': d, 'cb_height': d, 'target': b'\xff' * 32}
            add(lab + '+any-target', 'C05', [], ov=ovd)
            add(lab + '+huge-reward', 'C02', [], ov=ovd, reward=10 ** 15)
            # the same without any stored parent (previous id all zero / unknown)
            for pz, pl in ((b'\x00' * 32, 'zero-parent'), (b'\x5a' * 32, 'unknown-parent')):
                ovz = dict(ovd, prev=pz)
                add(lab + '+' + pl, 'C05', [], ov=ovz)
                add(lab + '+' + pl + '+huge-reward', 'C02', [], ov=ovz, reward=10 ** 15)
            if avail:
                wrong_ = [pk for pk in keys.pks if pk != avail[0][1][1]][0]
                add(lab + '+signed-by-other-key', 'C01', [spend([avail[0]], sign_with={avail[0][0]: wrong_})], ov=ovd)
    if height >= 1:
        # a second "genesis": height 0, no parent, offered to a chain that already has one -- with an outsized reward
        for tag_ in ('C02', 'C05'):
            add('genesis-shaped-block-on-existing-chain', tag_, [],
                ov={'height': 0, 'cb_height': 0, 'evidence_height': 0, 'prev': b'\x00' * 32, 'target': parent.chain()[0].view.target},
                reward=2_099_999_986_350_000)
    if height > 2:
        # a block that reports an EARLIER height consistently (summary, reward data, evidence), without claiming a reward /
        # claiming that height's subsidy
        for tag_ in ('C02', 'C05'):
            add('earlier-height-consistently-no-reward', tag_, [], ov={'height': 1, 'cb_height': 1, 'evidence_height': 1}, reward=0)
            add('earlier-height-consistently-its-subsidy', tag_, [], ov={'height': 1, 'cb_height': 1, 'evidence_height': 1},
                reward=env.subsidy(1))
    add('height-plus-two', 'C05', [], ov={'height': height + 1, 'cb_height': height + 1})
    add('height-same-as-parent', 'C05', [], ov={'height': height - 1, 'cb_height': height - 1})
    add('reward-height-differs', 'C05', [], ov={'cb_height': height + 1})
    add('id-not-below-target', 'C05', [], ov={'want_above_target': True})

    def flip(idx):
        def f(ev):
            e = [bytearray(x) for x in ev]
            e[idx][rng.randrange(len(e[idx]))] ^= 1 << rng.randrange(8)
            return tuple(bytes(x) for x in e)
        return f
    add('evidence-summary-hash-altered', 'C05', [], ov={'evidence': flip(0)})
    add('evidence-chain-sample-altered', 'C05', [], ov={'evidence': flip(1)})
    add('evidence-block-hash-altered', 'C05', [], ov={'evidence': flip(2)})
    if height >= 2:
        add('evidence-for-other-height', 'C05', [], ov={'evidence_height': height - 1})
    add('unknown-parent', 'C05', [], ov={'prev': bytes(rng.getrandbits(8) for _ in range(32))})

    # ---- structure
    add('merkle-root-altered', 'struct', [], ov={'merkle': bytes(rng.getrandbits(8) for _ in range(32))})
    add('no-transactions', 'struct', [], first=[])
    add('two-reward-transactions', 'struct', [coinbase(height, 1, miner, b'second')])
    add('reward-data-201-bytes', 'struct', [], cbdata=b'y' * 201)
    if len(avail) >= 80:
        # large blocks / large transactions (a validator may treat them differently from small ones)
        many = avail[:70]
        txs_ok = [spend([a]) for a in many]
        add('control-70-transactions', 'C02', txs_ok, expect='accept')
        add('control-70-transactions', 'C01', txs_ok, expect='accept')
        k_ = 41
        over = list(txs_ok)
        over[k_] = spend([many[k_]], outs=[(many[k_][1][0] + 1, keys.pks[1])])
        add('block-of-70-transactions-one-overspends-reward-lowered', 'C02', over, reward=sub - 1)
        badsig = list(txs_ok)
        wrong70 = [pk for pk in keys.pks if pk != many[k_][1][1]][0]
        badsig[k_] = spend([many[k_]], sign_with={many[k_][0]: wrong70})
        add('block-of-70-transactions-one-signed-by-other-key', 'C01', badsig)
        ins17 = avail[60:77]
        add('control-17-inputs', 'C01', [spend(ins17)], expect='accept')
        wrong17 = [pk for pk in keys.pks if pk != ins17[11][1][1]][0]
        add('transaction-of-17-inputs-one-signed-by-other-key', 'C01', [spend(ins17, sign_with={ins17[11][0]: wrong17})])
        add('transaction-of-17-inputs-overspends', 'C02', [spend(ins17, outs=[(sum(a[1][0] for a in ins17) + 1, keys.pks[1])])], reward=sub - 1)
    if avail:
        add('first-transaction-not-reward', 'struct', [], first=[spend([avail[0]])])
    return out


def oversize_block(tg, parent):
    env, keys = tg.env, tg.keys
    height = parent.height + 1
    sub = env.subsidy(height)
    n = 2800
    outs = [(1, keys.pks[0])] * (n - 1) + [(sub - (n - 1), keys.pks[0])]
    cb = mk_tx([(b'\x00' * 32, 0, ('cb', height, b'big'))], outs)
    blk = assemble(env, parent, [cb], parent.view.time + 120)
    return {'label': 'block-over-max-size', 'tag': 'struct', 'block': blk, 'now': parent.view.time + 120,
            'expect': 'reject'}
