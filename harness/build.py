"""setup: regenerate gen/*.v from /repo, full build of the whole development, extraction and OCaml driver."""
import os
import subprocess
import sys

sys.path.insert(0, os.path.dirname(os.path.abspath(__file__)))
import common


def main():
    with common.Lock(os.path.join(common.COQ, '.lock')):
        print(common.regenerate()['functions'])
        bad = common.hygiene()
        if bad:
            print('hygiene failures:', bad)
            sys.exit(1)
        common.write_coqproject()
        p = subprocess.run(['timeout', '3000', 'make', '-j16'], cwd=common.COQ)
        if p.returncode != 0:
            sys.exit(p.returncode)
        if os.path.exists(os.path.join(common.COQ, 'extract', 'Extract.v')):
            ok, msg = common.build_driver()
            if not ok:
                print(msg)
                sys.exit(1)
    print('setup ok')


if __name__ == '__main__':
    main()
