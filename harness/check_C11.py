"""C11 -- stream framing independent of fragmentation.  Theorem: props/Properties_C11.v (receiver refines the stream
grammar for every chunking).  Tie: the real MessageReceiver against the extracted model on every 2- and 3-way cut of
short streams.  Search oracle: an independent reference parser of the grammar (frames + refusal point)."""
import itertools
import json
import struct

import common
import gen
import model

MAGIC = b'MAJI'


def ref_parse(stream, maxsize):
    """the property's grammar: frames delivered in order; refusal (1 = magic, 2 = length) at that point"""
    frames = []
    pos = 0
    while True:
        if len(stream) - pos < 4:
            return frames, 0
        if stream[pos:pos + 4] != MAGIC:
            return frames, 1
        if len(stream) - pos < 8:
            return frames, 0
        (n,) = struct.unpack('>I', stream[pos + 4:pos + 8])
        if n > maxsize:
            return frames, 2
        if len(stream) - pos - 8 < n:
            return frames, 0
        frames.append(stream[pos + 8:pos + 8 + n])
        pos += 8 + n


def impl_feed(chunks, raw=True):
    from skepticoin.networking import remote_peer as RP

    class StubPeer:
        def __init__(self):
            self.got = []

        def handle_message_received(self, header, message):
            import render
            self.got.append([render.r_msg_header(header), render.r_msg(message)])

    peer = StubPeer()
    rc = RP.MessageReceiver(peer)
    frames = []
    if raw:
        rc.handle_message_data = lambda data: frames.append(bytes(data))
    err = 0
    for c in chunks:
        try:
            rc.receive(c)
        except Exception as e:
            s = str(e)
            err = 1 if 'magic' in s.lower() else (2 if 'MAX_MESSAGE_SIZE' in s else 3)
            break
    state = None
    if err == 0:
        state = [bytes(rc.buffer), bool(rc.magic_read), None if rc.len is None else rc.len]
    return (frames if raw else peer.got), err, state


def frame(payload, magic=MAGIC, length=None):
    return magic + struct.pack('>I', len(payload) if length is None else length) + payload


def gen_streams(rng, n, maxsize):
    """1-3 frames; each independently: magic ok / one bit wrong, length ok / over the limit; the stream may end anywhere
    inside its last frame (so a corrupted header may be present only partially)"""
    out = []
    for _ in range(n):
        k = rng.choice([1, 1, 2, 2, 3])
        parts = []
        kinds = set()
        for j in range(k):
            pl = gen.rb(rng, rng.choice([0, 0, 1, 2, 3, 5, 8, maxsize, max(0, maxsize - 1)]) if maxsize <= 16
                        else rng.randrange(0, 10))
            magic = MAGIC
            length = None
            r = rng.random()
            if r < 0.15:
                m = bytearray(MAGIC)
                m[rng.randrange(4)] ^= 1 << rng.randrange(8)
                magic = bytes(m)
                kinds.add('badmagic')
            elif r < 0.30:
                length = rng.choice([maxsize + 1, maxsize + 2, 0x7fffffff, 0x80000000, 0xffffffff, 0xffffff00,
                                     2 ** 25 + 1])
                kinds.add('toolong')
            parts.append(frame(pl, magic=magic, length=length))
        if rng.random() < 0.4:
            last = parts[-1]
            parts[-1] = last[:rng.randrange(1, len(last))]
            kinds.add('truncated')
        out.append((b''.join(parts), '+'.join(sorted(kinds)) or 'valid'))
    return out


def cuts(stream, ways):
    L = len(stream)
    if ways == 1:
        yield [stream]
        return
    for idx in itertools.combinations(range(0, L + 1), ways - 1):
        pts = [0] + list(idx) + [L]
        yield [stream[pts[i]:pts[i + 1]] for i in range(len(pts) - 1)]


def node_level(ck, tier):
    """the same statement on the node's real read path (LocalPeer socket reads -> handle_receive_data -> receiver):
    every frame of a connection's stream is dispatched exactly once, in order, whatever the reads return, until the
    connection is closed; a frame whose handler fails closes the connection instead of being dispatched again"""
    import chaingen
    import nodeharness
    import simnet
    from skepticoin.networking import remote_peer as RP
    from skepticoin.networking import messages as M
    rng = ck.rng
    keys = chaingen.Keys()
    with chaingen.Env(period=50) as env:
        tg = chaingen.TreeGen(env, keys, rng)
        n = tg.extend(tg.genesis, txs=[], fees=0)
        main = list(tg.nodes)
        log = []
        orig = RP.MessageReceiver.handle_message_data

        slow_payloads = set()

        def logged(self, data, _o=orig):
            log.append((id(self), bytes(data)))
            r_ = _o(self, data)
            if bytes(data) in slow_payloads:
                import time as _t
                _t.sleep(0.15)           # handling this message takes a while (as validating a block does with the real scrypt)
            return r_
        RP.MessageReceiver.handle_message_data = logged
        try:
            with simnet.Net(seed=rng.getrandbits(30), t0=n.view.time + 100) as net:
                sn = nodeharness.SingleNode(net, chaingen.impl_state_from(main), [m.block for m in main[1:]], npeers=1)
                hello = M.MessageHeader(0, 1, 0, 1).serialize() + sn.hello().serialize()
                getpeers = [M.MessageHeader(0, 10 + i, 0, 1).serialize() + M.GetPeersMessage().serialize() for i in range(1300)]
                unsupported = M.MessageHeader(0, 5, 0, 1).serialize() + M.GetDataMessage(M.DATA_TRANSACTION, b'\x07' * 32).serialize()
                # a message just under the size limit (limit lowered to 3,000 for the probe, wherever it is looked up),
                # immediately followed by another one: both are delivered, however the reads fall
                import sys as _sys
                lim = 3000
                near = None
                for nh in range(95, 60, -1):
                    cand_ = M.MessageHeader(0, 77, 0, 1).serialize() + M.GetBlocksMessage([bytes([nh]) * 32] * nh, b'\x09' * 32).serialize()
                    if len(cand_) <= lim:
                        near = cand_
                        break
                patched_lim = []
                for mn_, mod_ in list(_sys.modules.items()):
                    if mn_.startswith('skepticoin.networking') and mod_ is not None and 'MAX_MESSAGE_SIZE' in getattr(mod_, '__dict__', {}):
                        patched_lim.append((mod_, mod_.MAX_MESSAGE_SIZE))
                        mod_.MAX_MESSAGE_SIZE = lim
                slow_one = M.MessageHeader(0, 4242, 0, 1).serialize() + M.GetPeersMessage().serialize()
                slow_payloads.add(slow_one)
                pad = [M.MessageHeader(0, 3000 + i, 0, 1).serialize() + M.GetPeersMessage().serialize() for i in range(40)]
                streams = [('slow-message-then-more-in-the-same-read/one-write', [hello, slow_one] + getpeers[:4], None, None),
                           ('first-write-of-exactly-1024-bytes', [hello] + pad, None, 'first1024'),
                           ('first-write-of-exactly-2048-bytes', [hello] + pad, None, 'first2048'),
                           ('message-just-under-the-size-limit-then-another/one-write', [hello, near, getpeers[0], getpeers[1]], None, None),
                           ('message-just-under-the-size-limit-then-another/1000-byte-writes', [hello, near, getpeers[0], getpeers[1]], None, 1000),
                           ('1300-small-frames-in-one-write', [hello] + getpeers, None, None),
                           ('unsupported-request-then-more/one-write', [hello, unsupported] + getpeers[:3], 2, None),
                           ('unsupported-request-then-more/7-byte-writes', [hello, unsupported] + getpeers[:3], 2, 7),
                           ('unsupported-request-then-more/1-byte-writes', [hello, unsupported] + getpeers[:3], 2, 1)]
                for si, (name, payloads, closes_after, chunk) in enumerate(streams):
                    atk = simnet.RawPeer(net, host='10.8.0.%d' % (si + 1)).connect(sn.node)
                    sn.node.step()
                    sn.pump()
                    del log[:]
                    data = b''.join(frame(p_) for p_ in payloads)
                    pos = 0
                    if isinstance(chunk, str) and chunk.startswith('first'):
                        first = int(chunk[5:])
                        atk.send(data[:first])            # the bytes available at the first read event are an exact multiple of the read size
                        sn.pump()
                        pos, chunk = first, None
                    while pos < len(data):
                        k = len(data) if chunk is None else chunk
                        try:
                            atk.send(data[pos:pos + k])
                        except OSError:
                            break
                        pos += k
                        sn.pump()
                    sn.pump()
                    got = [d for (_, d) in log]
                    want = payloads if closes_after is None else payloads[:closes_after]
                    still_open = not (atk.sock.remote_closed or atk.sock.closed)
                    ck.case(('node', name), kind='node-read-path/' + name.split('/')[0],
                            sample={'stream': name, 'frames_sent': len(payloads), 'dispatched': len(got), 'connection_open': still_open})
                    rp = {'node_level': True, 'stream': name, 'frames': len(payloads), 'dispatched': len(got)}
                    if sn.node.escaped:
                        ck.violation('event-loop-exception', 'an exception escaped the read path: %s' % sn.node.escaped[0][1], rp)
                        break
                    if got != want:
                        dup = len(got) != len(set(got)) and len(set(got)) == len(set(want))
                        ck.violation('frames-not-dispatched-exactly-once', 'node read path, stream "%s": %d frames were sent, the '
                                     'reference grammar delivers %d before the connection ends, the node dispatched %d%s'
                                     % (name, len(payloads), len(want), len(got), ' (some more than once)' if dup else ''), rp)
                    if closes_after is not None and still_open:
                        ck.violation('failed-frame-keeps-connection', 'stream "%s": the handler of a frame failed but the '
                                     'connection stays open with that frame still buffered' % name, rp)
                    atk.close()
                    sn.pump()
        finally:
            RP.MessageReceiver.handle_message_data = orig
            try:
                for mod_, val_ in patched_lim:
                    mod_.MAX_MESSAGE_SIZE = val_
            except NameError:
                pass


def run_sender(script):
    """script = {'seed': n, 'msgs': [[message hex, previous header hex or None], ...]}: the real ConnectedRemotePeer
    sends those messages through a socket that takes a seed-determined number of bytes per send(), the socket turning
    writable a seed-determined number of times between two send_message calls.
    Returns (pieces written, messages, previous headers, peer)"""
    import io
    import random
    import selectors
    from skepticoin.networking import remote_peer as RP
    from skepticoin.networking import messages as M
    rng = random.Random(script['seed'])

    class Sel:
        writing = False

        def modify(self, sock, events, data=None):
            self.writing = bool(events & selectors.EVENT_WRITE)

    class Log:
        def info(self, *a, **k):
            pass
        error = warning = debug = info

    class LP:
        def __init__(self):
            self.selector = Sel()
            self.logger = Log()

    trace = []     # the operations as the real code performed them: [0, payload] = send_message, [1, n] = one sock.send

    class Sock:
        def __init__(self):
            self.pieces = []

        def send(self, data):
            mode = script.get('mode', 'mixed')
            if mode == 'whole':
                n = len(data)
            elif mode == 'tiny':
                n = rng.choice([1, 1, 2, 3])
            elif mode == 'frameish':
                n = len(data) if rng.random() < 0.7 else rng.randrange(1, len(data) + 1)
            else:
                n = rng.choice([1, 1, 2, 3, 5, 8, 13, 60, len(data), len(data)])
            n = max(1, min(n, len(data)))
            self.pieces.append(bytes(data[:n]))
            trace.append([1, n])
            return n

    lp = LP()
    sock = Sock()
    peer = RP.ConnectedRemotePeer(lp, '10.0.0.1', 2412, 'OUTGOING', None, sock, 0)
    msgs = []
    prevs = []
    snaps = []     # after every top-level call: (operations so far, bytes written, bytes queued, write registration)

    def snap():
        snaps.append((len(trace), b''.join(sock.pieces),
                      bytes(peer.send_buffer) + b''.join(bytes(x) for x in peer.send_backlog),
                      1 if lp.selector.writing else 0))
    plan = [list(x) for x in script['plan']] if script.get('plan') else None
    for mhex, phex in script['msgs']:
        m = M.Message.stream_deserialize(io.BytesIO(bytes.fromhex(mhex)))
        prev = None if phex is None else M.MessageHeader.stream_deserialize(io.BytesIO(bytes.fromhex(phex)))
        peer.send_message(m, prev_header=prev)
        trace.append([0, None])      # the payload (header + message) is filled in from the written stream afterwards
        snap()
        msgs.append(m)
        prevs.append(prev)
        if plan is None:
            while lp.selector.writing and rng.random() < 0.6:
                peer.handle_can_send(sock)
                snap()
        else:
            # plan = [[k, j], ...]: k messages in a row, then the socket turns writable j times
            while plan and plan[0][0] <= 1:
                for _ in range(plan[0][1]):
                    if lp.selector.writing:
                        peer.handle_can_send(sock)
                        snap()
                plan.pop(0)
            if plan:
                plan[0][0] -= 1
    guard = 0
    while lp.selector.writing and guard < 100000:
        peer.handle_can_send(sock)
        snap()
        guard += 1
    peer.skv_snaps = snaps
    peer.skv_trace = trace
    peer.skv_writing = lp.selector.writing
    return sock.pieces, msgs, prevs, peer, guard


def judge_sender(script):
    """None when a receiver of the written bytes gets exactly the messages sent, else a description"""
    import render
    from skepticoin.networking import remote_peer as RP
    pieces, msgs, prevs, peer, guard = run_sender(script)
    if guard >= 100000:
        return 'handle_can_send keeps asking for writability', pieces, []
    wire = b''.join(pieces)
    frames, err = ref_parse(wire, RP.MAX_MESSAGE_SIZE)
    consumed = sum(8 + len(f) for f in frames)
    head = '%d sent, grammar finds %d frames (error %d, %d of %d bytes consumed)' % (len(msgs), len(frames), err,
                                                                                    consumed, len(wire))
    if err != 0 or len(frames) != len(msgs) or consumed != len(wire):
        return head, pieces, frames
    if peer.send_buffer or peer.send_backlog:
        return head + '; bytes left unsent although the sender stopped asking for writability', pieces, frames
    for i, (f, m, prev) in enumerate(zip(frames, msgs, prevs)):
        if f[53:] != m.serialize():
            return head + '; frame %d is not message %d' % (i, i), pieces, frames
        got, e2, _ = impl_feed([frame(f)], raw=False)
        if e2 != 0 or len(got) != 1 or got[0][1] != render.r_msg(m):
            return head + '; frame %d does not decode to message %d' % (i, i), pieces, frames
        if prev is not None and (got[0][0][2] != prev.id or got[0][0][3] != prev.context):
            return head + '; frame %d does not answer the header it was sent in response to' % i, pieces, frames
    got, e3, st = impl_feed(pieces)
    if got != frames or e3 != 0 or st != [b'', False, None]:
        return head + '; the real receiver fed with the written pieces delivers something else', pieces, frames
    it = iter(frames)
    tr = [[0, next(it)] if k == 0 else [k, v] for k, v in peer.skv_trace]
    # observables only: bytes written, bytes still queued (buffer and backlog together), write registration
    judge_sender.last = [(tr[:k], [w, q, wr]) for (k, w, q, wr) in peer.skv_snaps]
    return None, pieces, frames


def sender_level(ck, tier, r):
    """the sending side: the real ConnectedRemotePeer.send_message / handle_can_send on a socket that accepts an
    arbitrary number of bytes per send() -> the bytes on the wire are the model's send_stream of the payloads, in
    order, and the real MessageReceiver fed with exactly those pieces delivers those payloads"""
    rng = ck.rng
    reqs = []
    wires = []
    machine = []
    for it_ in range(48 if tier == 'quick' else 600):
        script = {'seed': rng.getrandbits(30), 'msgs': []}
        if it_ % 4 == 0:
            nmsgs = rng.choice([1, 2, 3, 5])
        else:
            # bursts: k messages queued in a row (up to 17, beyond any plausible per-event quota), then 0-2 writable
            # events, on a socket that takes whole buffers / mostly whole buffers / a few bytes / anything
            script['mode'] = rng.choice(['whole', 'whole', 'frameish', 'tiny', 'mixed'])
            script['plan'] = [[rng.choice([1, 2, 3, 4, 5, 8, 9, 10, 16, 17]), rng.choice([0, 1, 1, 2])]
                              for _ in range(rng.choice([1, 2, 3]))]
            nmsgs = sum(k for k, _ in script['plan']) + rng.choice([0, 1, 2])
        for i in range(nmsgs):
            m = gen.g_msg(rng, kind=rng.choice([1, 2, 3, 5, 6]))
            prev = gen.g_msg_header(rng) if rng.random() < 0.5 else None
            script['msgs'].append([m.serialize().hex(), None if prev is None else prev.serialize().hex()])
        bad, pieces, frames = judge_sender(script)
        wire = b''.join(pieces)
        ck.case(('send', wire, tuple(pieces)), kind='sender/%s/%s-msgs' % (script.get('mode', 'mixed'), nmsgs if nmsgs < 6 else ('6-12' if nmsgs <= 12 else '13+')))
        if bad:
            ck.violation('sent-stream-not-received',
                         'messages handed to send_message are not what a receiver of the written bytes gets: ' + bad,
                         {'sender_script': script})
        reqs.append(('send_stream', [], list(frames)))
        wires.append((wire, frames))
        if not bad:
            machine.extend(judge_sender.last)
    if r.ok:
        outs = model.run_batch(reqs)
        for (wire, frames), o in zip(wires, outs):
            if o != wire:
                ck.disagree('ConnectedRemotePeer.send_message/handle_can_send vs model Framing.send_stream',
                            {'sender': True, 'frames': [f.hex() for f in frames], 'impl': wire.hex()[:400],
                             'model': repr(o)[:400]})
        ck.extra['sender_traces_validated_against_impl'] = len(wires)
        # the state machine: the operations as the real code performed them, replayed on the model s_run
        outs = model.run_batch([('sender_run', [], tr) for tr, _ in machine])
        for (tr, fin), o in zip(machine, outs):
            if [o[0], o[1] + b''.join(o[2]), o[3]] != fin:
                ck.disagree('ConnectedRemotePeer send_buffer/send_backlog/writability vs model Framing.s_run',
                            {'sender': True, 'ops': [[k, v.hex() if k == 0 else v] for k, v in tr],
                             'impl': repr(fin)[:400], 'model': repr(o)[:400]})
        ck.extra['sender_state_machine_states_compared'] = len(machine)
        ck.extra['sender_state_machine_states_not_drained'] = sum(1 for _, f in machine if f[1])


def run(tier, seed):
    ck = common.Check('C11', tier, seed)
    ck.rule = ('streams of 1-3 frames (payload 0..10 bytes; single corruptions: wrong magic bit, over-limit length '
               'incl. 0x7fffffff/0x80000000/0xffffffff, truncated tail), test limit MAX_MESSAGE_SIZE patched to 6 for '
               'boundary cases and the real 32 MiB limit for header-only streams; chunkings: 1 read, byte-at-a-time, ALL '
               '2-way and ALL 3-way cuts (exhaustive per stream); each chunking run on the real MessageReceiver and on '
               'the extracted model, and against the reference grammar; non-trivial = distinct (stream, chunking); sending '
               'side: 1-5 real messages through the real send_message/handle_can_send on a socket taking 1..all bytes per '
               'send(), written bytes compared with the model send_stream and fed, in the pieces written, to the real '
               'receiver')
    ck.trusted += ['extraction + OCaml driver', 'stub peer object collecting delivered frames',
                   'stub socket/selector/logger under the real ConnectedRemotePeer for the sending side',
                   'run-time patch of remote_peer.MAX_MESSAGE_SIZE to a small test value for boundary cases']
    ck.assumptions += ['one connection; the peer handler does not raise (handler errors are C20)']
    r = ck.build(extract=True)
    from skepticoin.networking import remote_peer as RP
    from skepticoin.networking import params as NP
    real_max = RP.MAX_MESSAGE_SIZE
    ck.extra['MAX_MESSAGE_SIZE'] = real_max
    if real_max != NP.MAX_MESSAGE_SIZE or real_max != 32 * 1024 * 1024:
        ck.violation('limit-changed', 'frame size limit is %r, documented 32 MiB' % real_max, {'max': real_max})
    nstreams = 90 if tier == 'quick' else 1600
    cases = []   # (maxsize, stream, chunks, kind)
    for maxsize in (6, real_max):
        for stream, kind in gen_streams(ck.rng, nstreams if maxsize == 6 else nstreams // 2, maxsize):
            if len(stream) > 44:
                stream = stream[:44]
            cases.append((maxsize, stream, [stream], kind))
            cases.append((maxsize, stream, [stream[i:i + 1] for i in range(len(stream))], kind))
            for ch in cuts(stream, 2):
                cases.append((maxsize, stream, ch, kind))
            if len(stream) <= (30 if tier == 'quick' else 44):
                for ch in cuts(stream, 3):
                    cases.append((maxsize, stream, ch, kind))
    ck.extra['exhaustive'] = True
    reqs = []
    impl = []
    try:
        for maxsize, stream, chunks, kind in cases:
            RP.MAX_MESSAGE_SIZE = maxsize
            frames, err, state = impl_feed(chunks)
            want_frames, want_err = ref_parse(stream, maxsize)
            cut_in_header = any(0 < (sum(len(c) for c in chunks[:i]) % 1) for i in range(len(chunks)))
            ck.case((maxsize, stream, tuple(chunks)), kind='%s/%d-way' % (kind, min(len(chunks), 4)),
                    sample={'max': maxsize, 'chunks': [c.hex() for c in chunks], 'frames': [f.hex() for f in frames],
                            'error': err} if len(chunks) == 3 and len(ck.samples) < 4 else None)
            if frames != want_frames or err != want_err:
                ck.violation('framing-differs-from-grammar',
                             'chunking %s of stream %s: delivered %d frames, error %d; the stream grammar gives %d frames, '
                             'error %d' % ([len(c) for c in chunks], stream.hex(), len(frames), err, len(want_frames),
                                           want_err),
                             {'max': maxsize, 'chunks': [c.hex() for c in chunks]})
            impl.append((frames, err, state))
            reqs.append(('feed', [], [maxsize, list(chunks)]))
    finally:
        RP.MAX_MESSAGE_SIZE = real_max
    # messages (real handle_message_data path): valid traffic cut 3 ways
    nmsg = 0
    for _ in range(10 if tier == 'quick' else 240):
        msgs = []
        stream = b''
        for _ in range(ck.rng.choice([1, 2])):
            h = gen.g_msg_header(ck.rng)
            m = gen.g_msg(ck.rng, kind=ck.rng.choice([1, 2, 3, 5, 6]))
            data = h.serialize() + m.serialize()
            stream += frame(data)
            import render
            msgs.append([render.r_msg_header(h), render.r_msg(m)])
        for _ in range(20):
            a, b = sorted([ck.rng.randrange(len(stream) + 1), ck.rng.randrange(len(stream) + 1)])
            got, err, _ = impl_feed([stream[:a], stream[a:b], stream[b:]], raw=False)
            nmsg += 1
            ck.case(('msg', stream, a, b), kind='messages/3-way')
            if got != msgs or err != 0:
                ck.violation('messages-differ', 'decoded protocol messages depend on the chunking',
                             {'max': real_max, 'chunks': [stream[:a].hex(), stream[a:b].hex(), stream[b:].hex()],
                              'messages': True})
    if r.ok:
        outs = model.run_batch(reqs)
        for (maxsize, stream, chunks, kind), (frames, err, state), m in zip(cases, impl, outs):
            mframes, merr = m[0], m[1]
            ok = (mframes == frames and merr == (err if err in (0, 1, 2) else -1))
            if ok and err == 0:
                mstate = [m[2], bool(m[3]), (m[4][1] if m[4][0] == 1 else None)]
                ok = (mstate == state)
            if not ok:
                ck.disagree('MessageReceiver.receive vs model Framing.feed',
                            {'max': maxsize, 'chunks': [c.hex() for c in chunks], 'impl': repr((frames, err, state))[:300],
                             'model': repr(m)[:300]})
        ck.extra['traces_validated_against_impl'] = len(cases)
    try:
        sender_level(ck, tier, r)
    except Exception:
        import traceback
        ck.disagree('sender-level scenario crashed: %s' % traceback.format_exc()[-500:], {})
    try:
        node_level(ck, tier)
    except Exception:
        import traceback
        ck.disagree('node-level read path scenario crashed: %s' % traceback.format_exc()[-500:], {})
    return ck.finish()


def replay(path):
    d = json.load(open(path))
    rp = d.get('replay', {})
    from skepticoin.networking import remote_peer as RP
    if 'sender_script' in rp:
        bad, pieces, frames = judge_sender(rp['sender_script'])
        print('bytes written by send_message/handle_can_send: %s' % b''.join(pieces).hex())
        print('pieces accepted by the socket: %s' % [len(x) for x in pieces])
        print('messages sent, in order (without header): %s' % [m[0] for m in rp['sender_script']['msgs']])
        print('verdict: %s' % (bad or 'a receiver gets exactly the messages sent'))
        return 1 if bad else 0
    if 'chunks' in rp:
        chunks = [bytes.fromhex(c) for c in rp['chunks']]
        old = RP.MAX_MESSAGE_SIZE
        RP.MAX_MESSAGE_SIZE = rp.get('max', old)
        try:
            frames, err, state = impl_feed(chunks, raw=not rp.get('messages'))
        finally:
            RP.MAX_MESSAGE_SIZE = old
        want = ref_parse(b''.join(chunks), rp.get('max', old))
        print('implementation: frames', frames, 'error', err)
        print('stream grammar:', want)
        return 0 if (rp.get('messages') or (frames, err) == want) else 1
    print(json.dumps(d, indent=1))
    return 1
