"""C09 -- relay path: only fully valid blocks enter state; rejected ones leave no trace.
Theorems: props/Properties_C09.v (node model).  Tie: real handle_block_received + ChainManager + real BlockStore in
simnet against the extracted NodeModel (validators' verdicts computed outside the handler).  Search oracle: the
property's clauses evaluated on chain state / store rows / write buffer / pool / peers' inboxes after every delivery."""
import json

import chaingen
import common
import model
import mutators
import nodeharness
import simnet
import spec


def scenario(ck, trial, tier):
    from skepticoin.networking import messages as M
    rng = ck.rng
    keys = chaingen.Keys()
    with chaingen.Env(period=rng.choice([4, 50])) as env:
        tg = chaingen.TreeGen(env, keys, rng)
        n = tg.genesis
        for k in range(5):
            n = tg.extend(n, txs=[], fees=0, miner=chaingen.MALFORMED_PK if k == 1 else None)
        main = list(tg.nodes)
        byid = {x.id: x for x in main}
        cs0 = chaingen.impl_state_from(main)
        idm = nodeharness.IdMap()
        events = []
        observed = []
        pairs_valid = set()
        with simnet.Net(seed=rng.getrandbits(30), t0=main[-1].view.time + 100) as net:
            if trial % 4 == 2:
                net.default_send_limit = 100        # congested links: a relayed block needs several sends per peer
            sn = nodeharness.SingleNode(net, cs0, [m.block for m in main[1:]], npeers=3)
            sn.new_messages()
            if not all(sn.connected(i) for i in range(len(sn.peers))):
                ck.violation('peer-dropped-during-greeting', 'the node closed the connection of a well-behaved peer while greetings '
                             'were exchanged%s: nothing can be relayed to it' % (' over a congested link (sends accepted %d bytes at a '
                             'time)' % net.default_send_limit if net.default_send_limit else ''),
                             {'trial': trial, 'send_limit': net.default_send_limit})
                return ('node_run', [], [10000, [], [], [[], 0, [], []], []]), []
            # two pending transactions so that "the pool is left as it was" means something
            head = main[-1]
            avail = sorted(tg.spendable(head))
            pool_txs = []
            for a in avail[:2]:
                t = chaingen.signed_tx(keys, head.utxo, [a[0]], [(a[1][0], keys.pks[3])])
                sn.node.activate()
                if sn.lp().chain_manager.add_transaction_to_pool(t):
                    pool_txs.append(t)
            init = sn.observe()
            init_state = [[[idm(m.id), 0 if m.parent is None else idm(m.parent.id), m.height] for m in main],
                          idm(init['head']), [idm(x) for x in init['pool']], sorted(idm(r) for r in init['rows'])]
            for t in pool_txs:
                pairs_valid.add((idm(head.id), idm(spec.sha256d(t.serialize()))))
            deliveries = []
            torn = set()
            nsteps = 18 if tier == 'quick' else 40
            pending_mutants = []
            future_again = []
            orphan_parent = None
            for step in range(nsteps):
                cm = sn.lp().chain_manager
                if bytes(cm.coinstate.current_chain_hash) not in byid:
                    raise RuntimeError('head unknown to the harness after deliveries %r' % (deliveries[-4:],))
                head = byid[bytes(cm.coinstate.current_chain_hash)]
                r = rng.random()
                label = None
                blk = None
                expect = None
                known_ids = set(bytes(h) for h in cm.coinstate.block_by_hash.keys())
                irt = 0
                rolled_back = [x for x in byid.values() if x.id not in known_ids and x.parent is not None and
                               x.parent.id in known_ids and x in tg.nodes]
                if future_again and rng.random() < 0.6 and future_again[0][1].id in known_ids:
                    # a block that was refused because it lay more than 30 s ahead of the node's clock is offered again once the
                    # clock has caught up: now it is simply a valid block
                    fblk, fpar = future_again.pop(0)
                    fbv = spec.BlockView(fblk)
                    fnode = chaingen.Node(fblk, fpar, spec.apply_block(fpar.utxo, fbv))
                    byid[fnode.id] = fnode
                    tg.nodes.append(fnode)
                    net.clock.t = max(net.clock.t, fbv.time + 5)
                    blk, label, expect = fblk, 'valid-after-clock-caught-up', 'accept'
                    r = 2.0
                elif trial % 2 == 1 and step < 3:
                    # context: a bulk download is in progress -- valid blocks arrive as replies to the node's own requests,
                    # are applied without in-state validation and wait in the write buffer
                    r = 0.0
                    irt = 77
                elif rolled_back and rng.random() < 0.5:
                    # blocks the node dropped again (roll-back of an unfinished bulk download) are delivered once more
                    nn = min(rolled_back, key=lambda x: x.height)
                    blk, label, expect = nn.block, 'valid-redelivered', 'accept'
                    r = 2.0
                if r == 2.0:
                    pass
                elif r < 0.30:
                    # valid block on the head, possibly mining a pending transaction
                    inc = [t for t in cm.transaction_pool if rng.random() < 0.4]
                    fees = 0
                    for t in inc:
                        tv = spec.TxView(t)
                        fees += sum(head.utxo[(h, i)][0] for h, i, _ in tv.inputs) - sum(v for v, _ in tv.outputs)
                    nn = tg.extend(head, txs=inc, fees=fees, dt=rng.choice([110, 130]))
                    byid[nn.id] = nn
                    blk, label, expect = nn.block, 'valid-extends-head', 'accept'
                elif r < 0.45:
                    hc = head.chain()
                    par = hc[max(1, len(hc) - rng.choice([2, 3]))]
                    cand = [x for x in byid.values() if x.id in known_ids and x not in hc and x.height >= par.height]
                    if cand and rng.random() < 0.6:
                        par = max(cand, key=lambda x: x.height)
                    nn = tg.extend(par, txs=[], fees=0, dt=rng.choice([115, 125]))
                    byid[nn.id] = nn
                    blk, label, expect = nn.block, 'valid-on-fork', 'accept'
                elif r < 0.55 and len(known_ids) > 1:
                    old = rng.choice([x for x in byid.values() if x.id in known_ids and x.parent is not None])
                    blk, label, expect = old.block, 'duplicate', 'noop'
                elif r < 0.62:
                    # orphan: child of a block the node never saw
                    hidden = tg.extend(head, txs=[], fees=0, dt=119)
                    child = tg.extend(hidden, txs=[], fees=0, dt=rng.choice([110, 130]))
                    tg.nodes.remove(hidden)
                    tg.nodes.remove(child)
                    blk, label, expect = child.block, 'orphan', 'reject'
                else:
                    if not pending_mutants:
                        par = head if rng.random() < 0.7 else rng.choice([x for x in byid.values() if x.id in known_ids])
                        pending_mutants = [c for c in mutators.mutants(tg, par, rng) if c['expect'] == 'reject']
                        rng.shuffle(pending_mutants)
                        pending_mutants = pending_mutants[:6]
                        for c_ in pending_mutants:
                            c_['built_on'] = par        # the list outlives this step; `par` does not
                    if not pending_mutants:
                        continue
                    c = pending_mutants.pop()
                    blk, label, expect = c['block'], 'mutant:' + c['label'], 'reject'
                    net.clock.t = max(net.clock.t, c['now'])
                    if c['label'].startswith('time-31s'):
                        future_again.append((c['block'], c['built_on']))
                bv = spec.BlockView(blk)
                net.clock.t = max(net.clock.t, bv.time + 1)
                if label.startswith('mutant:time-31s'):
                    net.clock.t = bv.time - 31
                if not torn and step >= 3 and rng.random() < 0.25:
                    # fault injection: the connection of the FIRST peer is half torn down (its socket is no longer
                    # registered with the selector); relaying to it fails, which must not affect the other peers
                    try:
                        sn.lp().selector.unregister(sn.peers[0].sock.other)
                        torn.add(0)
                    except Exception:
                        pass
                before = sn.observe()
                v = sn.block_verdicts(blk)
                sender = rng.choice([i for i in range(len(sn.peers)) if i not in torn])
                if not sn.connected(sender):
                    alive = [i for i in range(len(sn.peers)) if sn.connected(i)]
                    if not alive:
                        break
                    sender = alive[0]
                conn_before = [sn.connected(i) for i in range(len(sn.peers))]
                pending_before = bool(before['buffer'])
                deliveries.append((label, irt))
                sn.deliver(sender, M.DataMessage(M.DATA_BLOCK, blk), irt=irt)
                after = sn.observe()
                msgs = sn.new_messages()
                events.append([0, idm(bv.id), idm(bv.prev), bv.height, v[0], v[1], v[2], irt == 0])
                if irt != 0:
                    label = 'bulk-download:' + label
                cs_now = sn.lp().chain_manager.coinstate
                for t in pool_txs:
                    if sn.tx_valid_at(t, cs_now):
                        pairs_valid.add((idm(after['head']), idm(spec.sha256d(t.serialize()))))
                entered = bv.id in after['blocks'] and bv.id not in before['blocks']
                rp = {'trial': trial, 'step': step, 'delivery': label, 'block': bv.bytes.hex()}
                ck.case((trial, step), kind='%s/%s' % (label.split(':')[0] if not label.startswith('mutant') else 'mutant', 'entered' if entered else 'not-entered'),
                        sample={'delivery': label, 'verdicts(itself,apply,instate)': v, 'entered': entered,
                                'rows_delta': len(after['rows']) - len(before['rows']), 'buffer': len(after['buffer'])}
                        if len(ck.samples) < 5 and (label.startswith('mutant') or step < 2) else None)
                relays = [sum(1 for (k, i, irt) in msgs[p] if k == 'block' and i == bv.id and irt == 0)
                          for p in range(len(sn.peers))]
                fully_valid = v[0] and v[1] and v[2] and bv.prev in before['blocks'] and bv.id not in before['blocks']
                if entered and not fully_valid:
                    ck.violation('invalid-block-entered-state', 'a delivered block (%s) that does not pass full validation '
                                 'became part of the chain state' % label, rp)
                if entered and irt != 0:
                    pass          # a reply during bulk download: applied, buffered, neither validated nor relayed (node model)
                elif entered:
                    if bv.id not in after['rows'] or after['buffer']:
                        ck.violation('accepted-block-not-stored', 'an accepted block is not in the block store after the '
                                     'delivery (rows/buffer)', rp)
                    want = 1 if after['head'] == bv.id else 0
                    for p in range(len(sn.peers)):
                        if p in torn:
                            continue
                        if conn_before[p] and sn.connected(p) and relays[p] != want:
                            ck.violation('relay-count', 'accepted block relayed %d times to a connected peer, expected %d '
                                         '(new head: %s)' % (relays[p], want, after['head'] == bv.id), rp)
                            break
                else:
                    if any(relays):
                        ck.violation('relay-of-unaccepted', 'a block that did not enter the state was relayed', rp)
                    changed = [k for k in ('blocks', 'head', 'pool', 'rows', 'buffer') if before[k] != after[k]]
                    if pending_before:
                        # unvalidated blocks of an unfinished bulk download were pending: a failed validation rolls the node
                        # back to its last validated state (compared with the node model, not with this oracle)
                        changed = [k for k in changed if k in ('rows',)]
                    if changed:
                        ck.violation('rejected-leaves-trace:' + ','.join(changed),
                                     'a delivery that was not accepted (%s) changed %s' % (label, ', '.join(changed)), rp)
                if expect == 'accept' and not entered and fully_valid:
                    ck.violation('valid-block-not-accepted', 'a fully valid delivered block did not enter the state', rp)
                for p in range(len(sn.peers)):
                    if p != sender and p not in torn and conn_before[p] and not sn.connected(p):
                        ck.violation('bystander-dropped', 'a delivery from one peer closed another connection', rp)
                if sn.node.escaped:
                    ck.violation('exception-escaped', 'an exception escaped the event handler: %s' % sn.node.escaped[0][1], rp)
                    break
                observed.append([sorted(idm(x) for x in after['blocks']), idm(after['head']), [idm(x) for x in after['pool']],
                                 [idm(x) for x in after['buffer']], sorted(idm(x) for x in after['rows'])])
            # at the end: one more valid relayed block on the head (completes any unfinished bulk download: validated,
            # hence flushed); then every block of the chain state has its row in the store and the store can be read back
            cm = sn.lp().chain_manager
            head = byid.get(bytes(cm.coinstate.current_chain_hash))
            if head is not None and not sn.node.escaped:
                last = tg.extend(head, txs=[], fees=0, dt=120)
                byid[last.id] = last
                net.clock.t = max(net.clock.t, last.view.time + 1)
                alive = [i for i in range(len(sn.peers)) if i not in torn and sn.connected(i)]
                if alive:
                    v = sn.block_verdicts(last.block)
                    sn.deliver(alive[0], M.DataMessage(M.DATA_BLOCK, last.block))
                    aft = sn.observe()
                    sn.new_messages()
                    events.append([0, idm(last.id), idm(last.view.prev), last.height, v[0], v[1], v[2], True])
                    for t in pool_txs:
                        if sn.tx_valid_at(t, sn.lp().chain_manager.coinstate):
                            pairs_valid.add((idm(aft['head']), idm(spec.sha256d(t.serialize()))))
                    observed.append([sorted(idm(x) for x in aft['blocks']), idm(aft['head']), [idm(x) for x in aft['pool']],
                                     [idm(x) for x in aft['buffer']], sorted(idm(x) for x in aft['rows'])])
                    if last.id not in aft['blocks'] or last.id not in aft['rows'] or aft['buffer']:
                        ck.violation('later-block-not-stored', 'after the run a further valid relayed block on the head is %s'
                                     % ('not accepted' if last.id not in aft['blocks'] else 'accepted but not stored (%d blocks '
                                        'left in the write buffer)' % len(aft['buffer'])), {'trial': trial, 'final': True})
            sn.node.activate()
            fin = sn.observe()
            if not fin['blocks'] <= fin['rows'] | {main[0].id}:
                ck.violation('state-block-missing-from-store', 'a block of the chain state has no row in the block store at '
                             'the end of the run (%d missing)' % len(fin['blocks'] - fin['rows']), {'trial': trial})
        req = ('node_run', [], [10000, [list(p) for p in sorted(pairs_valid)], [], init_state, events])
        return req, observed


def rollback_scenario(ck, trial, tier):
    """scripted: replies of a bulk download wait unvalidated in the write buffer; a relayed block that passes the stand-alone
    checks but fails in-state validation arrives (the node rolls back to its last validated state); the same good blocks are
    delivered again, then one more: everything the chain state holds at the end is in the store, and a restarted node reads
    the same chain back"""
    import contextlib
    import io
    from skepticoin.networking import messages as M
    from skepticoin import blockstore
    rng = ck.rng
    keys = chaingen.Keys()
    with chaingen.Env(period=50) as env:
        tg = chaingen.TreeGen(env, keys, rng)
        n = tg.genesis
        for _ in range(3):
            n = tg.extend(n, txs=[], fees=0, dt=100)
        main = list(tg.nodes)
        with simnet.Net(seed=rng.getrandbits(30), t0=main[-1].view.time + 5000) as net:
            sn = nodeharness.SingleNode(net, chaingen.impl_state_from(main), [m.block for m in main[1:]], npeers=2)
            sn.new_messages()
            xs = []
            for _ in range(3):
                n = tg.extend(n, txs=[], fees=0, dt=100)
                xs.append(n)
            for x in xs:                                   # replies to the node's own requests
                sn.deliver(0, M.DataMessage(M.DATA_BLOCK, x.block), irt=55)
            bad = [c for c in mutators.mutants(tg, xs[-1] if trial % 2 else main[-1], rng, tags=('C02',))
                   if c['label'] == 'reward-plus-one']
            if bad:
                sn.deliver(1, M.DataMessage(M.DATA_BLOCK, bad[0]['block']))     # relayed, fails in-state validation
            mid = sn.observe()
            for x in xs:                                   # the good blocks again (relayed this time, or as replies)
                sn.deliver(1, M.DataMessage(M.DATA_BLOCK, x.block), irt=0 if trial % 4 < 2 else 56)
            last = tg.extend(xs[-1], txs=[], fees=0, dt=100)
            sn.deliver(0, M.DataMessage(M.DATA_BLOCK, last.block))
            fin = sn.observe()
            rp = {'scripted': 'bulk-download replies, rejected relayed block, re-delivery, one more block', 'trial': trial,
                  'blocks_after_rejection': len(mid['blocks'])}
            ck.case(('rollback', trial), kind='bulk-download/rejected/redelivered',
                    sample={'state_blocks': len(fin['blocks']), 'rows': len(fin['rows']), 'buffer': len(fin['buffer'])} if trial < 2 else None)
            if sn.node.escaped:
                ck.violation('exception-escaped', 'an exception escaped the event handler: %s' % sn.node.escaped[0][1], rp)
            want = set(m.id for m in main) | set(x.id for x in xs) | {last.id}
            if fin['blocks'] != want:
                ck.violation('valid-block-not-accepted', 'after the re-delivery the chain state holds %d of the %d valid blocks'
                             % (len(fin['blocks'] & want), len(want)), rp)
            if not fin['blocks'] <= fin['rows'] | {main[0].id} or fin['buffer']:
                ck.violation('state-block-missing-from-store', 'after a rejected block during a bulk download and the re-delivery '
                             'of the good blocks, %d blocks of the chain state have no row in the block store (%d left in the '
                             'write buffer)' % (len(fin['blocks'] - fin['rows'] - {main[0].id}), len(fin['buffer'])), rp)
            else:
                sn.node.activate()
                with contextlib.redirect_stdout(io.StringIO()):
                    back = set(spec.sha256d(b.header.serialize()) for b in sn.node.store.read_blocks_from_disk())
                if back != fin['blocks']:
                    ck.violation('store-does-not-return-what-was-written', 'the store reads back %d blocks, the chain state '
                                 'holds %d' % (len(back), len(fin['blocks'])), rp)


def shared_address_scenario(ck, trial, tier):
    """two distinct peers share one IP address: the node dialled one of them (outgoing connection), the other one dialled the
    node (incoming connection).  A relayed block that becomes the head goes to BOTH, once each"""
    from skepticoin.networking import messages as M
    from skepticoin.networking.remote_peer import DisconnectedRemotePeer, OUTGOING
    rng = ck.rng
    keys = chaingen.Keys()
    with chaingen.Env(period=50) as env:
        tg = chaingen.TreeGen(env, keys, rng)
        n = tg.genesis
        for _ in range(3):
            n = tg.extend(n, txs=[], fees=0, dt=100)
        main = list(tg.nodes)
        with simnet.Net(seed=rng.getrandbits(30), t0=n.view.time + 5000) as net:
            sn = nodeharness.SingleNode(net, chaingen.impl_state_from(main), [m.block for m in main[1:]], npeers=1)
            shared = '10.4.4.4'
            srv = net.add_server(shared, 2412)
            sn.node.activate()
            sn.lp().start_outgoing_connection(DisconnectedRemotePeer(shared, 2412, OUTGOING, None, 0))
            srv.accept_pending()
            sn.node.step()
            sn.pump()
            out_conn = srv.live()[0]
            hello = nodeharness.frame(M.MessageHeader(0, 1, 0, 1).serialize() + sn.hello().serialize())
            out_conn.send(hello)
            sn.pump()
            inc = simnet.RawPeer(net, host=shared).connect(sn.node)
            sn.node.step()
            sn.pump()
            inc.send(nodeharness.frame(M.MessageHeader(0, 2, 0, 1).serialize() + M.HelloMessage(
                [M.SupportedVersion(0)], __import__('ipaddress').IPv6Address('::FFFF:10.0.0.1'), 2412,
                __import__('ipaddress').IPv6Address('0::0'), 2500, 778899, b'skv-test').serialize()))
            sn.pump()
            n_active = len(sn.lp().network_manager.get_active_peers())
            del out_conn.flight[:]
            inc.drain()
            inc.received = bytearray()
            nb = tg.extend(n, txs=[], fees=0, dt=100)
            sn.deliver(0, M.DataMessage(M.DATA_BLOCK, nb.block))

            def blocks_in(raw):
                return sum(1 for fr_ in nodeharness.split_frames(bytes(raw)) if nodeharness.classify(fr_)[:2] == ('block', nb.id))
            got_out = blocks_in(out_conn.flight)
            got_in = blocks_in(inc.drain())
            ck.case(('shared-address', trial), kind='relay/two-peers-one-address',
                    sample={'active_peers': n_active, 'relays_to_dialled_peer': got_out, 'relays_to_peer_that_dialled_us': got_in})
            if nb.id in sn.observe()['blocks'] and n_active >= 3 and (got_out != 1 or got_in != 1):
                ck.violation('relay-count', 'two peers share one address (one we dialled, one that dialled us): a block that became the '
                             'head was relayed %d time(s) to the first and %d time(s) to the second, expected once each'
                             % (got_out, got_in), {'scripted': 'shared address', 'trial': trial})


def run(tier, seed):
    ck = common.Check('C09', tier, seed)
    ck.rule = ('one real node with the real block store and three scripted peers; sequences of deliveries outside bulk '
               'download mixing valid blocks on the head (some mining pending transactions), valid blocks on forks incl. '
               'fork switches, duplicates, orphans and single-defect mutants of every kind the validator distinguishes '
               '(spend, value, header, evidence, structure); after EVERY delivery: chain state, store rows, write buffer, '
               'pool and every peer\'s inbox are checked against the clauses of the property and against the extracted '
               'node model; at the end the store is read back; non-trivial = distinct (scenario, step)')
    ck.trusted += ['extraction + OCaml driver', 'simnet', 'chain generator and mutators',
                   "validators' verdicts computed outside the handler on the prior state (NodeModel inputs)"]
    ck.assumptions += ['deliveries outside bulk download (in_response_to = 0); single network thread']
    r = ck.build(extract=True)
    reqs, obs = [], []
    for trial in range(8 if tier == 'quick' else 50):
        try:
            req, observed = scenario(ck, trial, tier)
        except Exception:
            import traceback
            tb = traceback.format_exc()
            if 'could not mine a block' in tb:
                ck.count('generator-gave-up(difficulty)')
                continue
            ck.disagree('scenario %d crashed: %s' % (trial, tb[-500:]), {'trial': trial})
            continue
        reqs.append(req)
        obs.append(observed)
    for tr_ in range(2 if tier == 'quick' else 6):
        try:
            shared_address_scenario(ck, tr_, tier)
        except Exception:
            import traceback
            tb = traceback.format_exc()
            if 'could not mine a block' not in tb:
                ck.disagree('shared-address scenario crashed: %s' % tb[-400:], {})
    for tr_ in range(4 if tier == 'quick' else 12):
        try:
            rollback_scenario(ck, tr_, tier)
        except Exception:
            import traceback
            tb = traceback.format_exc()
            if 'could not mine a block' not in tb:
                ck.disagree('rollback scenario crashed: %s' % tb[-400:], {})
    # the store is shared by the network thread (flush) and the miner thread (buffering a found block): a block buffered
    # while a flush is writing must still be stored
    try:
        import os
        import check_C08
        check_C08.thread_probe(ck, tier, ck.rng, chaingen.Keys(), os.getcwd())
    except Exception:
        import traceback
        ck.disagree('store thread probe crashed: %s' % traceback.format_exc()[-400:], {})
    if r.ok and reqs:
        outs = model.run_batch(reqs)
        for k, (o, observed) in enumerate(zip(outs, obs)):
            for j, (mstep, ob) in enumerate(zip(o, observed)):
                st = mstep[1]
                mobs = [sorted(st[0]), st[1], st[2], st[3], sorted(st[4])]
                if mobs != ob:
                    which = [n for n, a, b in zip(['blocks', 'head', 'pool', 'buffer', 'rows'], mobs, ob) if a != b]
                    ck.disagree('handle_block_received vs NodeModel: scenario %d step %d differs in %s' % (k, j, which),
                                {'trial': k, 'step': j, 'model': repr(mobs)[:300], 'impl': repr(ob)[:300]})
                    break
        ck.extra['traces_validated_against_impl'] = sum(len(x) for x in obs)
    return ck.finish()


def replay(path):
    d = json.load(open(path))
    print(json.dumps(d, indent=1)[:3000])
    print('re-run with: VERIF_SEED=%d ./check C09 --tier %s' % (d.get('seed', 0), d.get('tier', 'quick')))
    return 1
