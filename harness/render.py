"""Field-by-field rendering of the implementation's objects in the model's s-expression shape
(the classes' own __eq__ is not trusted: several ignore fields)."""
from io import BytesIO


def r_outref(r):
    return [bytes(r.hash), r.index]


def r_sig(s):
    from skepticoin import signing as S
    if type(s) is S.SignableEquivalent:
        return [0]
    if type(s) is S.CoinbaseData:
        return [1, s.height, bytes(s.signature)]
    if type(s) is S.SECP256k1Signature:
        return [2, bytes(s.signature)]
    raise TypeError('unknown signature class %r' % type(s))


def r_pk(pk):
    return bytes(pk.public_key)


def r_input(i):
    return [r_outref(i.output_reference), r_sig(i.signature)]


def r_output(o):
    return [o.value, r_pk(o.public_key)]


def r_tx(t):
    return [[r_input(i) for i in t.inputs], [r_output(o) for o in t.outputs]]


def r_evidence(e):
    return [bytes(e.summary_hash), bytes(e.chain_sample), bytes(e.block_hash)]


def r_summary(s):
    return [s.height, bytes(s.previous_block_hash), bytes(s.merkle_root_hash), s.timestamp, bytes(s.target), s.nonce]


def r_header(h):
    return [r_summary(h.summary), r_evidence(h.pow_evidence)]


def r_block(b):
    return [r_header(b.header), [r_tx(t) for t in b.transactions]]


def r_msg_header(h):
    return [h.timestamp, h.id, h.in_response_to, h.context]


def r_msg(m):
    from skepticoin.networking import messages as M
    from skepticoin import datatypes as D
    if type(m) is M.HelloMessage:
        return [0, m.your_ip_address.packed, m.your_port, m.my_ip_address.packed, m.my_port, m.nonce,
                bytes(m.user_agent), [v.version for v in m.supported_versions]]
    if type(m) is M.GetBlocksMessage:
        return [1, [bytes(h) for h in m.potential_start_hashes], bytes(m.stop_hash)]
    if type(m) is M.InventoryMessage:
        return [2, [[bytes(i.data_type), bytes(i.hash)] for i in m.items]]
    if type(m) is M.GetDataMessage:
        return [3, bytes(m.data_type), bytes(m.hash)]
    if type(m) is M.DataMessage:
        d = m.data
        if type(d) is D.Block:
            return [4, [0, r_block(d)]]
        if type(d) is D.BlockHeader:
            return [4, [1, r_header(d)]]
        if type(d) is D.Transaction:
            return [4, [2, r_tx(d)]]
        raise TypeError('data payload %r' % type(d))
    if type(m) is M.GetPeersMessage:
        return [5]
    if type(m) is M.PeersMessage:
        return [6, [[p.last_seen_at, p.ip_address.packed, p.port] for p in m.peers]]
    raise TypeError('unknown message %r' % type(m))


def impl_types():
    """name -> (decode(stream)->obj, encode(obj)->bytes, render(obj))"""
    from skepticoin import datatypes as D, signing as S, serialization as Z
    from skepticoin.networking import messages as M

    def vlq_enc(i):
        f = BytesIO()
        Z.stream_serialize_vlq(f, i)
        return f.getvalue()

    ser = lambda o: o.serialize()  # noqa
    return {
        'vlq': (Z.stream_deserialize_vlq, vlq_enc, lambda i: i),
        'outref': (D.OutputReference.stream_deserialize, ser, r_outref),
        'sig': (S.Signature.stream_deserialize, ser, r_sig),
        'pk': (S.PublicKey.stream_deserialize, ser, r_pk),
        'input': (D.Input.stream_deserialize, ser, r_input),
        'output': (D.Output.stream_deserialize, ser, r_output),
        'tx': (D.Transaction.stream_deserialize, ser, r_tx),
        'evidence': (D.PowEvidence.stream_deserialize, ser, r_evidence),
        'summary': (D.BlockSummary.stream_deserialize, ser, r_summary),
        'header': (D.BlockHeader.stream_deserialize, ser, r_header),
        'block': (D.Block.stream_deserialize, ser, r_block),
        'msg_header': (M.MessageHeader.stream_deserialize, ser, r_msg_header),
        'msg': (M.Message.stream_deserialize, ser, r_msg),
    }


CONSENSUS_TYPES = ['vlq', 'outref', 'sig', 'pk', 'input', 'output', 'tx', 'evidence', 'summary', 'header', 'block']
WIRE_TYPES = ['msg_header', 'msg']
