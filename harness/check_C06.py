"""C06 -- tamper evidence: every single-bit flip and every truncation of a valid block's encoding either fails to
decode or is rejected by full validation against the same chain.
Theorems: props/Properties_C06.v (value level, under explicit injectivity premises).  Byte level: exhaustive per
sampled block on implementation and extracted model."""
import json
import multiprocessing

import chaingen
import common
import consensus_check
import model
import spec


def impl_try(cs, bs, now):
    """-> (code, block or None): 8 undecodable, [1] accepted, [0,k] rejected"""
    from skepticoin.datatypes import Block
    try:
        blk = Block.deserialize(bs)
    except Exception:
        return 8, None
    v, _ = consensus_check.impl_verdict(cs, blk, now)
    return v, blk


def variants(bs, step=1):
    for i in range(0, len(bs) * 8, step):
        b = bytearray(bs)
        b[i // 8] ^= 1 << (7 - i % 8)
        yield ('flip', i, bytes(b))
    for n in range(0, len(bs)):
        yield ('trunc', n, bs[:n])


def run(tier, seed):
    ck = common.Check('C06', tier, seed)
    ck.rule = ('for each sampled valid block (with 0-3 signed transactions, on generated chains incl. fork tips and '
               'retarget boundaries) EVERY single-bit flip and EVERY truncation point of its encoding (exhaustive per '
               'block) is decoded and fully validated against the chain it was built on, by the implementation and by '
               'the extracted model; acceptance of any altered encoding is a violation; non-trivial = distinct altered '
               'byte string that still decodes')
    ck.trusted += ['extraction + OCaml driver', 'chain generator (harness/spec.py)', 'test parameters (horizon -1, short '
                   'retarget period, sha256 stand-in for scrypt)']
    ck.assumptions += ['value-level theorems assume sha256d / scrypt / blake2 injective on the stated domains (explicit '
                       'premises); flips on VLQ continuation bits and truncations inside variable-length regions are '
                       'covered by the exhaustive enumeration per sampled block, not by a theorem']
    r = ck.build(extract=True)
    from skepticoin.coinstate import CoinState
    rng = ck.rng
    keys = chaingen.Keys()
    nblocks = 5 if tier == 'quick' else 40
    if common.REDUCED:
        nblocks = 2
    reqs = []
    meta = []
    done = 0
    trial = 0
    while done < nblocks and trial < 200:
        trial += 1
        with chaingen.Env(period=rng.choice([3, 4])) as env:
            tg = chaingen.TreeGen(env, keys, rng)
            tg.grow(rng.choice([6, 8]), fork_p=0.3)
            nodes = tg.nodes
            cs = chaingen.impl_state_from(nodes)
            # candidates: fresh valid blocks on some parents
            for par in rng.sample(nodes, min(len(nodes), 2)):
                if done >= nblocks:
                    break
                txs, fees = tg.random_txs(par, maxtx=3)
                if done % 2 == 0 and not txs:
                    continue
                ts = par.view.time + 120
                cb = chaingen.coinbase(par.height + 1, env.subsidy(par.height + 1) + fees, keys.pks[0], b'c06')
                if done == 1:
                    # a reward transaction WITHOUT outputs and nothing else: the encoding ends in a zero count
                    txs, fees = [], 0
                    cb = chaingen.coinbase(par.height + 1, 0, keys.pks[0], b'c06')
                    cb.outputs = []
                blk = chaingen.assemble(env, par, [cb] + txs, ts)
                bs = blk.serialize()
                v0, _ = consensus_check.impl_verdict(cs, blk, ts)
                if v0 != [1]:
                    ck.disagree('generated valid block rejected by the implementation: %s' % v0, {})
                    continue
                done += 1
                orig_id = spec.sha256d(blk.header.serialize())
                cs_with = cs.add_block(blk, ts)      # the same chain once it already holds the genuine block
                # two of the enumerated blocks sit next to a checkpoint horizon (installed for the rest of this block's
                # enumeration): #3 is the FIRST block above the last checkpoint (its parent is the checkpointed one), #4 IS
                # at a checkpointed height and carries the checkpointed id -- its content is still what its header commits to
                import contextlib as _cl
                from skepticoin.humans import human as _human
                _stack = _cl.ExitStack()
                env_params = env
                if done in (3, 4) and par.height >= 1:
                    pc = par.chain()
                    if done == 3:
                        hzk = par.height
                        kn = {0: _human(pc[0].id), hzk: _human(pc[hzk].id)}
                    else:
                        hzk = par.height + 1
                        kn = {0: _human(pc[0].id), hzk: _human(orig_id)}
                    env_params = _stack.enter_context(chaingen.Env(period=env.period, block_span=env.span // env.period,
                                                                   interval=env.interval, hz=hzk, known=kn))
                    ck.count('block-enumerated-next-to-checkpoint-horizon/%s' % ('first-above' if done == 3 else 'at-checkpoint'))
                ops = []
                impl_codes = []
                chain_views = [m.view for m in par.chain()]
                n_dec = 0
                for kind, pos, alt in variants(bs):
                    code, ablk = impl_try(cs, alt, ts)
                    impl_codes.append(code)
                    local = []
                    if ablk is not None:
                        n_dec += 1
                        try:
                            av = spec.BlockView(ablk)
                            local = spec.full_oracle(chain_views, par.utxo, av, ts, env.period, env.span, env.scrypt)
                        except Exception:
                            local = []
                        ck.case((orig_id, kind, pos), kind='%s/%s' % (kind, 'accepted' if code == [1] else 'rejected'),
                                sample={'block_len': len(bs), 'alteration': kind, 'position': pos, 'verdict': code}
                                if len(ck.samples) < 4 and kind == 'flip' and pos % 977 == 0 else None)
                        if code != [1] and spec.sha256d(ablk.header.serialize()) == orig_id:
                            # same header, different content: must also be refused by a chain that already holds the
                            # genuine block (no second content under the same id)
                            v2, _ = consensus_check.impl_verdict(cs_with, ablk, ts)
                            ck.count('same-header-variant-offered-to-chain-holding-genuine-block')
                            if v2 == [1]:
                                ck.violation('altered-block-accepted-same-id-when-genuine-known',
                                             'a block altered by a %s at %s %d (same header, different content) is accepted by '
                                             'full validation on the chain that already holds the genuine block'
                                             % (kind, 'bit' if kind == 'flip' else 'length', pos),
                                             {'label': 'altered', 'prefix': [m.block.serialize().hex() for m in nodes] + [bs.hex()],
                                              'block': alt.hex(), 'now': ts, 'period': env.period, 'span': env.span,
                                              'interval': env.interval})
                        if code == [1]:
                            same_id = (spec.sha256d(ablk.header.serialize()) == orig_id)
                            ck.violation('altered-block-accepted' + ('-same-id' if same_id else ''),
                                         'a block altered by a %s at %s %d is accepted by full validation%s'
                                         % (kind, 'bit' if kind == 'flip' else 'length', pos,
                                            ' under the SAME id with different content' if same_id else ''),
                                         {'label': 'altered', 'prefix': [m.block.serialize().hex() for m in nodes],
                                          'block': alt.hex(), 'now': ts, 'period': env.period, 'span': env.span,
                                          'interval': env.interval, 'hz': env_params.hz, 'known': env_params.known})
                    else:
                        ck.evaluations += 1
                        ck.count('%s/undecodable' % kind)
                    ltbl = [[k.encode(), i, o] for (k, i, o) in local]
                    ops.append([6, alt, ts, ltbl])
                # a resource failure in the middle of validating an altered block (the hash function runs out of memory
                # once) must not change the verdict of the same bytes offered again: genuine block validated last, then a
                # sample of header alterations, each offered while scrypt fails once and then once more
                import sys as _sys
                genuine_ok, _ = consensus_check.impl_verdict(cs, blk, ts)
                sb_len = len(spec.BlockView(blk).summary_bytes)
                nonce_at = 1 + sb_len - 4                    # header = version byte, summary (nonce last), evidence
                time_at = nonce_at - 32 - 4
                hdr_bits = [nonce_at * 8 + i for i in range(32)] + [time_at * 8 + 24 + i for i in range(8)]
                for pos in hdr_bits:
                    b_ = bytearray(bs)
                    b_[pos // 8] ^= 1 << (7 - pos % 8)
                    alt = bytes(b_)
                    consensus_check.impl_verdict(cs, blk, ts)             # the genuine block is what was hashed last
                    patched = []
                    state = {'failed': False}
                    for mn, mod in list(_sys.modules.items()):
                        if (mn == 'skepticoin' or mn.startswith('skepticoin.')) and mod is not None and 'scrypt' in getattr(mod, '__dict__', {}):
                            orig_s = mod.__dict__['scrypt']

                            def failing(*a, _o=orig_s, **kw):
                                if not state['failed']:
                                    state['failed'] = True
                                    raise MemoryError('injected')
                                return _o(*a, **kw)
                            patched.append((mod, orig_s))
                            mod.scrypt = failing
                    try:
                        c1, _b1 = impl_try(cs, alt, ts)
                    finally:
                        for mod, o_ in patched:
                            mod.scrypt = o_
                    c2, ablk2 = impl_try(cs, alt, ts)
                    ck.count('alteration-offered-again-after-failed-hash')
                    if c2 == [1]:
                        ck.violation('altered-block-accepted-after-failed-attempt', 'a block altered by a flip at bit %d is accepted '
                                     'when it is offered again after a first validation attempt was interrupted by a '
                                     'MemoryError in the hash function' % pos,
                                     {'label': 'altered', 'prefix': [m.block.serialize().hex() for m in nodes], 'block': alt.hex(),
                                      'now': ts, 'period': env.period, 'span': env.span, 'interval': env.interval,
                                      'needs': 'genuine block validated, then this block offered while scrypt raises once, then again'})
                        break
                ck.count('altered-encodings-that-decode', n_dec)
                tbl = []
                for nd in nodes:
                    tbl.append(('sha256d', nd.view.header_bytes, nd.id))
                    for t in nd.view.txs:
                        tbl.append(('sha256d', t.bytes, t.id))
                reqs.append(('chain', tbl, [env_params.params_sx(), [[0, nd.block.serialize()] for nd in nodes] + ops, 0]))
                _stack.close()
                meta.append((impl_codes, orig_id, len(nodes)))
    ck.extra['exhaustive'] = True
    ck.extra['blocks_enumerated'] = done
    if r.ok and reqs:
        with multiprocessing.Pool(min(8, len(reqs))) as pool:
            outs = pool.map(_run_one, reqs)
        for (codes, oid, npre), o in zip(meta, outs):
            got = o[0][npre:]
            norm = [c if c == 8 else c for c in codes]
            mism = [i for i, (a, b) in enumerate(zip(norm, got)) if a != b]
            if mism:
                ck.disagree('Block.deserialize + add_block vs model on altered encodings of block %s: %d of %d differ '
                            '(first: variant #%d impl %s model %s)' % (oid.hex()[:16], len(mism), len(codes), mism[0],
                                                                       norm[mism[0]], got[mism[0]]), {'block_id': oid.hex()})
        ck.extra['traces_validated_against_impl'] = sum(len(m[0]) for m in meta)
    return ck.finish()


def _run_one(req):
    return model.run_batch([req])[0]


def replay(path):
    d = json.load(open(path))
    rp = d.get('replay', {})
    if 'block' in rp:
        v = consensus_check.replay_case(rp)
        print('altered block -> implementation verdict', v, '(1 = accepted)')
        return 1 if v[0] == 1 else 0
    print(json.dumps(d, indent=1)[:2000])
    return 1
