"""C07 -- canonical identity.  Theorems: props/Properties_C07.v (round trip, canonicity, id = hash of canonical
encoding, over the model codecs).  Tie: every decoder/encoder of the implementation against the extracted model on
generated values and byte strings.  Search oracle: the property's own statement evaluated on the implementation."""
import hashlib
import json
from io import BytesIO

import common
import gen
import model
import render


def sha256d(b):
    return hashlib.sha256(hashlib.sha256(b).digest()).digest()


def impl_decode(types, tname, bs):
    dec, enc, rend = types[tname]
    f = BytesIO(bs)
    try:
        obj = dec(f)
    except Exception as e:  # any exception = the decoder refuses
        return None, type(e).__name__
    rest = f.read()
    try:
        reenc = enc(obj)
    except Exception as e:
        return ('noreenc', type(e).__name__), None
    out = [1, rend(obj), reenc, rest]
    if tname == 'tx':
        out += [obj.hash(), sha256d(reenc)]
    elif tname == 'header':
        out += [obj.hash()]
    elif tname == 'block':
        out += [obj.hash(), sha256d(obj.header.serialize())]
    return out, obj


def oracle_table_for(tname, bs, res):
    """sha256d entries the model will ask for: consumed bytes and canonical re-encoding (computed with hashlib)"""
    if tname not in ('tx', 'header', 'block') or res is None or res[0] != 1:
        return []
    ents = set()
    reenc, rest = res[2], res[3]
    consumed = bs[:len(bs) - len(rest)]
    if tname == 'tx':
        ents.add(consumed)
        ents.add(reenc)
    elif tname == 'header':
        ents.add(reenc)
    else:
        # header part of the consumed bytes and of the canonical encoding
        from skepticoin.datatypes import BlockHeader
        for src in (bs, reenc):
            f = BytesIO(src)
            try:
                BlockHeader.stream_deserialize(f)
                ents.add(src[:f.tell()])
            except Exception:
                pass
        try:
            h = BlockHeader.deserialize(reenc)
            ents.add(h.serialize())
        except Exception:
            pass
    return [('sha256d', e, sha256d(e)) for e in ents]


def property_oracle(ck, tname, bs, res, obj, origin):
    """the statement of C07 on the implementation, independent of the model"""
    if res is None:
        return
    if res[0] == 'noreenc':
        if tname in render.CONSENSUS_TYPES:
            ck.violation('decoded-value-not-encodable', '%s decoder returns a value its encoder refuses' % tname,
                         {'type': tname, 'bytes': bs.hex(), 'origin': origin})
        return
    reenc, rest = res[2], res[3]
    if tname in render.CONSENSUS_TYPES:
        if reenc + rest != bs:
            sig = 'non-canonical-vlq' if (len(reenc) + len(rest) < len(bs) or tname == 'vlq') else 'non-canonical-encoding'
            ck.violation(sig, '%s: accepted byte string is not the canonical encoding of the value it decodes to '
                         '(a second accepted encoding of the same value)' % tname,
                         {'type': tname, 'bytes': bs.hex(), 'reencoded': reenc.hex(), 'rest': rest.hex(),
                          'origin': origin})
        if tname == 'tx' and res[4] != res[5]:
            ck.violation('tx-id-not-hash-of-canonical-encoding', 'transaction id assigned at decode time differs from '
                         'sha256d(canonical encoding)', {'type': tname, 'bytes': bs.hex(), 'id': res[4].hex(),
                                                         'canonical_id': res[5].hex(), 'origin': origin})
        if tname == 'block' and res[4] != res[5]:
            ck.violation('block-id-not-hash-of-canonical-header', 'block id assigned at decode time differs from '
                         'sha256d(canonical header encoding)', {'type': tname, 'bytes': bs.hex(), 'id': res[4].hex(),
                                                                'canonical_id': res[5].hex(), 'origin': origin})


def run(tier, seed):
    ck = common.Check('C07', tier, seed)
    ck.rule = ('per type (11 consensus, 2 wire = header + 7 messages): random well-formed values encoded by the '
               'implementation (boundary widths, empty/long lists, 0..255-byte coinbase data), each also with trailing '
               'data and 8 byte-level mutations (bit flip, truncation, inserted 0x80 = non-minimal VLQ, set byte, '
               'duplicated slice, deleted byte); VLQ: all byte strings of length <= 2 (thorough: <= 3); every case '
               'decoded+re-encoded by implementation and extracted model and compared field by field; non-trivial = '
               'distinct (type, bytes)')
    ck.trusted += ['extraction (ExtrOcamlBasic only) + generic OCaml s-expression driver /verif/ocaml/driver.ml',
                   'Python renderers harness/render.py', 'sha256d modelled as an oracle (transcript from hashlib)']
    ck.assumptions += ['sha256d is a function (no collision assumption is needed for C07)',
                       'wire messages: round trip only (decoders ignore version/reserved bytes by design)']
    r = ck.build(extract=True)
    types = render.impl_types()
    nvals = 60 if tier == 'quick' else 600
    if common.REDUCED:
        nvals = 15
    nmut = 8 if tier == 'quick' else 16
    cases = []   # (tname, bs, origin)
    rng = ck.rng
    for tname in render.CONSENSUS_TYPES + render.WIRE_TYPES:
        g = gen.GENERATORS[tname]
        dec, enc, rend = types[tname]
        n = nvals if tname not in ('block', 'msg') else nvals // 2
        for _ in range(n):
            x = g(rng)
            try:
                bs = enc(x)
            except Exception as e:
                ck.count('gen-unencodable-' + type(e).__name__)
                continue
            cases.append((tname, bs, 'valid'))
            # round trip on the implementation (property oracle a)
            f = BytesIO(bs)
            try:
                y = dec(f)
                if rend(y) != rend(x) or f.read() != b'':
                    ck.violation('roundtrip', '%s does not survive encode-then-decode' % tname,
                                 {'type': tname, 'bytes': bs.hex(), 'origin': 'roundtrip'})
            except Exception as e:
                ck.violation('roundtrip', '%s: own encoding refused by decoder (%s)' % (tname, type(e).__name__),
                             {'type': tname, 'bytes': bs.hex(), 'origin': 'roundtrip'})
            if rng.random() < 0.3:
                cases.append((tname, bs + gen.rb(rng, rng.randrange(1, 5)), 'valid+trailing'))
            for kind, m in gen.mutations(rng, bs, nmut):
                cases.append((tname, m, kind))
        for _ in range(nvals // 4):
            cases.append((tname, gen.rb(rng, rng.randrange(0, 120)), 'random'))
    # ---- boundary sizes of every list the wire protocol carries (round trip on the implementation; too long for the
    #      per-case model comparison)
    from ipaddress import IPv6Address
    from skepticoin.networking import messages as M
    for nel in (999, 1000, 1001, 1500, 2049):
        big = [('peers', M.PeersMessage([M.Peer(7, IPv6Address('::FFFF:10.%d.%d.%d' % (i >> 16 & 255, i >> 8 & 255, i & 255)), 2412) for i in range(nel)])),
               ('inventory', M.InventoryMessage([M.InventoryItem(M.DATA_BLOCK, i.to_bytes(32, 'big')) for i in range(nel)])),
               ('get-blocks', M.GetBlocksMessage([i.to_bytes(32, 'big') for i in range(nel)], b'\x09' * 32))]
        for nm, msg in big:
            try:
                bs = msg.serialize()
                back = M.Message.stream_deserialize(BytesIO(bs))
                same = render.r_msg(back) == render.r_msg(msg) and back.serialize() == bs
            except Exception as e:
                same = False
            ck.case(('big', nm, nel), kind='wire-list/%s/%d' % (nm, nel))
            if not same:
                ck.violation('roundtrip', 'a %s message with %d elements does not survive encode-then-decode' % (nm, nel),
                             {'type': 'msg', 'origin': 'big-list', 'message': nm, 'elements': nel})
    # ---- identity follows content: the id of an in-memory object is the hash of what it encodes to NOW, also after the
    #      id was read once and the object was altered (signatures filled in, an output appended, reward data rolled)
    from skepticoin.datatypes import Output
    from skepticoin.signing import SECP256k1PublicKey, SECP256k1Signature
    for k in range(20 if tier == 'quick' else 200):
        t = gen.g_tx(rng, nin=rng.choice([1, 2]), nout=rng.choice([1, 2]))
        ok0 = t.hash() == sha256d(t.serialize())
        repr(t)
        step = rng.choice(['append-output', 'rebind-outputs', 'replace-signature', 'change-value'])
        try:
            if step == 'append-output':
                t.outputs.append(Output(5, SECP256k1PublicKey(gen.rb(rng, 64))))
            elif step == 'rebind-outputs':
                t.outputs = [Output(6, SECP256k1PublicKey(gen.rb(rng, 64)))]
            elif step == 'replace-signature':
                t.inputs[0].signature = SECP256k1Signature(gen.rb(rng, 64))
            else:
                t.outputs[0].value = t.outputs[0].value ^ 1
            ok1 = t.hash() == sha256d(t.serialize())
        except Exception as e:
            ok0, ok1 = True, True          # an object that refuses the alteration is fine
        ck.case(('identity-after', k), kind='id-after-' + step)
        if not (ok0 and ok1):
            ck.violation('id-not-hash-of-current-encoding', 'a transaction object whose id was read once and that was then '
                         'altered in place (%s) reports an id that is not the double SHA-256 of its encoding' % step,
                         {'type': 'tx', 'origin': 'identity-after-' + step})
    # ---- signing: an unsigned transaction that arrived as bytes (placeholders where signatures go) is signed by the wallet;
    #      the signed transaction's id is the hash of ITS encoding, and the unsigned object is what it was
    try:
        import chaingen
        from skepticoin.datatypes import Transaction as _T, OutputReference as _OR, Output as _O
        from skepticoin.signing import SECP256k1PublicKey as _PK
        from skepticoin.wallet import Wallet as _W, sign_transaction as _sign
        kk = chaingen.Keys()
        wl = _W({pk: sk.to_string() for pk, sk in kk.by_pk.items()}, [], {pk: 'a' for pk in kk.pks})
        for k in range(6 if tier == 'quick' else 60):
            nin = rng.choice([1, 2, 3])
            refs = [(gen.rb(rng, 32), rng.randrange(4)) for _ in range(nin)]
            unsigned = chaingen.mk_tx([(h_, i_, None) for h_, i_ in refs], [(rng.randrange(1, 10 ** 6), rng.choice(kk.pks))])
            raw_unsigned = unsigned.serialize()
            arrived = _T.deserialize(raw_unsigned)
            id_unsigned = arrived.hash()
            utx = {_OR(h_, i_): _O(100, _PK(rng.choice(kk.pks))) for h_, i_ in refs}
            signed = _sign(wl, utx, arrived)
            ck.case(('sign', k), kind='id-after-signing')
            if signed.hash() != sha256d(signed.serialize()):
                ck.violation('id-not-hash-of-current-encoding', 'the transaction returned by sign_transaction for an unsigned '
                             'transaction that had been decoded from bytes reports an id that is not the double SHA-256 of its '
                             'encoding', {'type': 'tx', 'origin': 'sign-decoded-unsigned', 'bytes': raw_unsigned.hex()})
            if arrived.serialize() != raw_unsigned or arrived.hash() != id_unsigned:
                ck.violation('signing-alters-its-argument', 'sign_transaction changed the unsigned transaction it was given',
                             {'type': 'tx', 'origin': 'sign-decoded-unsigned', 'bytes': raw_unsigned.hex()})
    except Exception as e:
        import traceback
        ck.disagree('signing identity probe raised %r' % (e,), {'trace': traceback.format_exc()[-400:]})
    # values that have no encoding must not get one: an input whose signature slot is empty (None) either refuses to
    # encode or, if it encodes, decodes back to the same value -- it must not share bytes (and id) with a different value
    try:
        from skepticoin.datatypes import Input as _In, OutputReference as _OR2, Transaction as _T2, Output as _O2
        from skepticoin.signing import SECP256k1PublicKey as _PK2
        empty_in = _In(_OR2(b'\x05' * 32, 1), None)
        t_un = _T2(inputs=[empty_in], outputs=[_O2(5, _PK2(b'\x06' * 64))])
        for what_, obj_, dec_ in (('input', empty_in, _In), ('transaction', t_un, _T2)):
            try:
                bs_ = obj_.serialize()
            except Exception:
                bs_ = None
            ck.case(('empty-signature', what_), kind='value-without-encoding/' + what_)
            if bs_ is not None:
                back_ = dec_.deserialize(bs_)
                sig_back = back_.signature if what_ == 'input' else back_.inputs[0].signature
                if sig_back is not None:
                    ck.violation('roundtrip', 'an %s whose signature slot is empty (None) encodes, and the bytes decode to a DIFFERENT '
                                 'value (signature %s): two values share one encoding and one id' % (what_, type(sig_back).__name__),
                                 {'type': 'tx', 'origin': 'empty-signature', 'bytes': bs_.hex()})
    except Exception as e:
        import traceback
        ck.disagree('empty-signature probe raised %r' % (e,), {'trace': traceback.format_exc()[-400:]})
    # heights at the top of the encodable range (the length prefix of a number grows to 10 octets at 2^63)
    from skepticoin.datatypes import BlockSummary as _BS
    for hgt in (2 ** 62 - 1, 2 ** 62, 2 ** 63 - 1, 2 ** 63, 2 ** 64 - 1, 2 ** 70):
        try:
            sm = _BS(hgt, b'\x01' * 32, b'\x02' * 32, 5, b'\x03' * 32, 7)
            bs_ = sm.serialize()
            back = _BS.deserialize(bs_)
            okh = back.height == hgt and back.serialize() == bs_
        except Exception as e:
            okh = False
        ck.case(('height', hgt), kind='summary-height-2^%d' % (hgt.bit_length() - 1))
        if not okh:
            ck.violation('roundtrip', 'a block summary with height %d does not survive encode-then-decode' % hgt,
                         {'type': 'summary', 'origin': 'big-height', 'height': hgt})
    # exhaustive short VLQ strings
    maxlen = 2 if tier == 'quick' else 3
    import itertools
    for L in range(0, maxlen + 1):
        for t in itertools.product(range(256), repeat=L):
            cases.append(('vlq', bytes(t), 'exhaustive'))
    ck.extra['exhaustive_vlq_strings_up_to_len'] = maxlen
    # corpus
    corpus = common.os.path.join(common.VERIF, 'corpus', 'C07.jsonl')
    if common.os.path.exists(corpus):
        for line in open(corpus):
            d = json.loads(line)
            cases.insert(0, (d['type'], bytes.fromhex(d['bytes']), 'corpus'))

    # run implementation
    reqs = []
    impl_results = []
    from skepticoin import datatypes as D
    whole = {'tx': D.Transaction, 'block': D.Block, 'header': D.BlockHeader}
    for tname, bs, origin in cases:
        res, obj = impl_decode(types, tname, bs)
        if tname in whole and res is not None and res[0] == 1:
            # the whole-buffer API (X.deserialize(bytes)) must assign the same id as the stream decoder
            try:
                o2 = whole[tname].deserialize(bs)
                want = sha256d(res[2]) if tname != 'block' else res[5]
                if o2.hash() != want:
                    ck.violation('%s-id-not-hash-of-canonical-encoding' % tname, '%s.deserialize(bytes) assigns an id that is '
                                 'not the double SHA-256 of the canonical encoding' % whole[tname].__name__,
                                 {'type': tname, 'bytes': bs.hex(), 'origin': origin + '/deserialize'})
            except Exception as e:
                ck.violation('deserialize-api-differs', '%s.deserialize refuses bytes the stream decoder accepts (%s)'
                             % (whole[tname].__name__, type(e).__name__), {'type': tname, 'bytes': bs.hex(), 'origin': origin})
        ok = res is not None and res[0] == 1
        ck.case((tname, bs), nontrivial=True, kind='%s:%s:%s' % (tname, origin if origin in ('valid', 'exhaustive', 'random') else 'mutated', 'accept' if ok else 'reject'),
                sample={'type': tname, 'bytes': bs.hex()[:120], 'origin': origin, 'accepted': ok}
                if (origin in ('insert80', 'valid') and len(ck.samples) < 6 and tname in ('tx', 'summary', 'vlq')) else None)
        property_oracle(ck, tname, bs, res, obj, origin)
        impl_results.append(res)
        reqs.append((tname, oracle_table_for(tname, bs, res), bs))
    # run model
    if r.ok:
        outs = model.run_batch(reqs)
        for (tname, bs, origin), ires, mres in zip(cases, impl_results, outs):
            if ires is None:
                iexp = [0]
            elif ires[0] == 'noreenc':
                iexp = ['noreenc']
            else:
                iexp = ires
            if mres != iexp:
                ck.disagree('%s decoder: model and implementation differ on %s input' % (tname, origin),
                            {'type': tname, 'bytes': bs.hex(), 'impl': repr(iexp)[:400], 'model': repr(mres)[:400]})
        ck.extra['traces_validated_against_impl'] = len(cases)
    return ck.finish()


def replay(path):
    d = json.load(open(path))
    rp = d.get('replay', {})
    types = render.impl_types()
    if 'bytes' in rp:
        bs = bytes.fromhex(rp['bytes'])
        res, obj = impl_decode(types, rp['type'], bs)
        print('type', rp['type'], 'input', bs.hex())
        print('implementation:', res)
        if res and res[0] == 1:
            print('re-encoding + rest == input ?', res[2] + res[3] == bs)
            return 0 if res[2] + res[3] == bs else 1
        return 0
    print(json.dumps(d, indent=1))
    return 1
