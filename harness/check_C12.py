"""C12 -- mining: assembled blocks are valid, pay subsidy plus fees, and are adopted.
Theorems: props/Properties_C12.v (adoption over the node model; reward/timestamp facts of the assembly model).
Tie: the real MinerWatcher handlers (object built without argv parsing, queues stubbed) driven in-process against a real
node in simnet; the assembled block compared with the extracted model's construct_block_for_mining; the found-block
handler compared with NodeModel.handle_mined.  Search oracle: the node's own full validation of the found block, the
reward amount, the timestamp, and the presence of the block in served state / store / peers' inboxes."""
import contextlib
import io
import json
import os

import chaingen
import common
import model
import nodeharness
import simnet
import spec


class FakeQueue:
    def __init__(self):
        self.items = []

    def put(self, x):
        self.items.append(x)


class Thread:
    def __init__(self, lp):
        self.local_peer = lp


def make_watcher(sn, wallet, clock):
    from skepticoin import mining as MI
    from decimal import Decimal
    from datetime import datetime
    import sys
    argv = sys.argv
    sys.argv = ['skepticoin-mine', '--quiet']
    try:
        mw = MI.MinerWatcher()          # the real constructor (argument parser, attribute initialisation)
    finally:
        sys.argv = argv
    mw.send_queues = [FakeQueue()]
    mw.start_time = datetime.fromtimestamp(clock() - 10_000_000)   # long before any clock value the scenario sets
    mw.wallet = wallet
    mw.coinstate = sn.lp().chain_manager.coinstate
    mw.network_thread = Thread(sn.lp())
    mw.mining_args = {}
    mw.log_silencer = []
    mw.public_key = wallet.get_annotated_public_key('reserved for potentially mined block')
    return mw


def scenario(ck, trial, tier, reqs_assembly, reqs_node, clock_offsets=(-500, -1, 0, 1, 30, 4000)):
    from skepticoin import mining as MI
    from skepticoin import consensus as C
    from skepticoin.wallet import Wallet
    rng = ck.rng
    keys = chaingen.Keys()
    with chaingen.Env(period=rng.choice([3, 4, 50])) as env:
        tg = chaingen.TreeGen(env, keys, rng)
        n = tg.genesis
        for _ in range(rng.choice([3, 5])):
            n = tg.extend(n, txs=[], fees=0)
        if rng.random() < 0.5:
            tg.extend(tg.nodes[-2], txs=[], fees=0)       # a competing tip of equal height: head stays first-seen
        main = list(tg.nodes)
        byid = {x.id: x for x in main}
        cs0 = chaingen.impl_state_from(main)
        idm = nodeharness.IdMap()
        with simnet.Net(seed=rng.getrandbits(30), t0=main[-1].view.time + 50) as net:
            old_time = getattr(MI, 'time', None)
            if old_time is not None:
                MI.time = net.clock
            try:
                sn = nodeharness.SingleNode(net, cs0, [m.block for m in main[1:]], npeers=3)
                sn.new_messages()
                torn = set()
                if trial % 2 == 1:
                    # fault injection: the FIRST peer's connection is half torn down (socket no longer registered with
                    # the selector); sending to it fails, which must not keep the found block from the other peers
                    try:
                        sn.lp().selector.unregister(sn.peers[0].sock.other)
                        torn.add(0)
                    except Exception:
                        pass
                wallet = Wallet({pk: sk.to_string() for pk, sk in keys.by_pk.items()}, list(keys.pks), {})
                with contextlib.redirect_stdout(io.StringIO()):
                    mw = make_watcher(sn, wallet, net.clock)
                rounds = 3 if tier == 'quick' else 6
                for rnd in range(rounds):
                    cm = sn.lp().chain_manager
                    head = byid[bytes(cm.coinstate.current_chain_hash)]
                    # pool: 0..3 transactions with assorted fees
                    avail = sorted(tg.spendable(head))
                    rng.shuffle(avail)
                    for a in avail[:rng.choice([0, 1, 2, 3])]:
                        fee = rng.choice([0, 1, 1000, a[1][0] // 3])
                        if a[1][0] - fee < 1:
                            continue
                        t = chaingen.signed_tx(keys, head.utxo, [a[0]], [(a[1][0] - fee, rng.choice(keys.pks))])
                        sn.node.activate()
                        cm.add_transaction_to_pool(t)
                    # clock before / at / after the head's timestamp
                    net.clock.t = head.view.time + rng.choice(list(clock_offsets))
                    pool = list(cm.transaction_pool)
                    before = sn.observe()
                    cs_before = cm.coinstate
                    found = None
                    nonce = rng.getrandbits(20)
                    miner_pk = mw.public_key
                    peer_block_round = (rnd % 2 == 1 and net.clock() >= head.view.time)
                    for attempt in range(20000):
                        if attempt % 25 == 24:
                            net.clock.t += 1            # time passes while nonces are tried
                        if peer_block_round and attempt == 2:
                            # between two work requests a peer's valid block, stamped up to 29 s ahead of the local clock,
                            # becomes the head; every later candidate builds on it
                            from skepticoin.networking import messages as M
                            pts = max(head.view.time + 1, net.clock() + rng.choice([0, 10, 29]))
                            pb = tg.extend(head, txs=[], fees=0, dt=pts - head.view.time)
                            byid[pb.id] = pb
                            sn.deliver(1, M.DataMessage(M.DATA_BLOCK, pb.block))
                            if bytes(cm.coinstate.current_chain_hash) != pb.id:
                                ck.disagree('a valid peer block was not adopted as head', {'trial': trial, 'round': rnd})
                                return
                            head = pb
                            before = sn.observe()
                            cs_before = cm.coinstate
                            pool = list(cm.transaction_pool)
                            sn.new_messages()
                            ck.count('peer-block-adopted-between-work-requests')
                        sn.node.activate()
                        with contextlib.redirect_stdout(io.StringIO()):
                            mw.handle_request_scrypt_input_message(0, nonce)
                        typ, (summary, height) = mw.send_queues[0].items[-1]
                        txs = mw.mining_args[0][-1]
                        par = byid.get(bytes(summary.previous_block_hash))
                        served = bytes(cm.coinstate.current_chain_hash)
                        if par is None or par.id != served or not summary.timestamp > par.view.time:
                            ck.violation('candidate-not-on-served-head' if (par is None or par.id != served) else 'timestamp-not-after-parent',
                                         'a candidate handed to the workers has parent %s (served head %s) and timestamp %d; '
                                         "the parent's timestamp is %s" % (bytes(summary.previous_block_hash).hex()[:12], served.hex()[:12],
                                                                         summary.timestamp, par.view.time if par else '?'),
                                         {'trial': trial, 'round': rnd, 'attempt': attempt, 'peer_block_between_requests': peer_block_round})
                            return
                        sh = C.construct_summary_hash(summary, height)
                        # the candidate this nonce yields, assembled independently of the handler
                        ev = C.construct_pow_evidence_after_scrypt(sh, mw.coinstate, summary, height, txs)
                        from skepticoin.datatypes import Block, BlockHeader
                        cand = Block(BlockHeader(summary, ev), txs)
                        below = cand.hash() < cand.target
                        with contextlib.redirect_stdout(io.StringIO()):
                            try:
                                mw.handle_scrypt_output_message(0, sh)
                            except Exception as e:
                                if below and 'future' in str(e) and summary.timestamp > net.clock() + 30:
                                    ck.violation('candidate-in-future-when-clock-behind-head',
                                                 "with the node's clock %d s behind its head's timestamp the assembled "
                                                 'candidate (timestamp parent+1) is more than 30 s ahead of the clock and '
                                                 "fails the node's own validation; the found-block handler raises %s"
                                                 % (head.view.time - net.clock(), type(e).__name__),
                                                 {'trial': trial, 'round': rnd, 'clock_minus_parent': net.clock() - head.view.time})
                                else:
                                    ck.violation('found-block-handler-raises', 'the found-block handler raised %s: %s' %
                                                 (type(e).__name__, e), {'trial': trial, 'round': rnd})
                                return
                        sn.pump()
                        if below:
                            found = cand
                            break
                        nonce = (nonce + 1) % (1 << 32)
                    if found is None:
                        ck.disagree('no nonce found in 20000 tries', {'trial': trial})
                        return
                    bv = spec.BlockView(found)
                    rp = {'trial': trial, 'round': rnd, 'block': bv.bytes.hex(), 'pool': len(pool)}
                    after = sn.observe()
                    msgs = sn.new_messages()
                    # (1) the block passes the node's own full validation on the state it was built on
                    now = max(net.clock(), bv.time)
                    try:
                        cs_before.add_block(found, now)
                        valid = True
                    except Exception as e:
                        valid = False
                        ck.violation('assembled-block-invalid', "the assembled block fails the node's own full validation: "
                                     '%s' % e, rp)
                    bad = (spec.c01_conjuncts(head.utxo, bv) + spec.c02_conjuncts(head.utxo, bv, sub=env.subsidy) +
                           spec.c05_conjuncts([m.view for m in head.chain()], bv, now, env.period, env.span, env.scrypt))
                    if bad:
                        ck.violation('assembled-block-breaks-rule', 'the assembled block violates: %s' % '; '.join(bad), rp)
                    # (2) reward = subsidy + fees of the included transactions, to the miner's key
                    fees = 0
                    for t in bv.txs[1:]:
                        fees += sum(head.utxo[(h, i)][0] for h, i, _ in t.inputs) - sum(v for v, _ in t.outputs)
                    want_out = [(env.subsidy(bv.height) + fees, bytes(miner_pk))]
                    if bv.txs[0].outputs != want_out:
                        ck.violation('reward-not-subsidy-plus-fees', 'reward outputs %s, expected subsidy + fees = %d to the '
                                     "miner's key" % ([o[0] for o in bv.txs[0].outputs], want_out[0][0]), rp)
                    if [t.id for t in bv.txs[1:]] != [spec.sha256d(t.serialize()) for t in pool]:
                        ck.violation('pool-not-included', 'the candidate does not contain exactly the pending transactions', rp)
                    # (3) timestamp later than the parent's
                    if not bv.time > head.view.time:
                        ck.violation('timestamp-not-after-parent', 'candidate timestamp %d, parent %d' % (bv.time, head.view.time), rp)
                    # (4) adoption: served state, store, broadcast
                    ck.case((trial, rnd), kind='found/pool%d/clock%+d' % (len(pool), net.clock() - head.view.time),
                            sample={'height': bv.height, 'pool': len(pool), 'reward': bv.txs[0].outputs[0][0],
                                    'clock_minus_parent': net.clock() - head.view.time,
                                    'served_head_is_block': after['head'] == bv.id} if len(ck.samples) < 4 else None)
                    if bv.id not in after['blocks']:
                        ck.violation('found-block-not-in-served-state', 'the found block is not part of the chain state the '
                                     'node serves to its peers (served head height %d, block height %d)'
                                     % (byid[after['head']].height if after['head'] in byid else -1, bv.height), rp)
                    elif bv.prev == before['head'] and after['head'] != bv.id:
                        ck.violation('found-block-not-head', 'the found block extends the head but is not the served head', rp)
                    if bv.id not in after['rows'] or after['buffer']:
                        ck.violation('found-block-not-stored', 'the found block is not in the block store', rp)
                    for p in range(len(sn.peers)):
                        cnt = sum(1 for (k, i, irt) in msgs[p] if k == 'block' and i == bv.id)
                        if p not in torn and sn.connected(p) and cnt != 1:
                            ck.violation('found-block-broadcast-count', 'the found block was sent %d times to a peer' % cnt, rp)
                    # the miner's next candidate builds on the found block
                    newn = chaingen.Node(found, head, spec.apply_block(head.utxo, bv))
                    byid[newn.id] = newn
                    tg.nodes.append(newn)
                    # ---- model requests
                    tbl = []
                    with spec.Recorder(env.scrypt) as rec:
                        for m in head.chain() + [newn]:
                            spec.sha256d(m.view.header_bytes)
                            for t in m.view.txs:
                                spec.sha256d(t.bytes)
                        spec.merkle_root([t.id for t in bv.txs])
                        spec.evidence(bv.summary_bytes, bv.height, {m.height: m.view for m in head.chain()},
                                      [t.bytes for t in bv.txs], rec.scrypt)
                    tbl = rec.table()
                    order = [m for m in tg.nodes if m.id in before['blocks']]
                    reqs_assembly.append((('chain', tbl, [env.params_sx(),
                                                          [[0, m.block.serialize()] for m in order] +
                                                          [[4, [t.bytes for t in bv.txs[1:]], bytes(miner_pk), bv.time, b'', bv.nonce]], 0]),
                                          bv.bytes, rp))
                    reqs_node.append((('node_run', [], [10000, [], [],
                                                        [[[idm(m.id), 0 if m.parent is None else idm(m.parent.id), m.height] for m in order],
                                                         idm(before['head']), [], sorted(idm(x) for x in before['rows'])],
                                                        [[2, idm(bv.id), idm(bv.prev), bv.height, valid]]]),
                                      [sorted(idm(x) for x in after['blocks']), idm(after['head']), sorted(idm(x) for x in after['rows'])], rp))
                    if sn.node.escaped:
                        ck.violation('exception-escaped', 'an exception escaped: %s' % sn.node.escaped[0][1], rp)
                        return
            finally:
                if old_time is not None:
                    MI.time = old_time


def mine_one(sn, net, keys, tg, head, after_watcher=None):
    """let the node's own miner (real MinerWatcher handlers, in-process) find and adopt one block on the served head;
    returns the chaingen.Node of the found block, or None"""
    from skepticoin import mining as MI
    from skepticoin import consensus as C
    from skepticoin.wallet import Wallet
    from skepticoin.datatypes import Block, BlockHeader
    old_time = getattr(MI, 'time', None)
    if old_time is not None:
        MI.time = net.clock
    try:
        wallet = Wallet({pk: sk.to_string() for pk, sk in keys.by_pk.items()}, list(keys.pks), {})
        with contextlib.redirect_stdout(io.StringIO()):
            mw = make_watcher(sn, wallet, net.clock)
        net.clock.t = max(net.clock.t, head.view.time + 1)
        if after_watcher is not None:
            # the miner has already fetched work once; then something happens on the network side
            sn.node.activate()
            with contextlib.redirect_stdout(io.StringIO()):
                mw.handle_request_scrypt_input_message(0, 999999)
            after_watcher()
        for nonce in range(20000):
            sn.node.activate()
            with contextlib.redirect_stdout(io.StringIO()):
                mw.handle_request_scrypt_input_message(0, nonce)
            typ, (summary, height) = mw.send_queues[0].items[-1]
            txs = mw.mining_args[0][-1]
            sh = C.construct_summary_hash(summary, height)
            ev = C.construct_pow_evidence_after_scrypt(sh, mw.coinstate, summary, height, txs)
            cand = Block(BlockHeader(summary, ev), txs)
            with contextlib.redirect_stdout(io.StringIO()):
                mw.handle_scrypt_output_message(0, sh)
            sn.pump()
            if cand.hash() < cand.target:
                bv = spec.BlockView(cand)
                node = chaingen.Node(cand, head, spec.apply_block(head.utxo, bv))
                tg.nodes.append(node)
                return node
        return None
    finally:
        if old_time is not None:
            MI.time = old_time


def pool_then_mine_scenario(ck, trial, tier, tz=None):
    """a pending transaction survives a head change; a conflicting spend is then offered (and must be refused); then the miner
    assembles from what the pool holds and finds a block: it is adopted.  Optionally the process runs in a time zone west of UTC
    (the candidate's clock is the epoch clock, not a local-time conversion)"""
    import time as _time
    from skepticoin.networking import messages as M
    rng = ck.rng
    keys = chaingen.Keys()
    old_tz = os.environ.get('TZ')
    if tz:
        os.environ['TZ'] = tz
        _time.tzset()
    try:
        with chaingen.Env(period=50) as env:
            tg = chaingen.TreeGen(env, keys, rng)
            n = tg.genesis
            for _ in range(4):
                n = tg.extend(n, txs=[], fees=0, dt=100)
            main = list(tg.nodes)
            with simnet.Net(seed=rng.getrandbits(30), t0=n.view.time + 50) as net:
                sn = nodeharness.SingleNode(net, chaingen.impl_state_from(main), [m.block for m in main[1:]], npeers=2)
                sn.new_messages()
                av = sorted(tg.spendable(n))
                (r0, (v0, _pk)) = av[0]
                t1 = chaingen.signed_tx(keys, n.utxo, [r0], [(v0, keys.pks[1])])
                t2 = chaingen.signed_tx(keys, n.utxo, [r0], [(v0 - 1, keys.pks[2])])
                sn.deliver(0, M.DataMessage(M.DATA_TRANSACTION, t1))
                nb = tg.extend(n, txs=[], fees=0, dt=100)                  # head change that leaves t1 pending
                net.clock.t = max(net.clock.t, nb.view.time + 1)
                sn.deliver(1, M.DataMessage(M.DATA_BLOCK, nb.block))
                sn.deliver(1, M.DataMessage(M.DATA_TRANSACTION, t2))       # conflicts with t1
                rp = {'scripted': 'pending tx | head change | conflicting tx | mine', 'trial': trial, 'tz': tz}
                try:
                    found = mine_one(sn, net, keys, tg, nb)
                except Exception as e:
                    ck.violation('found-block-handler-raises', 'with a pending transaction, a head change and a conflicting spend offered '
                                 'afterwards%s, the found-block handler raises %s: %s' % (' (TZ=%s)' % tz if tz else '', type(e).__name__, str(e)[:120]), rp)
                    return
                ck.case(('pool-then-mine', trial, tz), kind='pool-then-mine%s' % ('/tz-west-of-utc' if tz else ''))
                st = sn.observe()
                if found is None:
                    return
                if found.id not in st['blocks'] or found.id not in st['rows']:
                    ck.violation('found-block-not-in-served-state', 'the found block is not adopted / stored%s' % (' (TZ=%s)' % tz if tz else ''), rp)
                if found.view.time > net.clock() + 30 or found.view.time <= nb.view.time:
                    ck.violation('timestamp-not-after-parent', 'candidate timestamp %d, parent %d, clock %d%s'
                                 % (found.view.time, nb.view.time, net.clock(), ' (TZ=%s)' % tz if tz else ''), rp)
    finally:
        if tz:
            if old_tz is None:
                os.environ.pop('TZ', None)
            else:
                os.environ['TZ'] = old_tz
            _time.tzset()


def stale_result_scenario(ck, trial, tier):
    """the miner thread's winning result arrives for a candidate handed out BEFORE the network thread adopted 0, 1 or 2
    peer blocks (optionally another worker has asked for work on the new head in between): the found block -- valid on its
    parent, which the node stores -- still becomes part of the served state, is stored and is broadcast once"""
    from skepticoin import mining as MI
    from skepticoin import consensus as C
    from skepticoin.wallet import Wallet
    from skepticoin.datatypes import Block, BlockHeader
    from skepticoin.networking import messages as M
    rng = ck.rng
    keys = chaingen.Keys()
    k_between = trial % 3
    other_worker = (trial // 3) % 2 == 1
    poisoned = trial >= 6          # the chain holds a block, taken unvalidated from a bulk download, that spends an output it
    #                               creates itself (balances cannot be replayed over it): adoption of a found block must not
    #                               depend on bookkeeping that fails on such a chain
    if poisoned:
        k_between, other_worker = 0, False
    with chaingen.Env(period=50) as env:
        tg = chaingen.TreeGen(env, keys, rng)
        n = tg.genesis
        for _ in range(3):
            n = tg.extend(n, txs=[], fees=0, dt=100)
        main = list(tg.nodes)
        with simnet.Net(seed=rng.getrandbits(30), t0=n.view.time + 5) as net:
            old_time = getattr(MI, 'time', None)
            if old_time is not None:
                MI.time = net.clock
            try:
                sn = nodeharness.SingleNode(net, chaingen.impl_state_from(main), [m.block for m in main[1:]], npeers=2)
                sn.new_messages()
                if poisoned:
                    av_ = sorted(tg.spendable(n))
                    (r0, (v0, pk0)) = av_[0]
                    t1_ = chaingen.signed_tx(keys, n.utxo, [r0], [(v0, keys.pks[1])])
                    id1_ = spec.sha256d(t1_.serialize())
                    t2_ = chaingen.signed_tx(keys, {(id1_, 0): (v0, keys.pks[1])}, [(id1_, 0)], [(v0, keys.pks[2])])
                    cbp = chaingen.coinbase(n.height + 1, env.subsidy(n.height + 1), keys.pks[3], b'poison')
                    pblk = chaingen.assemble(env, n, [cbp, t1_, t2_], n.view.time + 2)
                    u_ = dict(n.utxo)
                    del u_[r0]
                    u_[(id1_, 0)] = (v0, keys.pks[1])
                    del u_[(id1_, 0)]
                    u_[(spec.sha256d(t2_.serialize()), 0)] = (v0, keys.pks[2])
                    u_[(spec.sha256d(cbp.serialize()), 0)] = (env.subsidy(n.height + 1), keys.pks[3])
                    n = chaingen.Node(pblk, n, u_)
                    tg.nodes.append(n)
                    net.clock.t = max(net.clock.t, n.view.time + 3)
                    sn.deliver(0, M.DataMessage(M.DATA_BLOCK, pblk), irt=81)       # bulk-download reply: not validated in-state
                    if bytes(sn.lp().chain_manager.coinstate.current_chain_hash) != n.id:
                        return
                wallet = Wallet({pk: sk.to_string() for pk, sk in keys.by_pk.items()}, list(keys.pks), {})
                with contextlib.redirect_stdout(io.StringIO()):
                    mw = make_watcher(sn, wallet, net.clock)
                mw.send_queues = [FakeQueue(), FakeQueue()]
                cand = None
                for nonce in range(20000):
                    sn.node.activate()
                    with contextlib.redirect_stdout(io.StringIO()):
                        mw.handle_request_scrypt_input_message(0, nonce)
                    typ, (summary, height) = mw.send_queues[0].items[-1]
                    txs = mw.mining_args[0][-1]
                    sh = C.construct_summary_hash(summary, height)
                    ev = C.construct_pow_evidence_after_scrypt(sh, mw.coinstate, summary, height, txs)
                    c_ = Block(BlockHeader(summary, ev), txs)
                    if c_.hash() < c_.target:
                        cand = c_
                        break
                if cand is None:
                    return
                head = n
                for j in range(k_between):
                    pb = tg.extend(head, txs=[], fees=0, dt=max(1, net.clock() + 3 - head.view.time))
                    sn.deliver(1, M.DataMessage(M.DATA_BLOCK, pb.block))
                    head = pb
                if bytes(sn.lp().chain_manager.coinstate.current_chain_hash) != head.id:
                    ck.disagree('peer blocks were not adopted in the stale-result scenario', {'trial': trial})
                    return
                if other_worker:
                    sn.node.activate()
                    with contextlib.redirect_stdout(io.StringIO()):
                        mw.handle_request_scrypt_input_message(1, 4242)
                before = sn.observe()
                sn.new_messages()
                bv = spec.BlockView(cand)
                rp = {'stale_result': True, 'trial': trial, 'peer_blocks_adopted_between_request_and_result': k_between,
                      'other_worker_asked_for_work_in_between': other_worker, 'block': bv.bytes.hex()}
                sn.node.activate()
                try:
                    with contextlib.redirect_stdout(io.StringIO()):
                        mw.handle_scrypt_output_message(0, sh)
                except Exception as e:
                    if not poisoned:
                        ck.violation('found-block-handler-raises', 'a winning result for a candidate handed out before %d peer '
                                     'block(s) were adopted makes the found-block handler raise %s: %s' % (k_between, type(e).__name__, e), rp)
                        return
                    rp['handler_raised'] = type(e).__name__     # bookkeeping fails on this chain; adoption is judged below
                sn.pump()
                after = sn.observe()
                msgs = sn.new_messages()
                ck.case(('stale', trial), kind='stale-result/%d-peer-blocks/%s' % (k_between, 'other-worker' if other_worker else 'same-worker'),
                        sample={'peer_blocks_between': k_between, 'found_in_served_state': bv.id in after['blocks'],
                                'served_head_is_found_block': after['head'] == bv.id, 'peer_blocks_still_served': head.id in after['blocks']}
                        if trial < 6 else None)
                if bv.id not in after['blocks']:
                    ck.violation('found-block-not-in-served-state', 'a found block whose candidate was handed out before %d peer '
                                 'block(s) were adopted is not part of the chain state the node serves' % k_between, rp)
                if bv.id not in after['rows'] or after['buffer']:
                    ck.violation('found-block-not-stored', 'the found block is not in the block store', rp)
                for p in range(len(sn.peers)):
                    cnt = sum(1 for (k, i, irt) in msgs[p] if k == 'block' and i == bv.id)
                    if sn.connected(p) and cnt != 1:
                        ck.violation('found-block-broadcast-count', 'the found block was sent %d times to a peer' % cnt, rp)
                if k_between and head.id not in after['blocks']:
                    ck.count('observation:peer-blocks-dropped-from-served-state-by-stale-found-block')
                if sn.node.escaped:
                    ck.violation('exception-escaped', 'an exception escaped: %s' % sn.node.escaped[0][1], rp)
                arrived = [m for m in tg.nodes] + [chaingen.Node(cand, n, spec.apply_block(n.utxo, bv))]
                return {'arrived': arrived, 'served_blocks': after['blocks'], 'served_head': after['head'], 'found': bv.id,
                        'peer_tip': head.id, 'k_between': k_between, 'other_worker': other_worker, 'replay': rp,
                        'served_tips': sorted(bytes(h) for h in sn.lp().chain_manager.coinstate.heads.keys())}
            finally:
                if old_time is not None:
                    MI.time = old_time


def run(tier, seed):
    ck = common.Check('C12', tier, seed)
    ck.rule = ('real MinerWatcher handlers in-process on a real node (real store, three peers, in every second scenario the first peer connection half torn down; in every second round a valid block from a peer stamped up to 29 s ahead of the clock is adopted between two work requests; every candidate handed out is checked for parent = served head and timestamp later than the parent): per round a pool of 0-3 valid '
               'transactions with fees 0 / 1 / 1000 / a third, clock 500 s before .. 4000 s after the head timestamp, nonces '
               'tried until the id is below target (sha256 stand-in for scrypt), chains with retarget period 3-50 and '
               'competing equal-height tips; the found block is validated by the node itself and by the independent rules, '
               'reward and timestamp recomputed, served state / store / peer inboxes inspected; assembly compared with the '
               "extracted model's construct_block_for_mining, adoption with NodeModel.handle_mined; non-trivial = distinct "
               '(scenario, round)')
    ck.trusted += ['extraction + OCaml driver', 'simnet', 'MinerWatcher constructed with argv patched; worker processes and inter-process queues are not exercised', 'sha256 stand-in for scrypt']
    ck.assumptions += ['the candidate is built on the state the chain manager serves at that moment (no block arrives '
                       'between assembly and the found-block handler; the miner and network threads are not interleaved)']
    r = ck.build(extract=True)
    ra, rn = [], []
    for trial in range(8 if tier == 'quick' else 40):
        try:
            scenario(ck, trial, tier, ra, rn)
        except Exception:
            import traceback
            tb = traceback.format_exc()
            if 'could not mine a block' in tb:
                ck.count('generator-gave-up(difficulty)')
                continue
            ck.disagree('scenario %d crashed: %s' % (trial, tb[-600:]), {'trial': trial})
    for trial in (list(range(6)) + [6, 7] if tier == 'quick' else list(range(6)) * 3 + [6, 7, 8]):
        try:
            stale_result_scenario(ck, trial, tier)
        except Exception:
            import traceback
            tb = traceback.format_exc()
            if 'could not mine a block' not in tb:
                ck.disagree('stale-result scenario %d crashed: %s' % (trial, tb[-600:]), {'trial': trial})
    for trial, tz in ((0, None), (1, 'PST8PDT'), (2, 'America/New_York')):
        try:
            pool_then_mine_scenario(ck, trial, tier, tz=tz)
        except Exception:
            import traceback
            tb = traceback.format_exc()
            if 'could not mine a block' not in tb:
                ck.disagree('pool-then-mine scenario crashed: %s' % tb[-500:], {'trial': trial})
    # what the miner assembles from is the pool the chain manager hands it: admission on the network thread interleaved
    # with the miner thread installing its found block must leave that pool valid at the head (C13's thread probes)
    try:
        import check_C13
        check_C13.thread_probes(ck, tier)
    except Exception:
        import traceback
        ck.disagree('pool thread probe crashed: %s' % traceback.format_exc()[-400:], {})
    if r.ok and (ra or rn):
        outs = model.run_batch([x[0] for x in ra])
        for (req, want, rp), o in zip(ra, outs):
            got = o[0][-1]
            if got != [1, want]:
                ck.disagree('construct_block_pow_evidence_input / construct_pow_evidence_after_scrypt vs model '
                            'construct_block_for_mining', dict(rp, model=repr(got)[:200]))
        outs = model.run_batch([x[0] for x in rn])
        for (req, want, rp), o in zip(rn, outs):
            st = o[0][1]
            got = [sorted(st[0]), st[1], sorted(st[4])]
            if got != want:
                ck.disagree('handle_scrypt_output_message vs NodeModel.handle_mined (blocks/head/rows)',
                            dict(rp, model=repr(got)[:200], impl=repr(want)[:200]))
        ck.extra['traces_validated_against_impl'] = len(ra) + len(rn)
    return ck.finish()


def replay(path):
    d = json.load(open(path))
    print(json.dumps(d, indent=1)[:3000])
    print('re-run with: VERIF_SEED=%d ./check C12 --tier %s' % (d.get('seed', 0), d.get('tier', 'quick')))
    return 1
