"""C03 -- ledger state at a block is a function of its chain.  Theorems: props/Properties_C03.v.
Tie: real CoinState (add_block_no_validation, unspent sets, PublicKeyBalances, Wallet.get_balance) against the extracted
model on generated block trees with transactions, in several parent-first arrival orders (all orders for small trees),
with balance queries interleaved with arrivals and every intermediate CoinState object re-digested at the end
(snapshot immutability is a tie obligation).  Search oracle: replay of each block's ancestors in harness/spec.py."""
import itertools
import json

import chaingen
import common
import consensus_check
import model
import spec


def impl_balances(cs, h):
    out = {}
    for pk, bal in cs.public_key_balances_by_hash[h].items():
        out[bytes(pk.public_key)] = (bal.value, [(bytes(r.hash), r.index) for r in bal.output_references])
    return out


def all_orders(nodes, limit):
    """every parent-first permutation (up to limit)"""
    out = []

    def rec(placed, ids, remaining):
        if len(out) >= limit:
            return
        if not remaining:
            out.append(list(placed))
            return
        for n in list(remaining):
            if n.parent is None or n.parent.id in ids:
                placed.append(n)
                ids.add(n.id)
                remaining.remove(n)
                rec(placed, ids, remaining)
                remaining.append(n)
                ids.discard(n.id)
                placed.pop()
    rec([], set(), list(nodes))
    return out


def deep_history(ck, tier):
    """a long chain (5,200 blocks; thorough: 11,000) and then a LATE block whose parent lies thousands of blocks below the
    head: what the node reports at that block, at its parent and at other old blocks still equals the replay of their
    ancestors"""
    from skepticoin.coinstate import CoinState
    if common.REDUCED:
        return
    depth = 5200 if tier == 'quick' else 11000
    with chaingen.Env(period=10 ** 6) as env:
        g = chaingen.genesis_node()
        nodes = [g]
        cs = CoinState.empty().add_block_no_validation(g.block)
        par = g
        for i in range(depth):
            cb = chaingen.coinbase(par.height + 1, 10 ** 9, b'\x11' * 64, data=i.to_bytes(3, 'big'))
            blk = chaingen.assemble(env, par, [cb], par.view.time + 60, mine=False)
            par = chaingen.Node(blk, par, None)
            nodes.append(par)
            cs = cs.add_block_no_validation(blk)
        for fork_at in (40, depth - 5100, depth // 2):
            fp = nodes[fork_at]
            cb = chaingen.coinbase(fp.height + 1, 10 ** 9, b'\x22' * 64, data=b'late%d' % fork_at)
            fb = chaingen.assemble(env, fp, [cb], fp.view.time + 61, mine=False)
            try:
                cs = cs.add_block_no_validation(fb)
            except Exception as e:
                ck.violation('arrival-raises', 'a late block on a parent %d blocks below the head cannot be added: %s'
                             % (depth - fork_at, type(e).__name__), {'deep': True, 'depth': depth, 'fork_at': fork_at})
                continue
            fbv = spec.BlockView(fb)
            want = {}
            for nd in nodes[:fork_at + 1]:
                t = nd.view.txs[0]
                for j, (v, pk) in enumerate(t.outputs):
                    want[(t.id, j)] = (v, pk)
            want_parent = dict(want)
            want[(fbv.txs[0].id, 0)] = fbv.txs[0].outputs[0]
            for label, hid, w in (('late block', fbv.id, want), ('its parent', fp.id, want_parent)):
                ck.case(('deep', fork_at, label), kind='deep-history/' + label.replace(' ', '-'))
                try:
                    got = {(bytes(ref.hash), ref.index): (o.value, bytes(o.public_key.public_key))
                           for ref, o in cs.unspent_transaction_outs_by_hash[hid].items()}
                except Exception as e:
                    ck.violation('utxo-not-replay', 'the unspent set at %s (%d blocks below the head) cannot be obtained: %s'
                                 % (label, depth - fork_at, type(e).__name__), {'deep': True, 'depth': depth, 'fork_at': fork_at})
                    continue
                if got != w:
                    ck.violation('utxo-not-replay', 'the unspent set reported at %s (%d blocks below the head) has %d entries, the '
                                 'replay of its ancestors %d' % (label, depth - fork_at, len(got), len(w)),
                                 {'deep': True, 'depth': depth, 'fork_at': fork_at})


def run(tier, seed):
    ck = common.Check('C03', tier, seed)
    ck.rule = ('block trees with wallet-signed transactions (forks with diverging spends); arrival orders: creation order, '
               'seeded parent-first permutations, ALL parent-first permutations for trees of <= 6 blocks; after every '
               'arrival a randomly chosen stored block is queried for balances (exercises the balance cache across '
               'states); at the end every stored block of every order is compared with the replay of its ancestors '
               '(unspent set, per-key value and reference list), orders are compared with each other, every intermediate '
               'CoinState object is re-digested, and the whole run is compared with the extracted model; non-trivial = '
               'distinct (tree, order, block)')
    ck.trusted += ['extraction + OCaml driver', 'chain generator + independent replay (harness/spec.py)']
    ck.assumptions += ['parents arrive before children, ids are fresh, heights are parent+1 (admissible arrivals)',
                       'snapshot immutability is checked by digests, not proved (a functional model cannot mutate)']
    r = ck.build(extract=True)
    from skepticoin.coinstate import CoinState
    from skepticoin.wallet import Wallet
    rng = ck.rng
    keys = chaingen.Keys()
    reqs = []
    meta = []
    ntrees = 5 if tier == 'quick' else 30
    for trial in range(ntrees):
        with chaingen.Env(period=rng.choice([4, 5, 50])) as env:
            tg = chaingen.TreeGen(env, keys, rng)
            small = (trial % 2 == 0)
            tg.grow(5 if small else (rng.choice([9, 12]) if tier == 'quick' else rng.choice([12, 18, 25])), fork_p=0.4)
            # a reward with a zero-valued second output to a key whose positive outputs are then ALL spent: that key's
            # balance is 0 while it still owns an unspent (zero-valued) output
            tipz = max(tg.nodes, key=lambda x: x.height)
            kz = keys.pks[4]
            bz = tg.extend(tipz, txs=[], fees=0, miner=kz, zero_outputs=[kz])
            pos = [(ref, vo) for ref, vo in bz.utxo.items() if vo[1] == kz and vo[0] > 0]
            if pos:
                tz = chaingen.signed_tx(keys, bz.utxo, [r_ for r_, _ in pos], [(sum(vo[0] for _, vo in pos), keys.pks[1])])
                tg.extend(bz, txs=[tz], fees=0, miner=keys.pks[2])
            # a transaction whose inputs alternate between keys (A, B, A): per-key bookkeeping must not assume that the
            # inputs of one key stand next to each other
            tipi = max(tg.nodes, key=lambda x: x.height)
            for _grow in range(6):
                sp_ = sorted(tg.spendable(tipi))
                bykey = {}
                for r_, vo in sp_:
                    if vo[0] > 0:
                        bykey.setdefault(vo[1], []).append((r_, vo))
                twice = [k_ for k_, lst in bykey.items() if len(lst) >= 2]
                if twice and len(bykey) >= 2:
                    ka = twice[0]
                    kb = [k_ for k_ in bykey if k_ != ka][0]
                    trio = [bykey[ka][0], bykey[kb][0], bykey[ka][1]]
                    ti = chaingen.signed_tx(keys, tipi.utxo, [r_ for r_, _ in trio], [(sum(vo[0] for _, vo in trio), keys.pks[3])])
                    tg.extend(tipi, txs=[ti], fees=0, miner=keys.pks[2])
                    break
                tipi = tg.extend(tipi, txs=[], fees=0, miner=keys.pks[_grow % 2])
            nodes = tg.nodes
            if small:
                orders = all_orders(nodes, 200 if tier == 'quick' else 2000)
                ck.extra['exhaustive'] = True
            else:
                orders = consensus_check.parent_first_orders(nodes, rng, 4 if tier == 'quick' else 10)
            byid = {n.id: n for n in nodes}
            final_digests = []
            for oi, order in enumerate(orders):
                snapshots = []
                cs = CoinState.empty()
                ok = True
                for n in order:
                    try:
                        cs = cs.add_block_no_validation(n.block)
                    except Exception as e:
                        ck.violation('arrival-raises', 'add_block_no_validation raised %s on a valid parent-first arrival'
                                     % type(e).__name__, {'order': [m.block.serialize().hex() for m in order]})
                        ok = False
                        break
                    snapshots.append((cs, chaingen.digest_state(cs)))
                    # interleaved balance query at some stored block (often the current head)
                    q = cs.current_chain_hash if rng.random() < 0.7 else rng.choice(list(cs.block_by_hash.keys()))
                    try:
                        cs.public_key_balances_by_hash[q]
                    except Exception as e:
                        ck.violation('balances-raise', 'balance query raised %s' % type(e).__name__,
                                     {'order': [m.block.serialize().hex() for m in order]})
                if not ok:
                    continue
                rp = {'order': [m.block.serialize().hex() for m in order]}
                # --- oracle: every stored block vs replay of its ancestors
                for h in cs.block_by_hash.keys():
                    n = byid[bytes(h)]
                    want_u = n.utxo
                    got_u = {(bytes(ref.hash), ref.index): (o.value, bytes(o.public_key.public_key))
                             for ref, o in cs.unspent_transaction_outs_by_hash[h].items()}
                    ck.case((trial, oi, bytes(h)), kind='order-%s' % ('exhaustive' if small else 'random'),
                            sample={'tree_blocks': len(nodes), 'order': [nodes.index(m) for m in order],
                                    'block_height': n.height, 'unspent': len(got_u)} if len(ck.samples) < 3 and n.height >= 3 else None)
                    if got_u != want_u:
                        ck.violation('utxo-not-replay', 'unspent set stored at a block differs from the replay of its '
                                     'ancestors', dict(rp, block=bytes(h).hex()))
                    try:
                        got_b = impl_balances(cs, h)
                    except Exception as e:
                        ck.violation('balances-raise', 'balance query raised %s' % type(e).__name__, dict(rp, block=bytes(h).hex()))
                        continue
                    want_b = spec.balances(want_u)
                    for pk, (v, refs) in got_b.items():
                        wv, wrefs = want_b.get(pk, [0, set()])
                        if v != wv or sorted(refs) != sorted(wrefs):
                            ck.violation('balance-not-sum-of-unspent', "a key's balance or reference list differs from "
                                         'the unspent outputs paying that key', dict(rp, block=bytes(h).hex(), key=pk.hex()))
                            break
                    for pk in want_b:
                        if pk not in got_b:
                            ck.violation('balance-missing-key', 'a key with unspent outputs has no balance entry',
                                         dict(rp, block=bytes(h).hex(), key=pk.hex()))
                            break
                # a balance lookup that is interrupted (an exception escapes from inside the replay, as MemoryError or
                # KeyboardInterrupt can) must not poison later lookups on the same object: the answer for a block is a
                # function of that block's chain
                if oi == 0:
                    from skepticoin import balances as BAL
                    fresh = CoinState.empty()
                    for n_ in order:
                        fresh = fresh.add_block_no_validation(n_.block)
                    target_h = fresh.current_chain_hash
                    for fname in ('pkb_apply_block', 'uto_apply_block'):
                        if not hasattr(BAL, fname):
                            continue
                        orig_f = getattr(BAL, fname)
                        calls = [0]

                        def boom(*a, _o=orig_f, **kw):
                            calls[0] += 1
                            if calls[0] == 2:
                                raise MemoryError('injected')
                            return _o(*a, **kw)
                        setattr(BAL, fname, boom)
                        try:
                            try:
                                fresh.public_key_balances_by_hash[target_h]
                                interrupted = False
                            except MemoryError:
                                interrupted = True
                        finally:
                            setattr(BAL, fname, orig_f)
                        if interrupted:
                            ck.count('balance-lookup-interrupted-then-repeated')
                            got_again = impl_balances(fresh, target_h)
                            want_again = spec.balances(byid[bytes(target_h)].utxo)
                            if {k: (v, sorted(r_)) for k, (v, r_) in got_again.items() if r_ or v} != \
                                    {k: (v, sorted(r_)) for k, (v, r_) in want_again.items()}:
                                ck.violation('balance-after-interrupted-lookup', 'after a balance lookup was interrupted by an '
                                             'exception inside the replay, the next lookup for the same block reports %d keys, '
                                             'the replay of its chain has %d' % (len(got_again), len(want_again)),
                                             dict(rp, block=bytes(target_h).hex(), interrupted_in=fname))
                            break
                # building payments is an observation of the chain state: after a wallet with pending spends has built two
                # payments against this state, the balances it reports are still the replay's
                if oi == 0:
                    from skepticoin.wallet import create_spend_transaction as _spend
                    from skepticoin.signing import SECP256k1PublicKey as _PK
                    wsp = Wallet({pk: keys.by_pk[pk].to_string() for pk in keys.pks}, [], {pk: 'x' for pk in keys.pks})
                    hd_ = byid[bytes(cs.current_chain_hash)]
                    for _k in range(3):
                        try:
                            _spend(wsp, cs, 1, 0, _PK(keys.pks[0]), _PK(keys.pks[1]))
                        except Exception:
                            break
                    got_after = impl_balances(cs, cs.current_chain_hash)
                    want_after = spec.balances(hd_.utxo)
                    ck.count('balances-rechecked-after-payments-were-built')
                    for pk, (v, refs) in got_after.items():
                        wv, wrefs = want_after.get(pk, [0, set()])
                        if v != wv or sorted(refs) != sorted(wrefs):
                            ck.violation('balance-not-sum-of-unspent', "after a wallet built payments against a chain state, a key's "
                                         'balance or reference list at the (unchanged) head differs from the unspent outputs paying '
                                         'that key', dict(rp, key=pk.hex(), after='create_spend_transaction x3'))
                            break
                # wallet balance at head
                w = Wallet({pk: b'' for pk in keys.pks}, list(keys.pks[:3]), {pk: 'x' for pk in keys.pks[3:]})
                head = byid[bytes(cs.current_chain_hash)]
                want = sum(v for (v, pk) in head.utxo.values() if pk in keys.by_pk)
                try:
                    if w.get_balance(cs) != want:
                        ck.violation('wallet-balance', 'Wallet.get_balance differs from the unspent outputs paying wallet keys', rp)
                except Exception as e:
                    ck.violation('wallet-balance', 'Wallet.get_balance raised %s' % type(e).__name__, rp)
                # snapshot immutability
                for (snap, dg) in snapshots:
                    if chaingen.digest_state(snap) != dg:
                        ck.violation('snapshot-changed', 'an earlier CoinState snapshot changed after later additions', rp)
                        break
                dg = chaingen.digest_state(cs)
                final_digests.append((dg[0], order))
                # model
                if oi < 6:
                    tbl = []
                    for nd in nodes:
                        tbl.append(('sha256d', nd.view.header_bytes, nd.id))
                        for t in nd.view.txs:
                            tbl.append(('sha256d', t.bytes, t.id))
                    ops = [[0, nd.block.serialize()] for nd in order] + [[2, nd.id] for nd in nodes]
                    reqs.append(('chain', tbl, [env.params_sx(), ops, 1]))
                    meta.append((dg, [impl_balances(cs, nd.id) for nd in nodes], rp))
            for dg0, order in final_digests[1:]:
                if dg0 != final_digests[0][0]:
                    ck.violation('order-dependent', 'ledger state at some block depends on the arrival order',
                                 {'order': [m.block.serialize().hex() for m in order]})
                    break
    if r.ok:
        outs = model.run_batch(reqs)
        for (dg, bals, rp), o in zip(meta, outs):
            try:
                md = chaingen.digest_model_state(o[1])
                nops = len(bals)
                mb = []
                for e in o[0][-nops:]:
                    d = {}
                    for pk, z, refs in e[1]:
                        d[pk] = (-z[1] if z[0] == 1 else z[1], [tuple(x) for x in refs])
                    mb.append(d)
            except Exception:
                md, mb = 'unparsable', None
            if md != dg:
                ck.disagree('CoinState maps vs model after add_block_no_validation sequence', rp)
            elif mb != bals:
                ck.disagree('PublicKeyBalances vs model balances_at', rp)
        ck.extra['traces_validated_against_impl'] = len(reqs)
    try:
        deep_history(ck, tier)
    except Exception:
        import traceback
        ck.disagree('deep-history probe crashed: %s' % traceback.format_exc()[-500:], {})
    return ck.finish()


def replay(path):
    d = json.load(open(path))
    rp = d.get('replay', {})
    if 'order' in rp:
        from skepticoin.coinstate import CoinState
        from skepticoin.datatypes import Block
        cs = CoinState.empty()
        views = {}
        for hx in rp['order']:
            b = Block.deserialize(bytes.fromhex(hx))
            cs = cs.add_block_no_validation(b)
            v = spec.BlockView(b)
            views[v.id] = v
        bad = 0
        for h in cs.block_by_hash.keys():
            chain = []
            x = views[bytes(h)]
            while True:
                chain.append(x)
                if x.prev == b'\x00' * 32:
                    break
                x = views[x.prev]
            want = spec.replay_utxo(chain[::-1])
            got = {(bytes(ref.hash), ref.index): (o.value, bytes(o.public_key.public_key))
                   for ref, o in cs.unspent_transaction_outs_by_hash[h].items()}
            wb = spec.balances(want)
            gb = impl_balances(cs, h)
            okb = all(gb.get(pk, (0, []))[0] == v[0] and sorted(gb.get(pk, (0, []))[1]) == sorted(v[1]) for pk, v in wb.items())
            if got != want or not okb:
                bad += 1
                print('block', bytes(h).hex(), 'unspent ok', got == want, 'balances ok', okb)
        print('blocks with a ledger state that differs from the replay of their ancestors:', bad)
        return 1 if bad else 0
    print(json.dumps(d, indent=1)[:2000])
    return 1
