"""Independent reference (written from the property statements, not from the code) used as the search oracle:
ledger replay over a block's ancestors, the consensus conjuncts of C01/C02/C05, merkle root, evidence, retarget.
It works on plain data (dicts/tuples/bytes) rendered from the implementation's objects, and uses hashlib/ecdsa only."""
import hashlib

import ecdsa

MAX_SASHIMI = 2_099_999_986_350_000


def sha256d(b):
    return hashlib.sha256(hashlib.sha256(b).digest()).digest()


def blake2(b):
    return hashlib.blake2b(b, digest_size=32).digest()


def merkle_root(ids):
    ids = list(ids)
    if not ids:
        raise ValueError('empty')
    while len(ids) > 1:
        nxt = []
        for i in range(0, len(ids), 2):
            if i + 1 < len(ids):
                nxt.append(sha256d(ids[i] + ids[i + 1]))
            else:
                nxt.append(ids[i])
        ids = nxt
    return ids[0]


def subsidy(height, initial=10 ** 9, interval=1_050_000):
    return initial // (2 ** (height // interval))


def verify(pk64, sig64, message):
    try:
        vk = ecdsa.VerifyingKey.from_string(pk64, curve=ecdsa.SECP256k1)
        return bool(vk.verify(sig64, message))
    except ecdsa.keys.BadSignatureError:
        return False
    except Exception:
        return False


class TxView:
    """plain view of a transaction: inputs [(hash, index, sigkind, sigdata)], outputs [(value, pk)]"""

    def __init__(self, t):
        import render
        r = render.r_tx(t)
        self.inputs = [(i[0][0], i[0][1], i[1]) for i in r[0]]
        self.outputs = [(o[0], o[1]) for o in r[1]]
        self.bytes = t.serialize()
        self.id = sha256d(self.bytes)
        # the message a signature covers, built from the FIELDS (not by asking the object): version, every reference
        # with the signature slot blanked, every output
        se = b'\x00' + vlq(len(self.inputs)) + b''.join(h + i.to_bytes(4, 'big') + b'\x00' for (h, i, _) in self.inputs) + \
            vlq(len(self.outputs)) + b''.join(v.to_bytes(8, 'big') + b'\x02' + pk for (v, pk) in self.outputs)
        self.signable = se


class BlockView:
    def __init__(self, b):
        s = b.header.summary
        self.height = s.height
        self.prev = bytes(s.previous_block_hash)
        self.merkle = bytes(s.merkle_root_hash)
        self.time = s.timestamp
        self.target = bytes(s.target)
        self.nonce = s.nonce
        self.summary_bytes = s.serialize()
        self.header_bytes = b.header.serialize()
        self.id = sha256d(self.header_bytes)
        e = b.header.pow_evidence
        self.evidence = (bytes(e.summary_hash), bytes(e.chain_sample), bytes(e.block_hash))
        self.txs = [TxView(t) for t in b.transactions]
        self.bytes = b.serialize()


def replay_utxo(chain):
    """chain: list of BlockView oldest first -> dict (txid, index) -> (value, pk); raises KeyError on invalid spend"""
    u = {}
    for b in chain:
        u = apply_block(u, b)
    return u


def apply_block(u, b):
    u = dict(u)
    for k, t in enumerate(b.txs):
        if k > 0:
            for (h, i, _s) in t.inputs:
                del u[(h, i)]
        for j, o in enumerate(t.outputs):
            u[(t.id, j)] = o
    return u


def balances(u):
    bal = {}
    for ref, (v, pk) in u.items():
        e = bal.setdefault(pk, [0, set()])
        e[0] += v
        e[1].add(ref)
    return bal


def c01_conjuncts(u_parent, b):
    """list of violated C01 conjuncts for an (accepted) block b against its parent's unspent set"""
    bad = []
    seen = set()
    created_here = set()
    for t in b.txs:
        for j in range(len(t.outputs)):
            created_here.add((t.id, j))
    for t in b.txs[1:]:
        for (h, i, sg) in t.inputs:
            ref = (h, i)
            if ref in seen:
                bad.append('output spent twice inside the block')
            seen.add(ref)
            if ref not in u_parent:
                if ref in created_here:
                    bad.append('spends an output created in the same block')
                else:
                    bad.append('spends an output that is not unspent at the parent')
                continue
            if sg[0] != 2:
                bad.append('input carries no real signature')
                continue
            if not verify(u_parent[ref][1], sg[1], t.signable):
                bad.append("signature does not verify under the spent output's key over all references and outputs")
    return bad


def c02_conjuncts(u_parent, b, sub=subsidy, max_sashimi=MAX_SASHIMI):
    """sub: height -> subsidy under the parameters in force"""
    bad = []
    fees = 0
    ok_fee = True
    for t in b.txs[1:]:
        tot_in = 0
        for (h, i, sg) in t.inputs:
            if (h, i) in u_parent:
                tot_in += u_parent[(h, i)][0]
            else:
                ok_fee = False
        tot_out = sum(v for v, _ in t.outputs)
        for v, _ in t.outputs:
            if not (0 < v <= max_sashimi):
                bad.append('output value outside (0, maximum]')
        if not (0 < tot_out <= max_sashimi):
            bad.append('output total outside (0, maximum]')
        if tot_out > tot_in:
            bad.append('transaction spends more than its inputs')
        fees += tot_in - tot_out
    if ok_fee and b.txs:
        reward = sum(v for v, _ in b.txs[0].outputs)
        if reward > sub(b.height) + fees:
            bad.append('reward exceeds subsidy plus fees')
    # ledger-level statement: what is unspent after the block is worth at most what was unspent before plus the subsidy
    if ok_fee and b.txs:
        spent = set((h, i) for t in b.txs[1:] for (h, i, sg) in t.inputs)
        created = sum(v for t in b.txs for v, _ in t.outputs)
        if created - sum(u_parent[r][0] for r in spent) > sub(b.height):
            bad.append('total of unspent outputs grows by more than the subsidy')
    return bad


def retarget(parent_target, height, ts, chain_by_height, period, span):
    if height % period == 0:
        start = chain_by_height[height - period]
        r = int.from_bytes(parent_target, 'big') * (ts - start.time) // span
        return min(r, 2 ** 256 - 1).to_bytes(32, 'big')
    return parent_target


def evidence(summary_bytes, height, chain_by_height, txs_bytes_list, scrypt, count=8, size=4):
    sh = scrypt(summary_bytes, height.to_bytes(8, 'big'))
    if height == 0:
        sample = b'\x00' * (count * size)
    else:
        cur = sh
        parts = []
        for i in range(count):
            sel = chain_by_height[int.from_bytes(cur[:8], 'big') % height].bytes
            start = int.from_bytes(cur[8:12], 'big') % len(sel)
            piece = b''
            while len(piece) < size:
                piece += sel[start:start + size - len(piece)]
                start = 0
            parts.append(piece)
            if i != count - 1:
                cur = sha256d(cur + piece)
        sample = b''.join(parts)
    import struct  # noqa
    n = len(txs_bytes_list)
    return (sh, sample, blake2(sh + sample + vlq(n) + b''.join(txs_bytes_list)))


def vlq(i):
    needed = i.bit_length() // 7 + 1
    out = bytearray()
    for j in reversed(range(needed)):
        d = (i >> (7 * j)) & 0x7f
        out.append(d | (0x80 if j > 0 else 0))
    return bytes(out)


def c05_conjuncts(chain, b, now, period, span, scrypt, max_future=30):
    """chain: ancestors of b oldest first (BlockView), parent last"""
    bad = []
    parent = chain[-1]
    by_height = {x.height: x for x in chain}
    if not (b.id < b.target):
        bad.append('id is not below the stated target')
    try:
        want = retarget(parent.target, parent.height + 1, b.time, by_height, period, span)
        if b.target != want:
            bad.append('stated target is not the one the retargeting rule prescribes')
    except Exception:
        bad.append('retarget ancestor missing')
    if b.height != parent.height + 1:
        bad.append("height is not parent's plus one")
    cb = b.txs[0] if b.txs else None
    if cb is None or not cb.inputs or cb.inputs[0][2][0] != 1 or cb.inputs[0][2][1] != b.height:
        bad.append('height differs from the height recorded in the reward transaction')
    if not (parent.time < b.time):
        bad.append("timestamp not strictly later than parent's")
    if not (b.time <= now + max_future):
        bad.append("timestamp more than 30 s ahead of the validator's clock")
    try:
        ev = evidence(b.summary_bytes, b.height, by_height, [t.bytes for t in b.txs], scrypt)
        if ev != b.evidence:
            bad.append('proof-of-work evidence differs from the recomputed evidence')
    except Exception as e:
        bad.append('evidence cannot be recomputed (%s)' % type(e).__name__)
    return bad


class Recorder:
    """records every primitive evaluation made by the reference functions above (so that the extracted model can be
    given a complete oracle table that does not depend on how far the implementation's own validation got)"""

    def __init__(self, scrypt):
        self.entries = {}
        self.scrypt_fn = scrypt

    def __enter__(self):
        g = globals()
        self.saved = (g['sha256d'], g['blake2'], g['verify'])
        o_sha, o_blake, o_verify = self.saved

        def sha(b):
            out = o_sha(b)
            self.entries[('sha256d', bytes(b))] = out
            return out

        def bl(b):
            out = o_blake(b)
            self.entries[('blake2', bytes(b))] = out
            return out

        def ver(pk, sig, msg):
            try:
                vk = ecdsa.VerifyingKey.from_string(pk, curve=ecdsa.SECP256k1)
                try:
                    res = bool(vk.verify(sig, msg))
                    code = b'\x01' if res else b'\x00'
                except ecdsa.keys.BadSignatureError:
                    res, code = False, b'\x00'
            except Exception:
                res, code = False, b'\x02'
            self.entries[('verify', bytes(pk) + bytes(sig) + bytes(msg))] = code
            return res
        g['sha256d'], g['blake2'], g['verify'] = sha, bl, ver
        return self

    def scrypt(self, password, salt):
        out = self.scrypt_fn(password, salt)
        self.entries[('scrypt', bytes(password) + bytes(salt))] = out
        return out

    def __exit__(self, *a):
        g = globals()
        g['sha256d'], g['blake2'], g['verify'] = self.saved

    def table(self):
        return [(k[0], k[1], v) for k, v in self.entries.items()]


def full_oracle(chain, u_parent, b, now, period, span, scrypt):
    """oracle entries a complete validation of b needs (ids, merkle pairs, evidence, signature checks)"""
    with Recorder(scrypt) as rec:
        for t in b.txs:
            sha256d(t.bytes)
        sha256d(b.header_bytes)
        try:
            merkle_root([t.id for t in b.txs])
        except Exception:
            pass
        c05_conjuncts(chain, b, now, period, span, rec.scrypt)
        c01_conjuncts(u_parent, b)
    return rec.table()
