"""C01 -- no unauthorised or double spending in any fully validated block."""
import json

import common
import consensus_check
import spec

TAGS = ('C01',)


def oracle(chain_views, parent_utxo, bv, now, env):
    return spec.c01_conjuncts(parent_utxo, bv)


def run(tier, seed):
    ck = common.Check('C01', tier, seed)
    ck.rule = ('random block trees (7-20 blocks, forks, retarget period 3-6, 0-3 signed transactions per block), every '
               'generated block fully validated in a random parent-first arrival order; on up to 4 parents per tree '
               '(head, boundary, fork tip, random) every spend-rule mutant (missing / already spent / other-fork output, '
               'reference twice in a transaction / across transactions, output of the same block, own reward, foreign key, '
               'outputs / value split / reference changed after signing, swapped signatures, placeholder and reward data '
               'as signature, null reference, duplicate transaction) re-assembled with valid merkle root, evidence and '
               'proof of work; verdict of CoinState.add_block compared with the extracted model and with the property '
               'oracle; receiver state digested before and after; non-trivial = distinct (mutant kind, block id)')
    ck.trusted += ['extraction + OCaml driver', 'chain generator and independent block assembler (harness/spec.py)',
                   'test parameters patched from outside: checkpoint horizon -1, retarget period 3-6, sha256 stand-in '
                   'for scrypt', 'ecdsa verification as an oracle (real library outcome recorded per call)']
    ck.assumptions += ['full-validation path only (height above the checkpoint horizon)',
                       '"prior state left exactly as it was" is a tie obligation (digest before/after), not a theorem: '
                       'the functional model cannot mutate its argument']
    ck.build(extract=True)
    consensus_check.run_consensus(ck, TAGS, oracle, tier)
    try:
        consensus_check.node_relay_probe(ck, tier, TAGS)
    except Exception:
        import traceback
        tb = traceback.format_exc()
        if 'could not mine a block' not in tb:
            ck.disagree('node-level relay probe crashed: %s' % tb[-500:], {})
    return ck.finish()


def replay(path):
    d = json.load(open(path))
    rp = d.get('replay', {})
    if 'block' in rp:
        v = consensus_check.replay_case(rp)
        print('mutant', rp.get('label'), '-> implementation verdict', v, '(1 = accepted)')
        return 1 if v[0] == 1 else 0
    print(json.dumps(d, indent=1)[:3000])
    return 1
