"""Chain generator: random block trees with wallet-signed transactions, assembled independently of the
implementation's own constructors (spec.py), plus single-defect mutators (one per rule the validator distinguishes).
Runs the implementation under test parameters patched from outside (no source change)."""
import hashlib

import ecdsa

import spec
import common


def fast_scrypt(password, salt):
    return hashlib.sha256(b'skv-scrypt-stand-in' + password + salt).digest()


class Env:
    """test parameters: checkpoint horizon -1, short retarget period, fast scrypt stand-in"""

    def __init__(self, period=5, block_span=120, hz=-1, known=None, fast=True, interval=None):
        self.period = period
        self.span = period * block_span
        self.hz = hz
        self.known = known if known is not None else {}
        self.fast = fast
        self.interval = interval
        self.saved = []

    def _everywhere(self, name, val):
        """set a parameter wherever the package looks it up: in the module that defines it and in every module that
        imported the name (`from .params import X`) -- so that `X`, `params.X` and `consensus.X` all see the test value"""
        import sys
        for mn, mod in list(sys.modules.items()):
            if (mn == 'skepticoin' or mn.startswith('skepticoin.')) and mod is not None and name in getattr(mod, '__dict__', {}):
                self.saved.append((mod, name, mod.__dict__[name]))
                setattr(mod, name, val)

    def __enter__(self):
        from skepticoin import consensus as C   # noqa (makes sure the package's modules are loaded)
        from skepticoin import params, cheating, hash as H   # noqa
        for name, val in (('MAX_KNOWN_HASH_HEIGHT', self.hz), ('KNOWN_HASHES', self.known),
                          ('BLOCKS_BETWEEN_TARGET_READJUSTMENT', self.period),
                          ('DESIRED_TARGET_READJUSTMENT_TIMESPAN', self.span)):
            self._everywhere(name, val)
        if self.interval is not None:
            self._everywhere('SUBSIDY_HALVING_INTERVAL', self.interval)
        self.scrypt = H.scrypt
        if self.fast:
            self._everywhere('scrypt', fast_scrypt)
            self.scrypt = fast_scrypt
        return self

    def __exit__(self, *a):
        for mod, name, val in reversed(self.saved):
            setattr(mod, name, val)
        self.saved = []

    def subsidy(self, height):
        return spec.subsidy(height, interval=self.interval or 1_050_000)

    def params_sx(self):
        from skepticoin import consensus as C
        from binascii import unhexlify
        return [self.hz + 1, [[h, unhexlify(v)] for h, v in sorted(self.known.items())], self.period, self.span,
                common.param('MAX_BLOCK_SIZE'), common.param('MAX_COINBASE_RANDOM_DATA_SIZE'), common.param('MAX_FUTURE_BLOCK_TIME'), common.param('MAX_SASHIMI'),
                common.param('SUBSIDY_HALVING_INTERVAL'), common.param('INITIAL_SUBSIDY'), common.param('CHAIN_SAMPLE_COUNT'), common.param('CHAIN_SAMPLE_SIZE')]


MALFORMED_PK = b'\x01' * 64      # 64 bytes that are not a point on secp256k1


class Keys:
    def __init__(self, n=6, offset=1000):
        self.sks = [ecdsa.SigningKey.from_secret_exponent(offset + i, curve=ecdsa.SECP256k1) for i in range(n)]
        self.pks = [sk.verifying_key.to_string() for sk in self.sks]
        self.by_pk = dict(zip(self.pks, self.sks))

    def sign(self, pk, message):
        return self.by_pk[pk].sign_deterministic(message, hashfunc=hashlib.sha1)


def mk_tx(inputs, outputs):
    """inputs: [(hash, index, sig)], sig: None -> placeholder, ('cb', h, data), ('sig', bytes); outputs [(value, pk)]"""
    from skepticoin.datatypes import Transaction, Input, Output, OutputReference
    from skepticoin.signing import SECP256k1PublicKey, SECP256k1Signature, SignableEquivalent, CoinbaseData
    ins = []
    for (h, i, sg) in inputs:
        if sg is None:
            s = SignableEquivalent()
        elif sg[0] == 'cb':
            s = CoinbaseData(sg[1], sg[2])
        else:
            s = SECP256k1Signature(sg[1])
        ins.append(Input(OutputReference(h, i), s))
    return Transaction(ins, [Output(v, SECP256k1PublicKey(pk)) for v, pk in outputs])


def signed_tx(keys, utxo, refs, outputs, sign_with=None, tamper=None):
    """spend refs (present in utxo: ref -> (value, pk)) to outputs; every input signed by the owner of the spent
    output (or by sign_with[ref] when given)"""
    unsigned = mk_tx([(h, i, None) for (h, i) in refs], outputs)
    msg = unsigned.signable_equivalent().serialize()
    ins = []
    for (h, i) in refs:
        pk = (sign_with or {}).get((h, i)) or utxo[(h, i)][1]
        ins.append((h, i, ('sig', keys.sign(pk, msg))))
    return mk_tx(ins, outputs)


class Node:
    """a block in the generated tree with the plain views needed to extend it"""

    def __init__(self, block, parent, utxo):
        self.block = block
        self.view = spec.BlockView(block)
        self.parent = parent
        self.utxo = utxo          # spec-level unspent set after this block
        self.id = self.view.id
        self.height = self.view.height

    def chain(self):
        out = []
        n = self
        while n is not None:
            out.append(n)
            n = n.parent
        return out[::-1]


def genesis_node():
    from skepticoin.datatypes import Block
    from skepticoin.genesis import genesis_block_data
    g = Block.deserialize(genesis_block_data)
    v = spec.BlockView(g)
    return Node(g, None, spec.apply_block({}, v))


def assemble(env, parent, txs, ts, miner_fields=None, overrides=None, mine=True, max_tries=200000):
    """independent block assembly on top of `parent` (a Node).  overrides: dict with any of height, prev, merkle,
    target, evidence(fn), nonce_start; returns an implementation Block whose id is below its target (when mine)"""
    from skepticoin.datatypes import Block, BlockHeader, BlockSummary, PowEvidence
    ov = overrides or {}
    chain = [n.view for n in parent.chain()]
    by_height = {v.height: v for v in chain}
    height = ov.get('height', parent.height + 1)
    prev = ov.get('prev', parent.id)
    ids = [spec.sha256d(t.serialize()) for t in txs]
    merkle = ov.get('merkle', spec.merkle_root(ids) if ids else b'\x00' * 32)
    if 'target' in ov:
        target = ov['target']
    else:
        target = spec.retarget(parent.view.target, parent.height + 1, ts, by_height, env.period, env.span)
    txb = [t.serialize() for t in txs]
    nonce = ov.get('nonce_start', 0)
    ev_height = ov.get('evidence_height', height)
    for _ in range(max_tries):
        summary = BlockSummary(height, prev, merkle, ts, target, nonce)
        sb = summary.serialize()
        ev = spec.evidence(sb, ev_height, ov.get('sample_chain', by_height), txb, env.scrypt)
        if 'evidence' in ov:
            ev = ov['evidence'](ev)
        header = BlockHeader(summary, PowEvidence(*ev))
        hid = spec.sha256d(header.serialize())
        below = hid < target
        if (not mine) or (below != ov.get('want_above_target', False)):
            return Block(header, list(txs))
        nonce += 1
    raise RuntimeError('could not mine a block (target %s)' % target.hex())


def coinbase(height, value, pk, data=b'skv'):
    return mk_tx([(b'\x00' * 32, 0, ('cb', height, data))], [(value, pk)])


class TreeGen:
    """grows a random block tree from genesis; every block is fully valid per spec"""

    def __init__(self, env, keys, rng):
        self.env = env
        self.keys = keys
        self.rng = rng
        self.genesis = genesis_node()
        self.nodes = [self.genesis]

    def spendable(self, node):
        return [(ref, vo) for ref, vo in node.utxo.items() if vo[1] in self.keys.by_pk]

    def random_txs(self, parent, maxtx=3, pending=None):
        rng = self.rng
        avail = self.spendable(parent)
        rng.shuffle(avail)
        txs = []
        fees = 0
        for _ in range(rng.choice([0, 0, 1, 1, 2, maxtx])):
            if not avail:
                break
            k = min(len(avail), rng.choice([1, 1, 2, 3]))
            chosen = [avail.pop() for _ in range(k)]
            tot = sum(vo[0] for _, vo in chosen)
            fee = rng.choice([0, 0, 1, 1000, tot // 10])
            nout = rng.choice([1, 1, 2, 3])
            rest = tot - fee
            if rest < nout:
                continue
            outs = []
            for j in range(nout):
                v = rest if j == nout - 1 else rng.randrange(1, rest - (nout - 1 - j) + 1)
                rest -= v
                outs.append((v, rng.choice(self.keys.pks)))
            txs.append(signed_tx(self.keys, parent.utxo, [r for r, _ in chosen], outs))
            fees += fee
        return txs, fees

    def extend(self, parent, txs=None, fees=0, dt=None, reward_delta=0, miner=None, zero_outputs=(), strip_reward=False):
        rng = self.rng
        if txs is None:
            txs, fees = self.random_txs(parent)
        ts = parent.view.time + (dt if dt is not None else rng.choice([1, 60, 100, 120, 150, 200, 300]))
        height = parent.height + 1
        if miner is None and getattr(self, 'malformed_rewards', False) and rng.random() < 0.2:
            miner = MALFORMED_PK
        cb = coinbase(height, self.env.subsidy(height) + fees + reward_delta, miner or rng.choice(self.keys.pks),
                      data=bytes([rng.randrange(256) for _ in range(rng.choice([0, 3, 8]))]) + b'#%d' % len(self.nodes))
        if strip_reward:
            cb.outputs = []          # a reward transaction without outputs (the reward is simply not claimed)
        if zero_outputs:
            # a reward transaction may carry zero-valued outputs (only the SUM of a reward is bounded)
            from skepticoin.datatypes import Output
            from skepticoin.signing import SECP256k1PublicKey
            cb.outputs = list(cb.outputs) + [Output(0, SECP256k1PublicKey(pk)) for pk in zero_outputs]
        blk = assemble(self.env, parent, [cb] + txs, ts)
        node = Node(blk, parent, spec.apply_block(parent.utxo, spec.BlockView(blk)))
        self.nodes.append(node)
        return node

    def grow(self, n, fork_p=0.3):
        for _ in range(n):
            r = self.rng.random()
            tips = [x for x in self.nodes if not any(y.parent is x for y in self.nodes)]
            if r < fork_p and len(self.nodes) > 1:
                parent = self.rng.choice(self.nodes)
            elif r < fork_p + (1 - fork_p) * 0.35:
                parent = self.rng.choice(tips)
            else:
                parent = max(self.nodes, key=lambda x: (x.height, -self.nodes.index(x)))
            self.extend(parent)
        return self.nodes


def grow_two_branches(tg, period):
    """main chain to height 2*period+1 and a side branch that forks at height 1 and reaches height 2*period-1 with
    different block spacing, so that retarget boundaries lie on both sides of the fork and the interval-start blocks
    differ between the branches"""
    n = tg.genesis
    n = tg.extend(n, dt=100)
    fork = n
    for _ in range(2 * period):
        n = tg.extend(n, dt=tg.rng.choice([90, 150]))
    m = fork
    for _ in range(2 * period - 2):
        m = tg.extend(m, dt=tg.rng.choice([40, 260]))
    return tg.nodes


def impl_state_from(nodes):
    """CoinState built by add_block_no_validation in the given arrival order"""
    from skepticoin.coinstate import CoinState
    cs = CoinState.empty()
    for n in nodes:
        cs = cs.add_block_no_validation(n.block)
    return cs


def digest_state(cs):
    """canonical digest of a CoinState: blocks (id, bytes, utxo, height index), tips, head -- sorted"""
    import render
    blocks = []
    for h, b in cs.block_by_hash.items():
        u = cs.unspent_transaction_outs_by_hash.get(h)
        bh = cs.block_by_height_by_hash.get(h)
        blocks.append([bytes(h), b.serialize(),
                       None if u is None else sorted([[bytes(r.hash), r.index, o.value, bytes(o.public_key.public_key)]
                                                      for r, o in u.items()]),
                       None if bh is None else sorted([[k, spec.sha256d(v.header.serialize())] for k, v in bh.items()])])
    blocks.sort(key=lambda x: x[0])
    return [blocks, sorted(bytes(h) for h in cs.heads.keys()),
            None if cs.current_chain_hash is None else bytes(cs.current_chain_hash)]


def digest_model_state(m):
    """same shape from the model's sx_state output"""
    blocks = []
    for e in m[0]:
        u = None if e[2][0] == 0 else sorted([list(x) for x in e[2][1]])
        bh = None if e[3][0] == 0 else sorted([list(x) for x in e[3][1]])
        blocks.append([e[0], e[1], u, bh])
    blocks.sort(key=lambda x: x[0])
    return [blocks, sorted(m[1]), None if m[2][0] == 0 else m[2][1]]
