"""C16 -- monetary schedule.  Decided by theorems over the definitions regenerated from /repo
(props/Properties_C16.v); this module adds the tie (docs/params.md vs constants, translator fallback comparison)
and the search for a failing height when a theorem or bridge lemma no longer checks."""
import json
import os
import re
import multiprocessing

import common

DOC_MAX = 2_099_999_986_350_000
DOC_INITIAL = 10 * 100_000_000
DOC_INTERVAL = 1_050_000
MAX_HEIGHT = 0xFFFFFFFF   # largest height a reward transaction can record (4-byte field)


def spec(h):
    return DOC_INITIAL // (2 ** (h // DOC_INTERVAL))


def parse_docs():
    txt = open(os.path.join(common.REPO, 'docs', 'params.md')).read()
    out = {}
    m = re.search(r'\*\s*([\d,]+)\s+coin subsidy', txt)
    out['subsidy_coin'] = int(m.group(1).replace(',', '')) if m else None
    m = re.search(r'\*\s*([\d,]+)\s+block halving interval', txt)
    out['halving'] = int(m.group(1).replace(',', '')) if m else None
    m = re.search(r'\*\s*([\d,]+)\.(\d+)\s+maximum total amount', txt)
    out['max_sashimi'] = int(m.group(1).replace(',', '') + m.group(2)) if m else None
    m = re.search(r'every\s+([\d,]+)\s+blocks the difficulty', txt)
    out['retarget'] = int(m.group(1).replace(',', '')) if m else None
    m = re.search(r'Max block size:\s*([\d,]+)\s+bytes', txt)
    out['max_block'] = int(m.group(1).replace(',', '')) if m else None
    return out


def _sweep(args):
    lo, hi = args
    import sys
    sys.path.insert(0, common.REPO)
    from skepticoin.consensus import get_block_subsidy
    total = 0
    prev = None
    bad = None
    for h in range(lo, hi):
        s = get_block_subsidy(h)
        if s != DOC_INITIAL // (2 ** (h // DOC_INTERVAL)) and bad is None:
            bad = h
        total += s
    return total, bad


def boundary_heights(rng, extra_literals):
    hs = set()
    for k in range(0, MAX_HEIGHT // DOC_INTERVAL + 2):
        for d in (-2, -1, 0, 1, 2):
            h = k * DOC_INTERVAL + d
            if 0 <= h <= MAX_HEIGHT:
                hs.add(h)
    for lit in extra_literals:
        for d in (-1, 0, 1):
            for mul in (1, DOC_INTERVAL):
                h = lit * mul + d
                if 0 <= h <= MAX_HEIGHT:
                    hs.add(h)
    for p in range(0, 33):
        for d in (-1, 0, 1):
            h = 2 ** p + d
            if 0 <= h <= MAX_HEIGHT:
                hs.add(h)
    hs.update([0, 1, MAX_HEIGHT, MAX_HEIGHT - 1])
    for _ in range(3000):
        hs.add(rng.randrange(0, MAX_HEIGHT + 1))
        hs.add(rng.randrange(0, 31 * DOC_INTERVAL))
    return sorted(hs)


def source_literals():
    import ast
    lits = set()
    try:
        tree = ast.parse(open(os.path.join(common.REPO, 'skepticoin', 'consensus.py')).read())
        for n in tree.body:
            if isinstance(n, ast.FunctionDef) and n.name in ('get_block_subsidy', 'validate_sashimi_range'):
                for c in ast.walk(n):
                    if isinstance(c, ast.Constant) and isinstance(c.value, int) and not isinstance(c.value, bool):
                        lits.add(c.value)
    except Exception:
        pass
    return sorted(lits)


def run(tier, seed):
    ck = common.Check('C16', tier, seed)
    ck.rule = ('heights: every era boundary k*1,050,000 +-2 up to 2^32-1, every integer literal of the source +-1, '
               'powers of two +-1, 6000 seeded random heights (thorough: all 31.5M heights with non-zero subsidy); '
               'each height compared with 10^9 // 2^(h // 1050000); non-trivial = distinct height')
    ck.trusted += ['translator /verif/translator/py2coq.py (constants by evaluating params.py; get_block_subsidy and '
                   'validate_sashimi_range by AST)', 'docs/params.md regex extraction']
    ck.assumptions += ['heights are non-negative integers (Python int); no 2^64 wrap exists in the code']
    r = ck.build()

    from skepticoin import consensus, params

    # --- tie: documented numbers vs shipped constants
    docs = parse_docs()
    ck.extra['docs_params'] = docs
    doc_pairs = [('subsidy_coin', params.INITIAL_SUBSIDY, (docs['subsidy_coin'] or 0) * params.SASHIMI_PER_COIN),
                 ('halving', params.SUBSIDY_HALVING_INTERVAL, docs['halving']),
                 ('max_sashimi', params.MAX_SASHIMI, docs['max_sashimi'])]
    for name, have, want in doc_pairs:
        ck.case(('doc', name), sample={'documented': name, 'doc': want, 'code': have})
        if have != want:
            ck.violation('doc-mismatch-' + name, 'constant %s = %r differs from docs/params.md (%r)' % (name, have, want),
                         {'kind': 'doc', 'name': name, 'code': have, 'doc': want})
    if (docs['max_sashimi'], docs['halving'], (docs['subsidy_coin'] or 0) * 10 ** 8) != (DOC_MAX, DOC_INTERVAL, DOC_INITIAL):
        ck.violation('doc-changed', 'docs/params.md no longer states the documented schedule', {'kind': 'doc', 'docs': docs})

    # --- search / behavioural comparison (always run: cheap, and it is the fallback tie when the translator fell back)
    f = consensus.get_block_subsidy
    prev = None
    for h in boundary_heights(ck.rng, source_literals()):
        try:
            s = f(h)
        except Exception as e:
            ck.violation('subsidy-raises', 'get_block_subsidy(%d) raises %s' % (h, type(e).__name__),
                         {'kind': 'height', 'height': h})
            break
        ck.case(('h', h), sample={'height': h, 'subsidy': s} if h in (0, DOC_INTERVAL - 1, DOC_INTERVAL, 31499999, 31500000) else None,
                kind='zero' if s == 0 else 'era%d' % (h // DOC_INTERVAL))
        if s != spec(h):
            ck.violation('subsidy-value', 'get_block_subsidy(%d) = %d, documented schedule gives %d' % (h, s, spec(h)),
                         {'kind': 'height', 'height': h, 'got': s, 'want': spec(h)})
            break
        if prev is not None and s > prev[1]:
            ck.violation('subsidy-increases', 'subsidy rises from height %d to %d' % (prev[0], h),
                         {'kind': 'height', 'height': h})
            break
        prev = (h, s)
    # total by eras (exact if the function is constant inside eras, which the sweep / theorem establishes)
    try:
        total = sum(f(k * DOC_INTERVAL) * DOC_INTERVAL for k in range(0, 70))
    except Exception:
        total = -1
    ck.case(('total',), sample={'era_total': total})
    if total != DOC_MAX or params.MAX_SASHIMI != DOC_MAX:
        ck.violation('total-supply', 'sum of subsidies over all eras = %d, MAX_SASHIMI = %d, documented %d'
                     % (total, params.MAX_SASHIMI, DOC_MAX), {'kind': 'total', 'total': total})
    # validator limit
    for v in (-1, 0, 1, 2, DOC_MAX - 1, DOC_MAX, DOC_MAX + 1, 2 ** 48, 2 ** 63, 2 ** 64 - 1, 2 ** 64):
        try:
            consensus.validate_sashimi_range(v)
            ok = True
        except consensus.ValidationError:
            ok = False
        ck.case(('range', v), kind='range')
        if ok != (0 < v <= DOC_MAX):
            ck.violation('range-limit', 'validate_sashimi_range(%d) %s' % (v, 'accepts' if ok else 'rejects'),
                         {'kind': 'range', 'value': v})
    # the schedule as the validator enforces it: with a short halving interval (parameter override), rewards at the last
    # height of an era, the first height of the next and one later are bounded by the subsidy OF THAT HEIGHT
    import chaingen
    import consensus_check
    import mutators
    keys = chaingen.Keys()
    with chaingen.Env(period=50, interval=4) as env:
        tg = chaingen.TreeGen(env, keys, ck.rng)
        n = tg.genesis
        for hgt in range(1, 10):
            cs = chaingen.impl_state_from(tg.nodes)
            cases_ = mutators.mutants(tg, n, ck.rng, tags=('C02', 'C05'))
            if hgt > 4:
                # a block that reports a height of an EARLIER era (consistently: summary, reward data, evidence) and claims
                # that era's subsidy
                old_h = 1
                cbx = chaingen.coinbase(old_h, env.subsidy(old_h), keys.pks[0], b'era')
                try:
                    blkx = chaingen.assemble(env, n, [cbx], n.view.time + 120, overrides={'height': old_h, 'evidence_height': old_h})
                    cases_.append({'label': 'reward-of-earlier-era-with-that-eras-height', 'tag': 'C02', 'block': blkx,
                                   'now': n.view.time + 120, 'expect': 'reject'})
                except Exception:
                    pass
            for c in cases_:
                if not c['label'].startswith(('reward-', 'control-reward', 'control-plain', 'control-empty', 'height-')):
                    continue
                v, _ = consensus_check.impl_verdict(cs, c['block'], c['now'])
                ck.case(('validator', hgt, c['label']), kind='validator/%s' % ('accept' if v == [1] else 'reject'))
                if (v == [1]) != (c['expect'] == 'accept'):
                    ck.violation('validator-reward-bound-height-%d' % hgt,
                                 'with halving interval 4, a block at height %d (subsidy %d) with %s is %s by full validation'
                                 % (hgt, env.subsidy(hgt), c['label'], 'accepted' if v == [1] else 'rejected'),
                                 {'kind': 'validator', 'height': hgt, 'label': c['label'], 'interval': 4,
                                  'prefix': [m.block.serialize().hex() for m in tg.nodes], 'block': c['block'].serialize().hex(),
                                  'now': c['now'], 'period': 50, 'span': env.span})
            n = tg.extend(n, txs=[], fees=0)
    # the limits apply to every block's content, also to a block that carries the header of a checkpointed block: a block id
    # covers the header only, so the checkpointed id says nothing about the transactions that come with it
    try:
        from skepticoin.datatypes import Block as _Block
        from skepticoin.humans import human as _human
        with chaingen.Env(period=50) as env_:
            tg_ = chaingen.TreeGen(env_, keys, ck.rng)
            n_ = tg_.genesis
            for _ in range(3):
                n_ = tg_.extend(n_, txs=[], fees=0, dt=100)
            pinned = n_
        with chaingen.Env(period=50, hz=pinned.height, known={0: _human(tg_.genesis.id), pinned.height: _human(pinned.id)}):
            for label_, cbv in (('reward of 2^64-1', 2 ** 64 - 1), ('reward of the whole supply', DOC_MAX), ('reward above the maximum', DOC_MAX + 1)):
                fake = _Block(pinned.block.header, [chaingen.coinbase(pinned.height, cbv, keys.pks[0], b'pin')])
                try:
                    consensus.validate_block_by_itself(fake, pinned.view.time + 1)
                    okp = True
                except Exception:
                    okp = False
                ck.case(('pinned-header', label_), kind='checkpointed-header-with-other-content')
                if okp:
                    ck.violation('range-limit', 'a block carrying the header of a checkpointed block and a %s passes the stand-alone block '
                                 'validation' % label_, {'kind': 'pinned-header', 'what': label_})
    except Exception as e:
        ck.disagree('checkpointed-header probe raised %r' % (e,), {})
    # the amount limit as transaction validation enforces it: a transaction whose only defect is an amount outside
    # (0, maximum] is refused EVERY time it is presented
    import gen
    from skepticoin.datatypes import Output
    for v in (0, DOC_MAX + 1, 2 ** 63, 2 ** 64 - 1, (DOC_MAX, 1), (DOC_MAX, DOC_MAX, DOC_MAX), (1, DOC_MAX)):
        t = gen.g_tx(ck.rng, nin=1, nout=1)
        t.outputs = [Output(x_, t.outputs[0].public_key) for x_ in (v if isinstance(v, tuple) else (v,))]
        verdicts = []
        for k in range(3):
            try:
                consensus.validate_non_coinbase_transaction_by_itself(t)
                verdicts.append(True)
            except consensus.ValidationError:
                verdicts.append(False)
            except Exception:
                verdicts.append(False)
        ck.case(('tx-range', v), kind='tx-range')
        if any(verdicts):
            ck.violation('range-limit', 'a transaction with outputs %s passes transaction validation on presentation #%d'
                         % (v, verdicts.index(True) + 1), {'kind': 'range', 'value': v, 'presentations': verdicts})
    # ... and the limit IS the documented maximum, for a total as for a single amount: a transaction whose outputs add up to
    # exactly the maximum is within it
    for v in ((DOC_MAX,), (DOC_MAX - 1, 1), (1, DOC_MAX - 1), (DOC_MAX // 2, DOC_MAX - DOC_MAX // 2), (1,), (1, 1)):
        t = at_limit_tx(v)
        try:
            consensus.validate_non_coinbase_transaction_by_itself(t)
            okv = True
        except Exception:
            okv = False
        ck.case(('tx-range-at-limit', v), kind='tx-range')
        if not okv:
            ck.violation('range-limit', 'a transaction with outputs %s (total %d, within the documented maximum %d) is refused by '
                         'transaction validation' % (v, sum(v), DOC_MAX), {'kind': 'range-total', 'values': list(v)})
    # the schedule is a function of the height alone, also when two threads (miner, validator) ask at the same time for
    # heights on both sides of a halving: interpreter switch interval forced down, every answer compared
    import sys
    import threading
    old_si = sys.getswitchinterval()
    sys.setswitchinterval(1e-6)
    wrong = []
    try:
        def hammer(hs):
            for k in range(60000 if tier == 'quick' else 600000):
                h = hs[k & 1]
                v = f(h)
                if v != spec(h):
                    wrong.append((h, v))
                    return
        ths = [threading.Thread(target=hammer, args=((DOC_INTERVAL - 1, DOC_INTERVAL),)),
               threading.Thread(target=hammer, args=((DOC_INTERVAL, 2 * DOC_INTERVAL + 5),)),
               threading.Thread(target=hammer, args=((3, 40 * DOC_INTERVAL),))]
        for t_ in ths:
            t_.start()
        for t_ in ths:
            t_.join()
    finally:
        sys.setswitchinterval(old_si)
    ck.case(('threads',), kind='three-threads-across-halvings')
    after = [(h, f(h)) for h in (0, DOC_INTERVAL - 1, DOC_INTERVAL, 2 * DOC_INTERVAL, 5)]
    if wrong or any(v != spec(h) for h, v in after):
        h_, v_ = wrong[0] if wrong else [x for x in after if x[1] != spec(x[0])][0]
        ck.violation('subsidy-value', 'with three threads asking for heights on both sides of halvings, get_block_subsidy(%d) '
                     'returned %d (schedule: %d)%s' % (h_, v_, spec(h_), '' if wrong else ' -- and keeps doing so afterwards'),
                     {'kind': 'threads', 'height': h_, 'got': v_})
    if tier == 'thorough':
        n = 31 * DOC_INTERVAL
        step = n // 64 + 1
        with multiprocessing.Pool(16) as pool:
            res = pool.map(_sweep, [(lo, min(lo + step, n)) for lo in range(0, n, step)])
        tot = sum(t for t, _ in res)
        bad = [b for _, b in res if b is not None]
        ck.evaluations += n
        ck.extra['exhaustive'] = True
        ck.extra['full_sweep_heights'] = n
        ck.extra['full_sweep_total'] = tot
        if bad:
            h = min(bad)
            ck.violation('subsidy-value', 'get_block_subsidy(%d) = %d, documented schedule gives %d' % (h, f(h), spec(h)),
                         {'kind': 'height', 'height': h})
        if tot != DOC_MAX:
            ck.violation('total-supply', 'sum over all heights = %d' % tot, {'kind': 'total', 'total': tot})
    return ck.finish()


def at_limit_tx(values):
    """a transaction with one ordinary input (no defect visible to stand-alone validation) and the given output amounts"""
    import random
    import gen
    from skepticoin.datatypes import Input, Output, OutputReference, Transaction
    r = random.Random(7)
    return Transaction([Input(OutputReference(b'\x11' * 32, 0), gen.g_sig(r, 2))], [Output(x_, gen.g_pk(r)) for x_ in values])


def replay(path):
    d = json.load(open(path))
    rp = d.get('replay', {})
    from skepticoin import consensus
    if rp.get('kind') == 'height':
        h = rp['height']
        try:
            got = consensus.get_block_subsidy(h)
        except Exception as e:
            got = 'raises %r' % (e,)
        print('get_block_subsidy(%d) = %s ; documented schedule: %d' % (h, got, spec(h)))
        return 0 if got == spec(h) else 1
    if rp.get('kind') == 'validator':
        import consensus_check
        v = consensus_check.replay_case(rp)
        print('block at height %d (%s) -> implementation verdict %s (1 = accepted)' % (rp['height'], rp['label'], v))
        return 1 if (v[0] == 1) != rp['label'].startswith('control') else 0
    if rp.get('kind') == 'range-total':
        import random
        import gen
        from skepticoin.datatypes import Output
        t = at_limit_tx(rp['values'])
        try:
            consensus.validate_non_coinbase_transaction_by_itself(t)
            print('outputs', rp['values'], 'accepted')
            return 0
        except Exception as e:
            print('outputs', rp['values'], 'refused: %r' % (e,))
            return 1
    print(json.dumps(d, indent=1))
    return 1
