import argparse
import importlib
import os
import sys

sys.path.insert(0, os.path.dirname(os.path.abspath(__file__)))
import common  # noqa


def main():
    ap = argparse.ArgumentParser()
    ap.add_argument('pid')
    ap.add_argument('--tier', default=os.environ.get('VERIF_TIER', 'quick'))
    ap.add_argument('--replay', default=None)
    a = ap.parse_args()
    seed = int(os.environ.get('VERIF_SEED', '0') or 0)
    tier = a.tier if a.tier in ('quick', 'thorough') else 'quick'
    if a.pid == 'replay':
        import json
        d = json.load(open(a.replay))
        a.pid = d['property']
    mod = importlib.import_module('check_%s' % a.pid)
    with common.Scratch():
        common.repo_import_setup()
        if a.replay:
            rc = mod.replay(a.replay)
        else:
            rc = mod.run(tier, seed)
    sys.exit(rc)


if __name__ == '__main__':
    main()
