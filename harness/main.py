import argparse
import importlib
import os
import sys

sys.path.insert(0, os.path.dirname(os.path.abspath(__file__)))
import common  # noqa


def main():
    ap = argparse.ArgumentParser()
    ap.add_argument('pid')
    ap.add_argument('--tier', default=os.environ.get('VERIF_TIER', 'quick'))
    ap.add_argument('--replay', default=None)
    a = ap.parse_args()
    seed = int(os.environ.get('VERIF_SEED', '0') or 0)
    tier = a.tier if a.tier in ('quick', 'thorough') else 'quick'
    if a.pid == 'replay':
        import json
        d = json.load(open(a.replay))
        a.pid = d['property']
        rp_ = d.get('replay') if isinstance(d.get('replay'), dict) else {}
        if rp_.get('interpreter') == 'python -O' and sys.flags.optimize == 0:
            # the violation was found in an interpreter started with -O: replay it the same way
            os.execv(sys.executable, [sys.executable, '-O', os.path.abspath(__file__), 'replay', '--replay', a.replay])
    # last resort: a check that does not come back (an implementation change that blocks for ever outside every guarded
    # region) is reported, not left hanging
    import threading

    def _never_came_back(pid=a.pid, tier=tier):
        sys.stdout.write('VIOLATION property=%s replay=%s no-failing-input-found\n' % (pid, os.path.join(common.EVID, '%s.json' % pid)))
        sys.stdout.write('%s FAIL tier=%s (the check did not terminate within its time limit)\n' % (pid, tier))
        sys.stdout.flush()
        os._exit(1)
    _wd = threading.Timer(3600 if tier == 'quick' else 6 * 3600, _never_came_back)
    _wd.daemon = True
    _wd.start()
    mod = importlib.import_module('check_%s' % a.pid)
    with common.Scratch():
        common.repo_import_setup()
        if a.replay:
            rc = mod.replay(a.replay)
        else:
            try:
                rc = mod.run(tier, seed)
            except Exception:
                # the harness could not drive the implementation (an interface the tie relies on is gone or behaves
                # differently): the correspondence no longer checks.  Never happens on the unchanged tree.
                import hashlib
                import json
                import traceback
                tb = traceback.format_exc()
                sys.stderr.write(tb)
                os.makedirs(common.REPLAYS, exist_ok=True)
                path = os.path.join(common.REPLAYS, '%s-unproved-%s.json' % (a.pid, hashlib.sha256(tb.encode()).hexdigest()[:12]))
                json.dump({'property': a.pid, 'seed': seed, 'tier': tier,
                           'no_longer_checks': [{'kind': 'correspondence', 'where': 'the harness could not drive the implementation',
                                                 'replay': {'trace': tb[-3000:]}}],
                           'note': 'the correspondence harness raised while running against the current /repo; no input on '
                                   'which the property statement itself fails was found'}, open(path, 'w'), indent=1)
                print('VIOLATION property=%s replay=%s no-failing-input-found' % (a.pid, path))
                print('%s FAIL tier=%s seed=%d (harness exception)' % (a.pid, tier, seed))
                rc = 1
    _sweep_debug_dumps(_t_start)
    sys.exit(rc)


_t_start = __import__('time').time() - 1


def _sweep_debug_dumps(since):
    """the implementation dumps every admitted transaction to /tmp/<id>.transaction (DiskInterface.
    save_transaction_for_debugging); remove the ones this run produced"""
    import glob
    for f in glob.glob('/tmp/*.transaction'):
        try:
            if os.path.getmtime(f) >= since:
                os.unlink(f)
        except OSError:
            pass


if __name__ == '__main__':
    main()
