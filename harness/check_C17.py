"""C17 -- merkle commitment binds the ordered id list; inclusion proofs verify.
Theorems: props/Properties_C17.v.  Tie: get_merkle_root / get_merkle_tree / get_proof against the extracted model
(real sha256d through an oracle transcript, so the tree SHAPE is compared: a model hash query the code never made is a
disagreement).  Search oracle: two different lists with the same root; a proof that lacks the entry or misses the root."""
import json

import common
import gen
import model
import spec


def r_node(n):
    if not n.children:
        return [n.index, bytes(n.value)]
    return [n.index, r_node(n.children[0]), r_node(n.children[1])]


def proof_leaves(n):
    if not n.children:
        return [(n.index, bytes(n.value))]
    return proof_leaves(n.children[0]) + proof_leaves(n.children[1])


def edits(rng, l):
    """structural edits named by the property"""
    out = []
    n = len(l)
    out.append(('append-dup-last', l + [l[-1]]))
    out.append(('append-new', l + [gen.rb(rng, 32)]))
    if n >= 2:
        out.append(('remove-last', l[:-1]))
        i = rng.randrange(n)
        out.append(('remove', l[:i] + l[i + 1:]))
        i, j = rng.sample(range(n), 2)
        sw = list(l)
        sw[i], sw[j] = sw[j], sw[i]
        out.append(('swap', sw))
        out.append(('rotate', l[1:] + l[:1]))
        out.append(('reverse', l[::-1]))
    i = rng.randrange(n)
    out.append(('substitute', l[:i] + [gen.rb(rng, 32)] + l[i + 1:]))
    out.append(('dup-at', l[:i + 1] + [l[i]] + l[i + 1:]))
    out.append(('double', l + l))
    if n >= 3:
        # classic: replace a pair by its parent hash (needs domain separation; reported separately)
        pass
    return out


def node_level(ck, tier):
    """the commitment where it is enforced: whatever path a block takes into a node (relayed, reply during a bulk download,
    at a checkpointed height with the checkpointed header), the transactions it is stored with are the ones its header
    commits to"""
    import chaingen
    import nodeharness
    import simnet
    from skepticoin.datatypes import Block
    from skepticoin.humans import human
    from skepticoin import merkletree as MT
    from skepticoin.networking import messages as M
    rng = ck.rng
    keys = chaingen.Keys()
    with chaingen.Env(period=50) as env0:
        tg = chaingen.TreeGen(env0, keys, rng)
        n = tg.genesis
        for j_ in range(5):
            n = tg.extend(n, dt=100) if j_ != 3 else tg.extend(n, txs=[], fees=0, dt=100)     # main[4]: reward transaction only
        main = list(tg.nodes)
    k = 4                                           # main[4] is a checkpointed height in the second half of the probe
    for horizon in (False, True):
        envkw = dict(period=50)
        if horizon:
            envkw.update(hz=k, known={0: human(main[0].id), k: human(main[k].id)})
        with chaingen.Env(**envkw) as env:
            with simnet.Net(seed=rng.getrandbits(30), t0=main[-1].view.time + 5000) as net:
                have = main[:k]
                sn = nodeharness.SingleNode(net, chaingen.impl_state_from(have), [m.block for m in have[1:]], npeers=2)
                sn.new_messages()
                target = main[k]
                extra = chaingen.coinbase(target.height, 1, keys.pks[2], b'extra')
                other_cb = chaingen.coinbase(target.height, env.subsidy(target.height), keys.pks[3], b'other')
                genuine = list(target.block.transactions)
                variants = [('transaction-appended', genuine + [extra]), ('reward-substituted', [other_cb] + genuine[1:]),
                            ('last-transaction-duplicated', genuine + [genuine[-1]])]
                for irt in (0, 71):
                    for name, txs in variants:
                        fake = Block(target.block.header, txs)
                        before = sn.observe()
                        sn.deliver(rng.randrange(2), M.DataMessage(M.DATA_BLOCK, fake), irt=irt)
                        cs = sn.lp().chain_manager.coinstate
                        ck.case(('node', horizon, irt, name), kind='node-level/%s%s/%s' % ('reply' if irt else 'relayed', '-at-checkpoint' if horizon else '', name))
                        stored = cs.block_by_hash.get(target.id)
                        if stored is not None:
                            ids = [spec.sha256d(t.serialize()) for t in stored.transactions]
                            if MT.get_merkle_root(ids) != bytes(stored.header.summary.merkle_root_hash):
                                ck.violation('stored-block-breaks-commitment', 'a block delivered as a %s%s with its genuine header and an '
                                             'altered transaction list (%s) is part of the chain state: its transactions do not hash to '
                                             'the commitment in its header' % ('reply during a bulk download' if irt else 'relayed block',
                                                                                ' at a checkpointed height' if horizon else '', name),
                                             {'node_level': True, 'checkpointed': horizon, 'in_response_to': irt, 'variant': name,
                                              'block': fake.serialize().hex()})
                                return
                        if sn.node.escaped:
                            ck.violation('exception-escaped', 'an exception escaped the event handler: %s' % sn.node.escaped[0][1],
                                         {'node_level': True})
                            return


def run(tier, seed):
    ck = common.Check('C17', tier, seed)
    ck.rule = ('lists of 32-byte ids of every length 1..33 (thorough: ..80), random and with repeated entries (equal '
               'neighbours on pair boundaries, all-equal lists); for each list every position gets an inclusion proof; '
               'every structural edit (append, duplicate-last, remove, swap, rotate, reverse, substitute, duplicate-at, '
               'double) is compared by root; root/tree/proof compared with the extracted model; non-trivial = distinct '
               '(list, position or edit)')
    ck.trusted += ['extraction + OCaml driver', 'sha256d as oracle transcript recorded from hashlib while the code runs']
    ck.assumptions += ['sha256d(a||b) injective and ids are not themselves sha256d(a||b) values (explicit premises of '
                       'C17_injective); the symbolic theorem C17_sym_injective needs neither']
    r = ck.build(extract=True)
    from skepticoin import merkletree as MT
    rng = ck.rng
    maxlen = 33 if tier == 'quick' else 80
    lists = []
    for n in range(1, maxlen + 1):
        lists.append(('random', [gen.rb(rng, 32) for _ in range(n)]))
        base = [gen.rb(rng, 32) for _ in range(3)]
        lists.append(('repeats', [rng.choice(base) for _ in range(n)]))
        if n <= 12:
            lists.append(('all-equal', [base[0]] * n))
            l = [gen.rb(rng, 32) for _ in range(n)]
            l[-1] = l[max(0, n - 2)]
            lists.append(('last-two-equal', l))
    reqs = []
    expect = []
    for kind, l in lists:
        with model.Transcript() as tr:
            try:
                root = MT.get_merkle_root(list(l))
                tree = MT.get_merkle_tree(list(l))
            except Exception as e:
                ck.violation('merkle-raises', 'get_merkle_root/get_merkle_tree raises %s on a %d-element list'
                             % (type(e).__name__, len(l)), {'list': [x.hex() for x in l]})
                continue
            if tree.hash() != root:
                ck.violation('tree-root-mismatch', 'get_merkle_tree(l).hash() != get_merkle_root(l)',
                             {'list': [x.hex() for x in l]})
            ck.case(('root', tuple(l)), kind='root/' + kind)
            reqs.append(('merkle_root', tr.table(), list(l)))
            expect.append(('root', l, None, [1, root]))
            positions = range(len(l)) if (len(l) <= 33 or tier == 'thorough') else rng.sample(range(len(l)), 10)
            for i in positions:
                try:
                    pf = MT.get_proof(tree, i)
                    ph = pf.hash()
                    repr(pf)
                    if pf.hash() != ph:
                        ck.violation('proof-not-stable', 'an inclusion proof hashes to a different value the second time it is hashed '
                                     '(position %d of %d)' % (i, len(l)), {'list': [x.hex() for x in l], 'index': i})
                except Exception as e:
                    ck.violation('proof-raises', 'get_proof raises %s' % type(e).__name__,
                                 {'list': [x.hex() for x in l], 'index': i})
                    continue
                ck.case(('proof', tuple(l), i), kind='proof/' + kind,
                        sample={'len': len(l), 'index': i, 'proof': repr(r_node(pf))[:200]} if len(l) == 5 and i == 4 and len(ck.samples) < 3 else None)
                if ph != root:
                    ck.violation('proof-misses-root', 'inclusion proof for position %d of a %d-element list does not hash '
                                 'to the commitment' % (i, len(l)), {'list': [x.hex() for x in l], 'index': i})
                try:
                    leaves_ = proof_leaves(pf)
                except Exception as e:
                    leaves_ = []
                    ck.violation('proof-not-walkable', 'an inclusion proof cannot be walked after it was hashed (%s): its nodes do not '
                                 'hold their children' % type(e).__name__, {'list': [x.hex() for x in l], 'index': i})
                    continue
                if (i, l[i]) not in leaves_:
                    ck.violation('proof-lacks-entry', 'inclusion proof for position %d of a %d-element list does not '
                                 'contain the entry at that position' % (i, len(l)),
                                 {'list': [x.hex() for x in l], 'index': i})
                reqs.append(('merkle_proof', tr.table(), [list(l), i]))
                expect.append(('proof', l, i, [1, r_node(tree), r_node(pf), ph]))
            # structural edits
            if len(l) <= 20:
                for ename, l2 in edits(rng, l):
                    if l2 == l or not l2:
                        continue
                    root2 = MT.get_merkle_root(list(l2))
                    ck.case(('edit', tuple(l), ename, tuple(l2)), kind='edit/' + ename)
                    if root2 == root:
                        ck.violation('commitment-collision', 'edit "%s" of a %d-element id list leaves the commitment '
                                     'unchanged' % (ename, len(l)),
                                     {'list': [x.hex() for x in l], 'edited': [x.hex() for x in l2], 'edit': ename})
    # the commitment as used by block validation
    try:
        from skepticoin import consensus as C

        class T:
            def __init__(self, h):
                self.h = h

            def hash(self):
                return self.h
        for kind, l in lists[:40]:
            if C.calc_merkle_root_hash([T(x) for x in l]) != MT.get_merkle_root(list(l)):
                ck.violation('validator-uses-other-root', 'calc_merkle_root_hash differs from get_merkle_root',
                             {'list': [x.hex() for x in l]})
            ck.case(('calc', tuple(l)), kind='calc_merkle_root_hash')
    except Exception as e:
        ck.disagree('calc_merkle_root_hash raised %r' % (e,), {})
    # the commitment of real transaction lists, computed in sequences of calls in which consecutive lists differ in ONE
    # field of one transaction (reward height / data, an output value, a signature, the order) or are edited in place
    try:
        import copy
        import chaingen
        from skepticoin.datatypes import Transaction
        for trial in range(30 if tier == 'quick' else 1500):
            n = rng.choice([1, 1, 2, 3, 5])
            hgt = rng.randrange(1, 1000)
            base = [chaingen.coinbase(hgt, 10 ** 9, gen.rb(rng, 64), b'd')] + [gen.g_tx(rng, nin=rng.choice([1, 2]), nout=rng.choice([1, 2])) for _ in range(n - 1)]
            seq = [('base', base)]
            seq.append(('reward-height', [chaingen.coinbase(hgt + 1, 10 ** 9, base[0].outputs[0].public_key.public_key, b'd')] + base[1:]))
            seq.append(('reward-data', [chaingen.coinbase(hgt + 1, 10 ** 9, base[0].outputs[0].public_key.public_key, b'e')] + base[1:]))
            seq.append(('base-again', list(base)))
            if n >= 2:
                from skepticoin.datatypes import Output
                o0 = base[1].outputs[0]
                t = Transaction(inputs=list(base[1].inputs), outputs=[Output(o0.value ^ 1, o0.public_key)] + list(base[1].outputs[1:]))
                seq.append(('output-value', [base[0], t] + base[2:]))
                seq.append(('dup-last', base + [base[-1]]))
                seq.append(('reversed-tail', [base[0]] + base[1:][::-1]))
            inplace = list(base)
            seq.append(('inplace-before', inplace))
            for name, txs in seq:
                ids = [spec.sha256d(t.serialize()) for t in txs]
                got = C.calc_merkle_root_hash(txs)
                ck.case(('seq', trial, name), kind='calc-sequence/' + name)
                if got != MT.get_merkle_root(ids):
                    ck.violation('validator-root-stale', 'calc_merkle_root_hash on a transaction list (%s, after the calls %s) is '
                                 'not the commitment of its ids' % (name, [x[0] for x in seq[:[x[0] for x in seq].index(name)]]),
                                 {'sequence': [[nm, [t.serialize().hex() for t in l_]] for nm, l_ in seq], 'at': name})
                    break
                if name == 'base' and n >= 1:
                    # the SAME transaction objects, one of them altered in place after its id was used (reward data rolled,
                    # an output value changed): the commitment follows the content
                    alt = list(txs)
                    try:
                        alt[-1].outputs[0].value = alt[-1].outputs[0].value ^ 1
                        want_ids = [spec.sha256d(t.serialize()) for t in alt]
                        if C.calc_merkle_root_hash(alt) != MT.get_merkle_root(want_ids):
                            ck.violation('validator-root-stale-object', 'calc_merkle_root_hash over transaction objects one of '
                                         'which was altered in place after its id had been used is not the commitment of the '
                                         'ids of what the list now encodes to', {'at': 'object-altered-in-place'})
                        alt[-1].outputs[0].value = alt[-1].outputs[0].value ^ 1
                    except AttributeError:
                        pass
                if name == 'inplace-before':
                    inplace.append(gen.g_tx(rng, nin=1, nout=1))
                    if C.calc_merkle_root_hash(inplace) != MT.get_merkle_root(ids + [spec.sha256d(inplace[-1].serialize())]):
                        ck.violation('validator-root-stale-inplace', 'calc_merkle_root_hash after appending to the same list '
                                     'object is not the commitment of its ids', {'at': 'inplace'})
    except Exception as e:
        import traceback
        ck.disagree('calc_merkle_root_hash sequence probe raised %r' % (e,), {'trace': traceback.format_exc()[-600:]})
    try:
        node_level(ck, tier)
    except Exception:
        import traceback
        tb = traceback.format_exc()
        if 'could not mine a block' not in tb:
            ck.disagree('node-level commitment probe crashed: %s' % tb[-500:], {})
    if r.ok:
        outs = model.run_batch(reqs)
        for (what, l, i, want), got in zip(expect, outs):
            if got != want:
                ck.disagree('merkletree.%s vs model' % ('get_merkle_root' if what == 'root' else 'get_merkle_tree/get_proof'),
                            {'list': [x.hex() for x in l], 'index': i, 'impl': repr(want)[:300], 'model': repr(got)[:300]})
        ck.extra['traces_validated_against_impl'] = len(reqs)
    return ck.finish()


def replay(path):
    d = json.load(open(path))
    rp = d.get('replay', {})
    from skepticoin import merkletree as MT
    if 'list' in rp:
        l = [bytes.fromhex(x) for x in rp['list']]
        root = MT.get_merkle_root(list(l))
        print('root', root.hex())
        rc = 0
        if 'edited' in rp:
            r2 = MT.get_merkle_root([bytes.fromhex(x) for x in rp['edited']])
            print('root of edited list', r2.hex())
            rc = 1 if r2 == root else 0
        if rp.get('index') is not None:
            pf = MT.get_proof(MT.get_merkle_tree(list(l)), rp['index'])
            ok = pf.hash() == root and (rp['index'], l[rp['index']]) in proof_leaves(pf)
            print('proof ok?', ok)
            rc = 0 if ok else 1
        return rc
    if 'sequence' in rp:
        from skepticoin import consensus as C
        from skepticoin.datatypes import Transaction
        import spec as S
        for nm, l_ in rp['sequence']:
            txs = [Transaction.deserialize(bytes.fromhex(x)) for x in l_]
            ok = C.calc_merkle_root_hash(txs) == MT.get_merkle_root([S.sha256d(t.serialize()) for t in txs])
            print(nm, 'commitment matches ids?', ok)
            if not ok:
                return 1
        return 0
    print(json.dumps(d, indent=1))
    return 1
