"""C20 -- malformed input from a peer is contained to that connection.
Theorems: props/Properties_C20.v (dispatch model).  Tie / search: a real node (real store) in simnet with two bystander
peers and one attacker connection per session; streams obtained by corrupting, truncating, reordering and splicing valid
protocol traffic, protocol-order violations, unknown message / data types, structurally invalid blocks and
transactions, random bytes; after every session: no exception escaped the event loop, chain state / pool / store rows /
write buffer unchanged, bystanders still connected and still served.  The frame-level decoding of every stream is also
compared with the extracted model (dec_frame)."""
import json
import struct

import chaingen
import common
import gen
import model
import mutators
import nodeharness
import render
import simnet
import spec


def valid_traffic(rng, tg, head):
    """framed payloads (header + message) of valid messages that do not change chain state / pool / store by themselves"""
    from skepticoin.networking import messages as M
    out = []
    for k in (1, 2, 3, 5, 6):
        out.append(('msg%d' % k, gen.g_msg_header(rng).serialize() + gen.g_msg(rng, kind=k).serialize()))
    # data messages carrying structurally invalid objects
    known = rng.choice(tg.nodes[1:])
    out.append(('dup-block', gen.g_msg_header(rng).serialize() + M.DataMessage(M.DATA_BLOCK, known.block).serialize()))
    for c in rng.sample([c for c in mutators.mutants(tg, head, rng, tags=('struct',)) if c['expect'] == 'reject'], 3):       # STRUCTURALLY invalid (the property's list); rule violations during a bulk download roll the node back by design (C09)
        out.append(('bad-block:' + c['label'], M.MessageHeader(0, 5, 0, 1).serialize() + M.DataMessage(M.DATA_BLOCK, c['block']).serialize()))
    out.append(('bad-tx', M.MessageHeader(0, 6, 0, 1).serialize() + M.DataMessage(M.DATA_TRANSACTION, gen.g_tx(rng, nin=1, nout=1)).serialize()))
    # structurally invalid transactions of every kind the stand-alone validation distinguishes
    from skepticoin.datatypes import Output, Transaction
    MAXS = 2_099_999_986_350_000
    for nm, mk in (('zero-value', lambda t: [Output(0, t.outputs[0].public_key)]),
                   ('over-limit', lambda t: [Output(MAXS + 1, t.outputs[0].public_key)]),
                   ('sum-over-limit', lambda t: [Output(MAXS, t.outputs[0].public_key), Output(MAXS, t.outputs[0].public_key)]),
                   ('huge', lambda t: [Output(2 ** 64 - 1, t.outputs[0].public_key)]),
                   ('no-outputs', lambda t: [])):
        t = gen.g_tx(rng, nin=1, nout=1)
        bt = Transaction(inputs=list(t.inputs), outputs=mk(t))
        out.append(('bad-tx:' + nm, M.MessageHeader(0, 6, 0, 1).serialize() + M.DataMessage(M.DATA_TRANSACTION, bt).serialize()))
    out.append(('random-block', gen.g_msg_header(rng).serialize() + M.DataMessage(M.DATA_BLOCK, gen.g_block(rng, ntx=2)).serialize()))
    return out


class Stalled(BaseException):
    harness_abort = True


def huge_count(rng):
    """a well-framed list-carrying message whose declared element count is astronomically larger than its body"""
    import io
    from ipaddress import IPv6Address
    from skepticoin.networking import messages as M
    from skepticoin.serialization import stream_serialize_vlq
    which = rng.choice(['getblocks', 'getblocks', 'inventory', 'peers'])

    def mk(n):
        if which == 'getblocks':
            return M.GetBlocksMessage([bytes([7]) * 32] * n, bytes([9]) * 32)
        if which == 'inventory':
            return M.InventoryMessage([M.InventoryItem(M.DATA_BLOCK, bytes([7]) * 32)] * n)
        return M.PeersMessage([M.Peer(0, IPv6Address('::FFFF:10.9.9.9'), 2412)] * n)
    a, b = mk(2).serialize(), mk(3).serialize()
    pos = [i for i in range(len(a)) if a[i] != b[i]][0]
    f = io.BytesIO()
    stream_serialize_vlq(f, rng.choice([2 ** 21, 2 ** 31, 2 ** 34, 2 ** 40, 2 ** 50, 2 ** 57, 2 ** 63 - 1]))
    body = a[:pos] + f.getvalue() + a[pos + 1:]
    return 'huge-count:' + which, nodeharness.frame(M.MessageHeader(0, 9, 0, 1).serialize() + body)


def noncanonical_count(rng):
    """a list-carrying message whose element count is written in a non-minimal variable-length form (0x80 0x02 for 2)"""
    from ipaddress import IPv6Address
    from skepticoin.networking import messages as M
    which = rng.choice(['getblocks', 'inventory', 'peers'])

    def mk(n):
        if which == 'getblocks':
            return M.GetBlocksMessage([bytes([7]) * 32] * n, bytes([9]) * 32)
        if which == 'inventory':
            return M.InventoryMessage([M.InventoryItem(M.DATA_BLOCK, bytes([7]) * 32)] * n)
        return M.PeersMessage([M.Peer(0, IPv6Address('::FFFF:10.9.9.9'), 2412)] * n)
    a, b = mk(2).serialize(), mk(3).serialize()
    pos = [i for i in range(len(a)) if a[i] != b[i]][0]
    body = a[:pos] + bytes([0x80] * rng.choice([1, 2])) + a[pos:]
    return 'non-minimal-count:' + which, nodeharness.frame(M.MessageHeader(0, 9, 0, 1).serialize() + body)


def odd_addresses(rng):
    """a well-formed peers message whose addresses are multicast / broadcast / zero / loopback IPv4 addresses"""
    from ipaddress import IPv6Address
    from skepticoin.networking import messages as M
    hosts = ['224.0.0.1', '239.255.255.250', '255.255.255.255', '0.0.0.0', '127.0.0.1', '10.6.0.1']
    rng.shuffle(hosts)
    msg = M.PeersMessage([M.Peer(0, IPv6Address('::FFFF:%s' % h), rng.choice([2412, 1, 65535])) for h in hosts[:4]])
    return 'odd-addresses', nodeharness.frame(M.MessageHeader(0, 9, 0, 1).serialize() + msg.serialize())


def many_addresses(rng):
    """one well-formed peers message announcing 1,500 unknown addresses, followed by broken framing"""
    from ipaddress import IPv6Address
    from skepticoin.networking import messages as M
    msg = M.PeersMessage([M.Peer(0, IPv6Address('::FFFF:10.77.%d.%d' % (i // 250, i % 250 + 1)), 2412) for i in range(1500)])
    return 'many-addresses', nodeharness.frame(M.MessageHeader(0, 9, 0, 1).serialize() + msg.serialize()) + b'XXXX'


def corrupt(rng, payloads):
    """one adversarial stream (bytes) + label"""
    fr = nodeharness.frame
    r = rng.random()
    name, p = rng.choice(payloads)
    if r < 0.05:
        return huge_count(rng)
    if r < 0.10:
        return noncanonical_count(rng)
    if r < 0.15:
        b = bytearray(fr(p))
        for _ in range(rng.choice([1, 1, 3])):
            i = rng.randrange(len(b) * 8)
            b[i // 8] ^= 1 << (i % 8)
        return 'bitflip:' + name.split(':')[0], bytes(b)
    if r < 0.25:
        b = fr(p)
        return 'truncate:' + name.split(':')[0], b[:rng.randrange(1, len(b))]
    if r < 0.35:
        n2, p2 = rng.choice(payloads)
        a, b = fr(p), fr(p2)
        i, j = rng.randrange(len(a)), rng.randrange(len(b))
        return 'splice', a[:i] + b[j:]
    if r < 0.42:
        return 'random', gen.rb(rng, rng.randrange(1, 300))
    if r < 0.5:
        return 'wrong-length', nodeharness.MAGIC + struct.pack('>I', rng.choice([len(p) - 1, len(p) + 1, 0, 2 ** 25 + 1, 0xffffffff])) + p
    if r < 0.57:
        return 'unknown-message-type', fr(p[:45] + bytes([rng.choice([0, 9]), rng.randrange(7, 256)]) + p[47:])
    if r < 0.64:
        from skepticoin.networking import messages as M
        return 'unknown-data-type', fr(gen.g_msg_header(rng).serialize() + M.MSG_DATA + b'\x00' + bytes([0, rng.randrange(3, 256)]) + gen.rb(rng, 40))
    if r < 0.72:
        return 'payload-garbage', fr(p[:45] + gen.rb(rng, rng.randrange(0, 80)))
    if r < 0.8:
        return 'empty-frame', fr(b'')
    if r < 0.9:
        return 'as-is:' + name, fr(p)
    return 'two-frames', fr(p) + fr(rng.choice(payloads)[1])


def run(tier, seed):
    ck = common.Check('C20', tier, seed)
    ck.rule = ('sessions of one attacker connection against a real node with two greeted bystander peers: optional greeting, '
               'then 1-3 streams built from valid traffic (all seven message types, duplicate block, structurally invalid '
               'blocks of every mutant family, invalid transaction) by bit flips, truncation, splicing, wrong lengths, unknown '
               'message/data types, garbage payloads, empty frames, list-carrying messages declaring 2^21..2^63 elements with a short body (4 s stall guard per session), or sent as-is without a greeting; delivered in random '
               'chunks; after each session the event loop, chain state, pool, store and bystanders are inspected, and a '
               'bystander request must still be answered; non-trivial = distinct stream')
    ck.trusted += ['extraction + OCaml driver (frame decoding comparison)', 'simnet', 'chain generator and mutators']
    ck.assumptions += ['what Python/stdlib/ecdsa/sqlite raise is observed, not proved (partial claim)']
    r = ck.build(extract=True)
    from skepticoin.networking import messages as M
    rng = ck.rng
    keys = chaingen.Keys()
    nsessions = 250 if tier == 'quick' else 12000
    frame_reqs, frame_wants = [], []
    with chaingen.Env(period=50) as env:
        tg = chaingen.TreeGen(env, keys, rng)
        tg.grow(6, fork_p=0.2)
        main = list(tg.nodes)
        head = max(main, key=lambda x: x.height)
        cs0 = chaingen.impl_state_from(main)
        with simnet.Net(seed=rng.getrandbits(30), t0=head.view.time + 100) as net:
            net.max_open_sockets = 1024          # the usual per-process descriptor limit
            sn = nodeharness.SingleNode(net, cs0, [m.block for m in main[1:]], npeers=2)
            sn.new_messages()
            # context: a bulk download is in progress -- two valid blocks arrived as replies to the node's own requests and
            # wait, applied but unvalidated, in the write buffer (malformed input must not disturb that either)
            for _ in range(2):
                head = tg.extend(head, txs=[], fees=0, dt=30)
                net.clock.t = max(net.clock.t, head.view.time + 1)
                sn.deliver(0, M.DataMessage(M.DATA_BLOCK, head.block), irt=91)
            main = list(tg.nodes)
            sn.new_messages()
            # one pending transaction
            av = sorted(tg.spendable(head))
            if av:
                sn.node.activate()
                sn.lp().chain_manager.add_transaction_to_pool(chaingen.signed_tx(keys, head.utxo, [av[0][0]], [(av[0][1][0], keys.pks[2])]))
            payloads = valid_traffic(rng, tg, head)
            fresh_block = tg.extend(head, txs=[], fees=0, dt=20)
            tg.nodes.remove(fresh_block)
            net.clock.t = max(net.clock.t, fresh_block.view.time + 1)
            fresh_tx = chaingen.signed_tx(keys, head.utxo, [av[1][0]], [(av[1][1][0], keys.pks[3])]) if len(av) > 1 else None
            base = sn.observe()
            import signal

            def on_alarm(signum, frm):
                raise Stalled()
            old_handler = signal.signal(signal.SIGALRM, on_alarm)
            try:
                for sess in range(nsessions):
                    signal.setitimer(signal.ITIMER_REAL, 30.0)     # session watchdog: everything below normally takes milliseconds
                    atk = simnet.RawPeer(net, host='10.6.%d.%d' % (sess // 250, sess % 250 + 1)).connect(sn.node)
                    sn.node.step()
                    sn.pump()
                    greeted = rng.random() < 0.6 or sess % 60 == 7 or sess % 20 == 3      # the sessions with scripted extras are greeted
                    streams = []
                    if greeted:
                        streams.append(('hello', nodeharness.frame(M.MessageHeader(0, 1, 0, 1).serialize() + sn.hello().serialize())))
                    if not greeted and rng.random() < 0.4:
                        # protocol order: perfectly valid objects, but sent by a peer that never greeted
                        if rng.random() < 0.6:
                            streams.append(('valid-block-without-greeting', nodeharness.frame(
                                M.MessageHeader(0, 9, 0, 1).serialize() + M.DataMessage(M.DATA_BLOCK, fresh_block.block).serialize())))
                        elif fresh_tx is not None:
                            streams.append(('valid-tx-without-greeting', nodeharness.frame(
                                M.MessageHeader(0, 9, 0, 1).serialize() + M.DataMessage(M.DATA_TRANSACTION, fresh_tx).serialize())))
                    # scripted extras go first: a corrupt stream before them would close the connection and they would never be read
                    if greeted and sess % 20 == 3:
                        streams.append(odd_addresses(rng))
                    if greeted and sess % 60 == 7:
                        streams.append(many_addresses(rng))
                    for _ in range(rng.choice([1, 1, 2, 3])):
                        streams.append(corrupt(rng, payloads))
                    label = '+'.join(s[0].split(':')[0] for s in streams[1 if greeted else 0:])
                    data = b''.join(s[1] for s in streams)
                    # random chunking
                    pos = 0
                    rp = {'session': sess, 'greeted': greeted, 'streams': [(s[0], s[1].hex()) for s in streams]}
                    signal.setitimer(signal.ITIMER_REAL, 4.0)      # a session normally takes milliseconds
                    try:
                        while pos < len(data):
                            n = rng.choice([1, 3, 8, 50, 1024, len(data)])
                            try:
                                atk.send(data[pos:pos + n])
                            except OSError:
                                break
                            pos += n
                            sn.pump()
                        sn.pump()
                        sn.node.step()                # the managers' timer step runs between reads in the real loop
                        sn.pump()
                        signal.setitimer(signal.ITIMER_REAL, 30.0)
                    except (Stalled, MemoryError) as e:
                        signal.setitimer(signal.ITIMER_REAL, 30.0)
                        ck.case((data,), kind='stalled')
                        ck.violation('event-loop-stalled', 'input from one peer (%s, %d bytes) keeps the event loop busy for more than '
                                     '4 s (%s): no other peer is served meanwhile' % (label, len(data), type(e).__name__), rp)
                        break
                    after = sn.observe()
                    ck.case((data,), kind=('greeted/' if greeted else 'ungreeted/') + label.split('+')[0],
                            sample={'greeted': greeted, 'streams': [s[0] for s in streams], 'bytes': len(data),
                                    'attacker_dropped': not sn.connected(-1) if False else None} if len(ck.samples) < 4 else None)
                    if sn.node.escaped:
                        ck.violation('event-loop-exception', 'an exception escaped the per-connection event handler: %s' % sn.node.escaped[0][1], rp)
                        break
                    changed = [k for k in ('blocks', 'head', 'pool', 'rows', 'buffer') if base[k] != after[k]]
                    if changed:
                        ck.violation('malformed-input-changed-' + ','.join(changed), 'malformed input (%s) changed %s' % (label, ', '.join(changed)), rp)
                        base = after
                    for i in range(len(sn.peers)):
                        if not sn.connected(i):
                            ck.violation('bystander-dropped', 'malformed input from one peer closed another peer\'s connection', rp)
                            break
                    # bystander is still served
                    if sess % 10 == 0:
                        sn.new_messages()
                        sn.deliver(0, M.GetPeersMessage())
                        got = sn.new_messages()[0]
                        if not any(k == 'PeersMessage' for k, _, _ in got):
                            ck.violation('bystander-not-served', 'after malformed input from another peer a bystander\'s request is no longer answered', rp)
                    atk.close()
                    sn.pump()
                    # frame-level comparison with the model: every complete frame of the attacker's streams
                    if sess % 5 == 0:
                        for fpayload in nodeharness.split_frames(data)[:3]:
                            frame_reqs.append(('frame', [], fpayload))
                            f = __import__('io').BytesIO(fpayload)
                            signal.setitimer(signal.ITIMER_REAL, 4.0)
                            try:
                                h = M.MessageHeader.stream_deserialize(f)
                                m = M.Message.stream_deserialize(f)
                                frame_wants.append([1, render.r_msg_header(h), render.r_msg(m)])
                            except Exception:
                                frame_wants.append([0])
                            except Stalled:
                                frame_wants.append([0])
                                ck.violation('event-loop-stalled', 'decoding one %d-byte frame takes more than 4 s' % len(fpayload), rp)
                            finally:
                                signal.setitimer(signal.ITIMER_REAL, 30.0)
                # afterwards the node still works: a block whose header an attacker had sent with a tampered transaction list
                # (refused) is accepted when an honest peer relays the genuine one
                from skepticoin.datatypes import Block as _Block
                atk = simnet.RawPeer(net, host='10.6.9.9').connect(sn.node)
                sn.node.step()
                sn.pump()
                atk.send(nodeharness.frame(M.MessageHeader(0, 1, 0, 1).serialize() + sn.hello().serialize()))
                sn.pump()
                extra_tx = chaingen.coinbase(fresh_block.height, 1, keys.pks[2], b'tamper')
                tampered = _Block(fresh_block.block.header, list(fresh_block.block.transactions) + [extra_tx])
                net.clock.t = max(net.clock.t, fresh_block.view.time + 1)
                atk.send(nodeharness.frame(M.MessageHeader(0, 9, 0, 1).serialize() + M.DataMessage(M.DATA_BLOCK, tampered).serialize()))
                sn.pump()
                mid_state = sn.observe()
                if fresh_block.id in mid_state['blocks']:
                    ck.violation('malformed-input-changed-blocks', 'a block with a genuine header and a tampered transaction list '
                                 'entered the chain state', {'final': 'tampered'})
                elif all(sn.connected(i) for i in range(len(sn.peers))):
                    sn.deliver(0, M.DataMessage(M.DATA_BLOCK, fresh_block.block))
                    fin_state = sn.observe()
                    ck.case(('genuine-after-tampered',), kind='genuine-block-after-tampered-copy')
                    if fresh_block.id not in fin_state['blocks']:
                        ck.violation('genuine-block-refused-after-tampered-copy', 'after an attacker sent a block\'s genuine header with '
                                     'a tampered transaction list (refused), the genuine block relayed by an honest peer is not accepted',
                                     {'final': 'genuine'})
            except Stalled:
                ck.violation('event-loop-stalled', 'after input from one peer the node stops making progress (a later step of the '
                             'event loop blocks for more than 30 s): no peer is served any more', {'session': sess})
            finally:
                signal.setitimer(signal.ITIMER_REAL, 0)
            signal.signal(signal.SIGALRM, old_handler)
    if r.ok and frame_reqs:
        outs = model.run_batch(frame_reqs)
        nd = 0
        for (name, _, payload), want, got in zip(frame_reqs, frame_wants, outs):
            if want != got:
                nd += 1
                if nd <= 3:
                    ck.disagree('handle_message_data decoding vs model dec_frame', {'payload': payload.hex()[:400], 'impl': repr(want)[:200], 'model': repr(got)[:200]})
        ck.extra['traces_validated_against_impl'] = len(frame_reqs)
    return ck.finish()


def replay(path):
    d = json.load(open(path))
    print(json.dumps(d, indent=1)[:3000])
    print('re-run with: VERIF_SEED=%d ./check C20 --tier %s' % (d.get('seed', 0), d.get('tier', 'quick')))
    return 1
