"""Shared machinery of the checks: scratch dirs, build of the Coq cone, evidence, violation reporting,
known findings.  Everything here runs under /venv/bin/python with /repo imported, never copied."""
import fcntl
import hashlib
import json
import os
import random
import re
import shutil
import subprocess
import sys
import tempfile
import time

VERIF = os.path.dirname(os.path.dirname(os.path.abspath(__file__)))
REPO = os.environ.get('SKV_REPO', '/repo')
CHILD = os.environ.get('SKV_CHILD')          # set in the second-pass child (python -O)
REDUCED = bool(os.environ.get('SKV_REDUCED'))
OPT_PIDS = ('C01', 'C02', 'C03', 'C04', 'C05', 'C06', 'C07', 'C11', 'C16', 'C17')
COQ = os.path.join(VERIF, 'coq')
OCAML = os.path.join(VERIF, 'ocaml')
EVID = os.path.join(VERIF, 'evidence')
REPLAYS = os.path.join(EVID, 'replays')
PY = '/venv/bin/python'

sys.path.insert(0, os.path.join(VERIF, 'translator'))
sys.path.insert(0, os.path.join(VERIF, 'harness'))

HYGIENE_RE = re.compile(
    r'\b(Admitted|admit|Axiom|Axioms|Parameter|Parameters|Conjecture|Conjectures|Abort)\b|Unset\s+Guard|'
    r'bypass_check|type-in-type|impredicative-set|Admit\s+Obligations|Unset\s+Universe\s+Checking|'
    r'Unset\s+Positivity|native_compute')


def strip_coq_comments(text):
    out = []
    depth = 0
    i = 0
    n = len(text)
    while i < n:
        if text.startswith('(*', i):
            depth += 1
            i += 2
        elif text.startswith('*)', i) and depth > 0:
            depth -= 1
            i += 2
        else:
            if depth == 0:
                out.append(text[i])
            i += 1
    return ''.join(out)


def hygiene():
    """no Admitted/admit/Axiom/Parameter/... anywhere in the development (comments ignored); Variable/Hypothesis only
    inside sections is checked structurally: every file must close all sections it opens and a Variable/Hypothesis
    outside any section is an error."""
    bad = []
    for root, _, files in os.walk(COQ):
        for fn in files:
            if not fn.endswith('.v'):
                continue
            p = os.path.join(root, fn)
            with open(p) as f:
                txt = strip_coq_comments(f.read())
            for m in HYGIENE_RE.finditer(txt):
                line = txt.count('\n', 0, m.start()) + 1
                bad.append('%s:%d: %s' % (os.path.relpath(p, COQ), line, m.group(0)))
            depth = 0
            for ln, line in enumerate(txt.split('\n'), 1):
                s = line.strip()
                if re.match(r'^(Section|Module)\s+\w+', s) and ':=' not in s:
                    depth += 1
                elif re.match(r'^End\s+\w+\s*\.', s):
                    depth -= 1
                elif re.match(r'^(Variable|Variables|Hypothesis|Hypotheses|Context)\b', s) and depth <= 0:
                    bad.append('%s:%d: %s outside a section' % (os.path.relpath(p, COQ), ln, s.split()[0]))
    return bad


class Lock:
    def __init__(self, path):
        self.path = path

    def __enter__(self):
        self.f = open(self.path, 'w')
        fcntl.flock(self.f, fcntl.LOCK_EX)
        return self

    def __exit__(self, *a):
        fcntl.flock(self.f, fcntl.LOCK_UN)
        self.f.close()


def write_coqproject():
    lines = ['-Q model SkV', '-Q proofs SkV', '-Q props SkV', '-Q gen SkV', '-Q extract SkV',
             '-arg -w -arg -notation-overridden,-deprecated-hint-without-locality,'
             '-deprecated-instance-without-locality,-ambiguous-paths,-deprecated-hint-rewrite-without-locality,'
             '-deprecated-typeclasses-transparency-without-locality,-extraction-opaque-accessed,'
             '-extraction-reserved-identifier,-extraction-logical-axiom']
    for d in ('gen', 'model', 'proofs', 'props', 'extract'):
        dd = os.path.join(COQ, d)
        if os.path.isdir(dd):
            for fn in sorted(os.listdir(dd)):
                if fn.endswith('.v'):
                    lines.append('%s/%s' % (d, fn))
    text = '\n'.join(lines) + '\n'
    p = os.path.join(COQ, '_CoqProject')
    old = open(p).read() if os.path.exists(p) else None
    if old != text or not os.path.exists(os.path.join(COQ, 'Makefile')):
        with open(p, 'w') as f:
            f.write(text)
        subprocess.run(['coq_makefile', '-f', '_CoqProject', '-o', 'Makefile'], cwd=COQ, check=True,
                       stdout=subprocess.DEVNULL, stderr=subprocess.DEVNULL)


class BuildResult:
    def __init__(self):
        self.ok = False
        self.log = ''
        self.failed = None
        self.error = ''
        self.assumptions = []      # one entry per Print Assumptions, in file order
        self.theorems = []
        self.examples = []
        self.bridges = []
        self.translator = {}
        self.hygiene = []
        self.wall_s = 0.0

    def axioms(self):
        s = set()
        for a in self.assumptions:
            if a.strip().startswith('Closed under'):
                continue
            for line in a.split('\n'):
                m = re.match(r'^([A-Za-z_][\w.\']*)\s*:', line)
                if m:
                    s.add(m.group(1))
        return sorted(s)


def regenerate():
    import py2coq
    return py2coq.regenerate(REPO, os.path.join(COQ, 'gen'))


def cone_files(target_v):
    """dependency cone of a .v file inside the project (by From SkV Require Import lines)"""
    index = {}
    for d in ('gen', 'model', 'proofs', 'props', 'extract'):
        dd = os.path.join(COQ, d)
        if os.path.isdir(dd):
            for fn in os.listdir(dd):
                if fn.endswith('.v'):
                    index[fn[:-2]] = os.path.join(dd, fn)
    seen = {}
    todo = [target_v]
    while todo:
        p = todo.pop()
        if p in seen:
            continue
        txt = strip_coq_comments(open(p).read())
        seen[p] = txt
        for m in re.finditer(r'From\s+SkV\s+Require\s+(?:Import|Export)\s+([^.]*)\.', txt):
            for name in m.group(1).split():
                if name in index:
                    todo.append(index[name])
    return seen


def build(prop_file, extract=False, timeout=1500):
    """regenerate gen/*.v from /repo, full .vo build of the cone of props/<prop_file>.v (the props file itself is
    always re-checked so that Print Assumptions output is captured); optionally (re)build the extracted driver."""
    t0 = time.time()
    r = BuildResult()
    os.makedirs(EVID, exist_ok=True)
    with Lock(os.path.join(COQ, '.lock')):
        try:
            r.translator = regenerate()
        except Exception as e:  # translator crashed: fail closed, keep old gen files out of the picture
            r.error = 'translator crashed: %r' % (e,)
            r.failed = 'translator'
            r.wall_s = time.time() - t0
            return r
        r.hygiene = hygiene()
        if r.hygiene:
            r.error = 'hygiene: ' + '; '.join(r.hygiene[:5])
            r.failed = 'hygiene'
            r.wall_s = time.time() - t0
            return r
        write_coqproject()
        target = 'props/%s.vo' % prop_file
        for ext in ('.vo', '.glob', '.vos', '.vok'):
            try:
                os.unlink(os.path.join(COQ, 'props', prop_file + ext))
            except OSError:
                pass
        targets = [target]
        p = subprocess.run(['timeout', str(timeout), 'make', '-j16'] + targets, cwd=COQ, stdout=subprocess.PIPE,
                           stderr=subprocess.STDOUT, text=True)
        r.log = p.stdout
        r.ok = p.returncode == 0
        if not r.ok:
            m = re.search(r'File "\./([^"]+)", line (\d+)[^\n]*\n((?:.*\n){0,12})', r.log)
            if m:
                r.failed = '%s:%s' % (m.group(1), m.group(2))
                r.error = m.group(3).strip()[:1500]
            else:
                r.failed = 'make'
                r.error = r.log[-1500:]
        if extract and r.ok:
            ok, msg = build_driver()
            if not ok:
                r.ok = False
                r.failed = 'extraction/driver'
                r.error = msg
    src = os.path.join(COQ, 'props', prop_file + '.v')
    cone = cone_files(src)
    txt = cone[src]
    r.theorems = re.findall(r'^\s*Theorem\s+([\w\']+)', txt, re.M)
    r.examples = re.findall(r'^\s*Example\s+([\w\']+)', txt, re.M)
    for p_, t_ in cone.items():
        r.bridges += ['%s.%s' % (os.path.basename(p_)[:-2], n) for n in
                      re.findall(r'^\s*(?:Lemma|Theorem)\s+(bridge_[\w\']+)', t_, re.M)]
    r.cone = sorted(os.path.relpath(p_, COQ) for p_ in cone)
    if r.ok:
        blocks = re.split(r'^(?=Closed under the global context|Axioms:)', r.log, flags=re.M)
        r.assumptions = [b.strip() for b in blocks if b.startswith('Closed under') or b.startswith('Axioms:')]
        # strip trailing make noise from the last block
        r.assumptions = [re.split(r'\n(?=COQC|COQDEP|make)', a)[0] for a in r.assumptions]
    r.wall_s = time.time() - t0
    return r


def build_driver():
    """extract the executable model to OCaml (ExtrOcamlBasic only) and link the generic s-expression driver"""
    ext_v = os.path.join(COQ, 'extract', 'Extract.v')
    if not os.path.exists(ext_v):
        return False, 'no Extract.v'
    p = subprocess.run(['timeout', '900', 'make', '-j16', 'extract/Extract.vo'], cwd=COQ, stdout=subprocess.PIPE,
                       stderr=subprocess.STDOUT, text=True)
    if p.returncode != 0:
        return False, p.stdout[-1500:]
    ml = os.path.join(COQ, 'extract', 'skmodel.ml')
    if not os.path.exists(ml):
        return False, 'extraction produced no skmodel.ml'
    exe = os.path.join(OCAML, 'driver')
    srcs = [ml, os.path.join(COQ, 'extract', 'skmodel.mli'), os.path.join(OCAML, 'driver.ml')]
    if os.path.exists(exe) and all(os.path.getmtime(exe) >= os.path.getmtime(s) for s in srcs):
        return True, ''
    bdir = os.path.join(OCAML, '_build')
    shutil.rmtree(bdir, ignore_errors=True)
    os.makedirs(bdir)
    for s in srcs:
        shutil.copy(s, bdir)
    p = subprocess.run(['timeout', '600', 'ocamlfind', 'ocamlopt', '-O3', '-w', '-a', '-package', 'str', '-linkpkg',
                        'skmodel.mli', 'skmodel.ml', 'driver.ml', '-o', exe + '.new'], cwd=bdir,
                       stdout=subprocess.PIPE, stderr=subprocess.STDOUT, text=True)
    if p.returncode != 0:
        p = subprocess.run(['timeout', '600', 'ocamlfind', 'ocamlopt', '-w', '-a', '-package', 'str', '-linkpkg',
                            'skmodel.mli', 'skmodel.ml', 'driver.ml', '-o', exe + '.new'], cwd=bdir,
                           stdout=subprocess.PIPE, stderr=subprocess.STDOUT, text=True)
    if p.returncode != 0:
        return False, p.stdout[-1500:]
    os.replace(exe + '.new', exe)
    return True, ''


# ------------------------------------------------------------------------------------------------
class Scratch:
    """scratch directory outside /repo and /verif; cwd is moved there (importing skepticoin.blockstore creates
    ./chain.db)"""

    def __enter__(self):
        self.old = os.getcwd()
        self.dir = tempfile.mkdtemp(prefix='skv-')
        os.chdir(self.dir)
        return self.dir

    def __exit__(self, *a):
        os.chdir(self.old)
        shutil.rmtree(self.dir, ignore_errors=True)


def param(name):
    """a consensus / networking parameter, from wherever the package keeps or imports it (the consensus module's own
    binding first: that is the one validation uses)"""
    import importlib
    for mn in ('skepticoin.consensus', 'skepticoin.params', 'skepticoin.cheating', 'skepticoin.networking.params'):
        try:
            mod = importlib.import_module(mn)
        except Exception:
            continue
        if name in mod.__dict__:
            return mod.__dict__[name]
    raise AttributeError('parameter %s not found in the package' % name)


def known_findings():
    p = os.path.join(VERIF, 'known_findings.json')
    if not os.path.exists(p):
        return []
    with open(p) as f:
        return json.load(f).get('findings', [])


class Check:
    """One run of one property's check.  Collects correspondence statistics, violations and evidence."""

    def __init__(self, pid, tier, seed, prop_file=None):
        self.pid = pid
        self.tier = tier
        self.seed = seed
        self.rng = random.Random(seed * 1000003 + int(pid[1:]))
        self.t0 = time.time()
        self.evaluations = 0
        self.nontrivial = set()
        self.samples = []
        self.dist = {}
        self.violations = []          # (signature, description, replay dict)
        self.known_hit = []
        self.broken = []              # proof / bridge / correspondence items that no longer check
        self.corr_disagreements = []
        self.extra = {}
        self.assumptions = []
        self.build_result = None
        self.prop_file = prop_file or ('Properties_%s' % pid)
        self.rule = ''
        self.trusted = []

    # ---- statistics
    def case(self, key, nontrivial=True, sample=None, kind=None):
        self.evaluations += 1
        if nontrivial:
            self.nontrivial.add(hashlib.sha1(repr(key).encode()).hexdigest()[:16])
        if sample is not None and len(self.samples) < 6:
            self.samples.append(sample)
        if kind is not None:
            self.dist[kind] = self.dist.get(kind, 0) + 1

    def count(self, kind, n=1):
        self.dist[kind] = self.dist.get(kind, 0) + n

    # ---- outcomes
    def violation(self, signature, what, replay):
        """a concrete failure of the property's statement on the implementation"""
        for kf in known_findings():
            if kf.get('property') == self.pid and kf.get('status') == 'known' and kf.get('signature') == signature:
                if signature not in [k[0] for k in self.known_hit]:
                    self.known_hit.append((signature, kf.get('what', what)))
                return
        self.violations.append((signature, what, replay))

    def disagree(self, what, replay):
        """model and implementation differ (not by itself a violation)"""
        self.corr_disagreements.append((what, replay))

    def build(self, extract=False):
        if CHILD:
            # second pass in another interpreter mode: implementation against the independent oracle only (the theorems
            # and the model correspondence belong to the parent run)
            class NoBuild:
                ok = False
                failed = None
                error = None
            self.build_result = None
            return NoBuild()
        r = build(self.prop_file, extract=extract)
        self.build_result = r
        if not r.ok:
            self.broken.append({'kind': 'theorem/bridge build', 'where': r.failed, 'error': r.error})
        return r

    # ---- finishing
    def finish(self, level='proof'):
        os.makedirs(REPLAYS, exist_ok=True)
        r = self.build_result
        lines = []
        exit_code = 0
        child = None
        if not CHILD and self.pid in OPT_PIDS and self.tier in ('quick', 'thorough'):
            # the same search once more, reduced, in an interpreter started with -O (assert statements are stripped: a
            # consensus or codec check must not live in an assert)
            import subprocess
            env = dict(os.environ, SKV_CHILD='optimized', SKV_REDUCED='1', VERIF_SEED=str(self.seed))
            try:
                cp = subprocess.run([sys.executable, '-O', os.path.join(VERIF, 'harness', 'main.py'), self.pid, '--tier', 'quick'],
                                    env=env, stdout=subprocess.PIPE, stderr=subprocess.STDOUT, text=True, timeout=1800,
                                    cwd=VERIF)
                cl = [ln for ln in cp.stdout.splitlines() if ln.startswith('VIOLATION ')]
                summ = [ln for ln in cp.stdout.splitlines() if ln.startswith(self.pid + ' ')]
                child = {'interpreter': 'python -O', 'exit': cp.returncode, 'violations': len(cl),
                         'summary': summ[-1] if summ else cp.stdout[-300:]}
                for ln in cl:
                    lines.append(ln)
                    exit_code = 1
                if cp.returncode not in (0, 1) or (cp.returncode == 1 and not cl):
                    child['note'] = 'child run failed: ' + cp.stdout[-400:]
            except Exception as e:       # the extra pass must never break the main run
                child = {'interpreter': 'python -O', 'error': repr(e)}
        for sig, what in self.known_hit:
            lines.append('KNOWN-FINDING: property=%s %s' % (self.pid, what))
        if self.corr_disagreements and not self.violations:
            for what, replay in self.corr_disagreements[:3]:
                self.broken.append({'kind': 'correspondence', 'where': what, 'replay': replay})
        nviol = 0
        if self.violations:
            if CHILD:
                for i_ in range(len(self.violations)):
                    sg_, wh_, rp_ = self.violations[i_]
                    self.violations[i_] = (sg_, '[interpreter started with -O] ' + wh_, dict(rp_, interpreter='python -O') if isinstance(rp_, dict) else rp_)
            for sig, what, replay in self.violations[:5]:
                h = hashlib.sha1(json.dumps(replay, sort_keys=True, default=str).encode()).hexdigest()[:12]
                path = os.path.join(REPLAYS, '%s-%s.json' % (self.pid, h))
                with open(path, 'w') as f:
                    json.dump({'property': self.pid, 'signature': sig, 'what': what, 'seed': self.seed,
                               'tier': self.tier, 'broken': self.broken, 'replay': replay}, f, indent=1,
                              default=str)
                lines.append('VIOLATION property=%s replay=%s' % (self.pid, path))
                nviol += 1
            exit_code = 1
        elif self.broken:
            h = hashlib.sha1(json.dumps(self.broken, sort_keys=True, default=str).encode()).hexdigest()[:12]
            path = os.path.join(REPLAYS, '%s-unproved-%s.json' % (self.pid, h))
            with open(path, 'w') as f:
                json.dump({'property': self.pid, 'seed': self.seed, 'tier': self.tier,
                           'no_longer_checks': self.broken,
                           'note': 'the theorem / bridge lemma / correspondence named here no longer checks against '
                                   'the current /repo; the search on model and implementation found no input on '
                                   'which the property statement itself fails'}, f, indent=1, default=str)
            lines.append('VIOLATION property=%s replay=%s no-failing-input-found' % (self.pid, path))
            nviol += 1
            exit_code = 1
        cov = {
            'evaluations': self.evaluations,
            'distinct_nontrivial': len(self.nontrivial),
            'rule': self.rule,
            'samples': self.samples or ['(none)'],
            'distribution': self.dist,
        }
        if r is not None:
            nth = len(r.theorems) + len(r.bridges)
            if r.ok:
                cov.update({'obligations': nth, 'discharged': nth})
            else:
                cov.update({'obligations_not_discharged': nth, 'proof_build': 'FAILED at %s' % r.failed})
            cov.update({
                'theorems': r.theorems, 'examples': r.examples, 'bridge_lemmas': r.bridges,
                'checker_cmd': 'cd /verif/coq && make props/%s.vo  (coqc 8.16.1, full .vo build of the cone: %s)'
                               % (self.prop_file, ' '.join(getattr(r, 'cone', []))),
                'print_assumptions': r.assumptions,
                'axioms': r.axioms(),
                'translator': r.translator.get('functions', {}) if r.translator else {},
                'build_wall_s': round(r.wall_s, 1),
                'trusted_base': ['Coq 8.16.1 kernel (coqc; vm_compute used for closed witnesses; no native_compute)',
                                 'axioms reported by Print Assumptions: %s' % (', '.join(r.axioms()) or 'none')]
                                + self.trusted,
            })
        cov.update(self.extra)
        if child is not None:
            cov['optimized_interpreter_pass'] = child
        ev = {
            'property_id': self.pid, 'tier': self.tier, 'seed': self.seed, 'level': level,
            'coverage': cov, 'assumptions': self.assumptions, 'wall_s': round(time.time() - self.t0, 2),
            'violations': nviol,
            'known_findings_hit': [w for _, w in self.known_hit],
            'no_longer_checks': self.broken,
        }
        with open(os.path.join(EVID, '%s%s.json' % (self.pid, '.child' if CHILD else '')), 'w') as f:
            json.dump(ev, f, indent=1, default=str)
        for ln in lines:
            print(ln)
        print('%s %s tier=%s seed=%d evaluations=%d distinct_nontrivial=%d wall=%.1fs' % (
            self.pid, 'FAIL' if exit_code else 'ok', self.tier, self.seed, self.evaluations, len(self.nontrivial),
            time.time() - self.t0))
        sys.stdout.flush()
        return exit_code


def repo_import_setup():
    """make `import skepticoin` resolve to REPO's working tree"""
    for m in list(sys.modules):
        if m == 'skepticoin' or m.startswith('skepticoin.'):
            del sys.modules[m]
    if REPO in sys.path:
        sys.path.remove(REPO)
    sys.path.insert(0, REPO)
    os.environ['PYTHONDONTWRITEBYTECODE'] = '1'
    sys.dont_write_bytecode = True
    import contextlib, io
    try:
        with contextlib.redirect_stdout(io.StringIO()):
            import skepticoin.blockstore  # noqa  (prints 'Creating new block database' and creates ./chain.db in the scratch cwd)
    except Exception:
        pass
