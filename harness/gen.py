"""Generators of implementation objects (structurally valid, random content) and of byte-level mutations."""
from ipaddress import IPv6Address

BOUNDS32 = [0, 1, 127, 128, 255, 256, 65535, 65536, 2 ** 31 - 1, 2 ** 31, 2 ** 32 - 1]
BOUNDS64 = BOUNDS32 + [2 ** 32, 2 ** 48, 2_099_999_986_350_000, 2_099_999_986_350_001, 2 ** 63, 2 ** 64 - 1]
VLQS = [0, 1, 63, 64, 126, 127, 128, 129, 255, 16383, 16384, 2 ** 21 - 1, 2 ** 21, 2 ** 28, 2 ** 32, 2 ** 35 - 1,
        2 ** 35, 2 ** 56, 2 ** 63, 2 ** 64, 2 ** 70]


def rb(rng, n):
    return bytes(rng.getrandbits(8) for _ in range(n))


def pick_int(rng, bounds, hi):
    r = rng.random()
    if r < 0.4:
        return rng.choice(bounds)
    if r < 0.7:
        return rng.randrange(0, min(hi, 1000))
    return rng.randrange(0, hi)


def g_outref(rng):
    from skepticoin.datatypes import OutputReference
    h = rb(rng, 32) if rng.random() < 0.9 else b'\x00' * 32
    return OutputReference(h, pick_int(rng, BOUNDS32, 2 ** 32))


def g_sig(rng, kind=None):
    from skepticoin import signing as S
    k = rng.randrange(3) if kind is None else kind
    if k == 0:
        return S.SignableEquivalent()
    if k == 1:
        n = rng.choice([0, 1, 5, 199, 200, 201, 255, rng.randrange(0, 256)])
        return S.CoinbaseData(pick_int(rng, BOUNDS32, 2 ** 32), rb(rng, n))
    return S.SECP256k1Signature(rb(rng, 64))


def g_pk(rng):
    from skepticoin.signing import SECP256k1PublicKey
    return SECP256k1PublicKey(rb(rng, 64))


def g_input(rng, kind=None):
    from skepticoin.datatypes import Input
    return Input(g_outref(rng), g_sig(rng, kind))


def g_output(rng):
    from skepticoin.datatypes import Output
    return Output(pick_int(rng, BOUNDS64, 2 ** 64), g_pk(rng))


def g_tx(rng, coinbase=False, nin=None, nout=None):
    from skepticoin.datatypes import Transaction
    if nin is None:
        nin = rng.choice([0, 1, 1, 2, 3, 5]) if not coinbase else 1
    if nout is None:
        nout = rng.choice([0, 1, 1, 2, 3])
    return Transaction([g_input(rng, 1 if coinbase else rng.choice([None, 2, 2])) for _ in range(nin)],
                       [g_output(rng) for _ in range(nout)])


def g_evidence(rng):
    from skepticoin.datatypes import PowEvidence
    return PowEvidence(rb(rng, 32), rb(rng, 32), rb(rng, 32))


def g_summary(rng):
    from skepticoin.datatypes import BlockSummary
    return BlockSummary(rng.choice(VLQS + [rng.randrange(0, 200000)]), rb(rng, 32), rb(rng, 32),
                        pick_int(rng, BOUNDS32, 2 ** 32), rb(rng, 32), pick_int(rng, BOUNDS32, 2 ** 32))


def g_header(rng):
    from skepticoin.datatypes import BlockHeader
    return BlockHeader(g_summary(rng), g_evidence(rng))


def g_block(rng, ntx=None):
    from skepticoin.datatypes import Block
    if ntx is None:
        ntx = rng.choice([0, 1, 1, 2, 3, 4])
    return Block(g_header(rng), [g_tx(rng, coinbase=(i == 0)) for i in range(ntx)])


def g_msg_header(rng):
    from skepticoin.networking.messages import MessageHeader
    return MessageHeader(pick_int(rng, BOUNDS32, 2 ** 32), pick_int(rng, BOUNDS32, 2 ** 32),
                         pick_int(rng, BOUNDS32, 2 ** 32), pick_int(rng, BOUNDS64, 2 ** 64))


def g_ip(rng):
    if rng.random() < 0.5:
        return IPv6Address(b'\x00' * 10 + b'\xff\xff' + rb(rng, 4))
    return IPv6Address(rb(rng, 16))


def g_msg(rng, kind=None):
    from skepticoin.networking import messages as M
    k = rng.randrange(7) if kind is None else kind
    if k == 0:
        return M.HelloMessage([M.SupportedVersion(rng.randrange(256)) for _ in range(rng.choice([0, 1, 1, 3]))],
                              g_ip(rng), rng.randrange(65536), g_ip(rng), rng.randrange(65536),
                              pick_int(rng, BOUNDS32, 2 ** 32), rb(rng, rng.choice([0, 7, 13, 255])))
    if k == 1:
        return M.GetBlocksMessage([rb(rng, 32) for _ in range(rng.choice([0, 1, 2, 10, 70, 130]))], rb(rng, 32))
    if k == 2:
        return M.InventoryMessage([M.InventoryItem(rng.choice([M.DATA_BLOCK, M.DATA_TRANSACTION, rb(rng, 2)]),
                                                   rb(rng, 32)) for _ in range(rng.choice([0, 1, 3, 129]))])
    if k == 3:
        return M.GetDataMessage(rng.choice([M.DATA_BLOCK, M.DATA_HEADER, M.DATA_TRANSACTION, rb(rng, 2)]), rb(rng, 32))
    if k == 4:
        j = rng.randrange(3)
        if j == 0:
            return M.DataMessage(M.DATA_BLOCK, g_block(rng))
        if j == 1:
            return M.DataMessage(M.DATA_HEADER, g_header(rng))
        return M.DataMessage(M.DATA_TRANSACTION, g_tx(rng))
    if k == 5:
        return M.GetPeersMessage()
    return M.PeersMessage([M.Peer(pick_int(rng, BOUNDS32, 2 ** 32), g_ip(rng), rng.randrange(65536))
                           for _ in range(rng.choice([0, 1, 2, 5]))])


def g_vlq(rng):
    r = rng.random()
    if r < 0.5:
        return rng.choice(VLQS)
    if r < 0.8:
        return rng.randrange(0, 70000)
    return rng.getrandbits(rng.randrange(1, 80))


GENERATORS = {
    'vlq': g_vlq, 'outref': g_outref, 'sig': g_sig, 'pk': g_pk, 'input': g_input, 'output': g_output, 'tx': g_tx,
    'evidence': g_evidence, 'summary': g_summary, 'header': g_header, 'block': g_block,
    'msg_header': g_msg_header, 'msg': g_msg,
}


# ---------------------------------------------------------------- byte-level mutations
def mutations(rng, bs, n):
    """n mutated variants of a valid encoding: bit flips, truncations, insertions of 0x80 (non-minimal VLQ prefixes),
    byte replacement, trailing data, duplication of a slice"""
    out = []
    L = len(bs)
    for _ in range(n):
        r = rng.random()
        b = bytearray(bs)
        if L == 0:
            out.append(('random', rb(rng, rng.randrange(0, 8))))
            continue
        if r < 0.25:
            i = rng.randrange(L * 8)
            b[i // 8] ^= 1 << (i % 8)
            out.append(('bitflip', bytes(b)))
        elif r < 0.4:
            out.append(('truncate', bytes(b[:rng.randrange(0, L)])))
        elif r < 0.6:
            i = rng.randrange(0, L + 1) if rng.random() < 0.5 else rng.randrange(0, min(L, 4) + 1)
            k = rng.choice([1, 1, 2, 5])
            out.append(('insert80', bytes(b[:i] + b'\x80' * k + b[i:])))
        elif r < 0.7:
            i = rng.randrange(L)
            b[i] = rng.choice([0, 1, 2, 3, 0x7f, 0x80, 0x81, 0xff])
            out.append(('setbyte', bytes(b)))
        elif r < 0.8:
            out.append(('trailing', bytes(b) + rb(rng, rng.randrange(1, 6))))
        elif r < 0.9:
            i = rng.randrange(L)
            j = rng.randrange(i, min(L, i + 40) + 1)
            out.append(('dupslice', bytes(b[:j] + b[i:j] + b[j:])))
        else:
            i = rng.randrange(L)
            del b[i]
            out.append(('delbyte', bytes(b)))
    return out
