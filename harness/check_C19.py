"""C19 -- peer book stays consistent and reconnects with bounded back-off.
Theorems: props/Properties_C19.v (peer book model).  Tie: the real NetworkManager / LocalPeer / ConnectedRemotePeer /
DiskInterface inside simnet over a small address universe, against the extracted PeerBook model.  Search oracle: the
property's clauses (disjointness, back-off between consecutive attempts, self-connection, peers file)."""
import json
import os

import chaingen
import common
import model
import nodeharness
import simnet


def hello_msg(my_port, nonce):
    from skepticoin.networking import messages as M
    from ipaddress import IPv6Address
    return M.HelloMessage([M.SupportedVersion(0)], IPv6Address('::FFFF:10.0.0.1'), 2412, IPv6Address('0::0'), my_port,
                          nonce, b'skv')


def framed(net, msg, mid=1, irt=0):
    from skepticoin.networking import messages as M
    return nodeharness.frame(M.MessageHeader(net.clock(), mid, irt, 1).serialize() + msg.serialize())


HOSTS = {1: '10.2.0.1', 2: '10.2.0.2', 3: '10.2.0.3', 4: '10.2.0.4', 5: '10.2.0.5'}
HID = {v: k for k, v in HOSTS.items()}


def book_of(node):
    nm = node.lp.network_manager
    conn = sorted([HID[k[0]], k[1], 0 if k[2] == 'INCOMING' else 1, bool(p.hello_received), p.ban_score,
                   p.last_connection_attempt] for k, p in nm.connected_peers.items())
    disc = sorted([HID[k[0]], k[1], 0 if k[2] == 'INCOMING' else 1, p.ban_score, p.last_connection_attempt]
                  for k, p in nm.disconnected_peers.items())
    mine = sorted([HID[h], p] for h, p in nm.my_addresses)
    return conn, disc, mine


def model_book(m):
    conn = sorted([c[0][0], c[0][1], c[0][2], bool(c[1]), c[2], (c[3][1] if c[3][0] == 1 else None)] for c in m[0])
    disc = sorted([d[0][0], d[0][1], d[0][2], d[1], (d[2][1] if d[2][0] == 1 else None)] for d in m[1])
    mine = sorted([a[0], a[1]] for a in m[2])
    return conn, disc, mine


def scenario(ck, trial, tier, cs0, max_attempts=None):
    from skepticoin.networking import messages as M
    from skepticoin.networking import remote_peer as RP
    from skepticoin.networking import params as NP
    from ipaddress import IPv6Address
    rng = ck.rng
    events = []
    observed = []
    with simnet.Net(seed=rng.getrandbits(30), t0=1_700_000_000) as net:
        node = net.add_node('N', cs0, host='10.0.0.1', real_store=False)
        lp = node.lp
        nm = lp.network_manager
        # servers: host1 answers hello with a foreign nonce, host2 echoes OUR nonce (a connection to ourselves),
        # host3 accepts but never says hello, host4/5: nobody listens (refused)
        srv = {1: net.add_server(HOSTS[1]), 2: net.add_server(HOSTS[2]), 3: net.add_server(HOSTS[3])}
        net.unreachable = {HOSTS[5]}          # no route to host 5: connecting fails on the spot (host 4: refused later)
        attempts = []
        self_detected = [None]       # when the node first got its own nonce back from host 2 (= it dialled itself)
        direct = [False]
        orig_start = lp.start_outgoing_connection

        def rec_start(d, _o=orig_start):
            attempts.append((HID[d.host], d.port, net.clock(), d.ban_score, direct[0]))
            return _o(d)
        lp.start_outgoing_connection = rec_start
        incoming = {}
        # the node starts with three known addresses (as loaded from peers.json): modelled as one announcement
        nm.disconnected_peers = RP.load_peers_from_list([(HOSTS[h], 2412, 'OUTGOING') for h in (1, 2, 3)])
        events.append([3, [[1, 2412], [2, 2412], [3, 2412]]])
        observed.append(book_of(node))
        t = net.clock()
        nsteps = 50 if tier == 'quick' else 160
        mid = 10
        # every second scenario starts with a scripted prefix: dial the known addresses, an incoming peer greets, the
        # greeting listener greets and then closes, the incoming peer announces that very address, the manager steps 1 s
        # later (the address was dialled a moment ago: no retry is due) and again 8 s later
        script = [(0.1, {'dt': 0}), (0.7, {'h': 4}), (0.45, {'h': 1}), (0.55, {'h': 1}), (0.8, {'ann': [(1, 2412)]}),
                  (0.1, {'dt': 1}), (0.1, {'dt': 8}), (0.1, {'dt': 1})] if trial % 2 == 0 else []
        for step in range(nsteps):
            r = rng.random()
            ov = {}
            if step < len(script):
                r, ov = script[step]
            rp = {'trial': trial, 'step': step}
            ev = None
            if max_attempts is not None and step >= len(script) and rng.random() < 0.5:
                r = 0.1 if rng.random() < 0.7 else 0.8       # mostly timer steps and announcements: reach the give-up limit
                if r == 0.8:
                    ov = {'ann': [(rng.choice([3, 4, 5]), 2412)]}
            if r < 0.35:
                dt = rng.choice([0, 1, 5, 9, 10, 11, 19, 20, 21, 40, 100, 700, 2000])
                dt = ov.get('dt', dt)
                t += dt
                node.step(t)
                for s_ in srv.values():
                    s_.accept_pending()
                events.append([0, t])
                observed.append(book_of(node))
                # refused connections notice it on their first READ and are dropped: one model event each
                for e_ in [e for e in node.enabled() if e[0] == 'eof']:
                    peer = node.lp.selector.map[e_[1]].data
                    kk = (peer.host, peer.port, peer.direction)
                    was = kk in nm.connected_peers and nm.connected_peers[kk] is peer
                    node.fire(e_)
                    if was:
                        events.append([4, HID[peer.host], peer.port, 1])
                        observed.append(book_of(node))
                ck.case((trial, step), kind='step', sample=None)
                continue
                ev = [0, t]
                kind = 'step+%d' % dt
            elif r < 0.41:
                # a connection attempt issued directly for an address (possibly one that is ALREADY connected: duplicate key)
                h = rng.choice([1, 3])
                key = (HOSTS[h], 2412, 'OUTGOING')
                d = nm.disconnected_peers.get(key)
                if d is None:
                    d = RP.DisconnectedRemotePeer(HOSTS[h], 2412, 'OUTGOING', None, 0)
                d.last_connection_attempt = net.clock()
                node.activate()
                older = nm.connected_peers.get(key)           # an existing connection under the same key is dropped as a duplicate
                direct[0] = True
                try:
                    lp.start_outgoing_connection(d)
                except BaseException as e:
                    node.escaped.append(('start_outgoing', repr(e)))
                direct[0] = False
                if older is not None and getattr(older.sock, 'closed', False):
                    # the selector had already reported an event for the dropped connection's socket in the same batch: the
                    # handler runs for a peer that is gone (its socket is closed) -- the peer book must not notice
                    import selectors as _sel
                    try:
                        lp.handle_remote_peer_selector_event(_sel.SelectorKey(older.sock, -1, _sel.EVENT_READ, older), _sel.EVENT_READ)
                    except BaseException as e:
                        node.escaped.append(('stale-event', repr(e)))
                    ck.count('stale-event-for-dropped-duplicate')
                for s_ in srv.values():
                    s_.accept_pending()
                ev = [5, h, 2412, net.clock()]
                kind = 'direct-connect'
            elif r < 0.5:
                # a server says hello on one of its live connections
                h = ov.get('h', rng.choice([1, 2]))
                live = srv[h].live()
                if not live:
                    continue
                c = live[0]
                nonce = lp.nonce if h == 2 else 4242
                mid += 1
                # the port a listener announces for itself need not be the one we dialled (port forwarding / NAT)
                announced = 2412 if rng.random() < 0.5 else 2999
                c.send(framed(net, hello_msg(announced, nonce), mid))
                key = (HOSTS[h], 2412, 'OUTGOING')
                was = key in nm.connected_peers and nm.connected_peers[key].sock is c.other
                for e in [e for e in node.enabled() if e[1] is c.other]:
                    node.fire(e)
                if not was:
                    continue
                ev = [2, h, 2412, 1, announced, h == 2]
                if h == 2 and self_detected[0] is None:
                    self_detected[0] = net.clock()
                kind = 'hello/%s' % ('self' if h == 2 else 'foreign')
            elif r < 0.62:
                # a server drops one of its connections
                h = ov.get('h', rng.choice([1, 3, 3]))
                live = srv[h].live()
                if not live:
                    continue
                c = live[0]
                key = (HOSTS[h], 2412, 'OUTGOING')
                was = key in nm.connected_peers and nm.connected_peers[key].sock is c.other
                c.close()
                for e in [e for e in node.enabled() if e[1] is c.other]:
                    node.fire(e)
                if not was:
                    continue
                ev = [4, h, 2412, 1]
                kind = 'remote-close'
            elif r < 0.75:
                # an incoming connection, optionally followed by its hello (announcing a listening port)
                h = ov.get('h', rng.choice([1, 4, 5]))
                p = simnet.RawPeer(net, host=HOSTS[h]).connect(node)
                port = p.sock.local_addr[1]
                incoming[(h, port)] = p
                events.append([1, h, port])
                observed.append(book_of(node))
                my_port = rng.choice([2412, 2412, 2500])
                mid += 1
                p.send(framed(net, hello_msg(my_port, 777), mid))
                for e in [e for e in node.enabled() if e[1] is p.sock.other]:
                    node.fire(e)
                ev = [2, h, port, 0, my_port, False]
                kind = 'incoming+hello'
            elif r < 0.85 and incoming:
                # peers announcement from an incoming peer that said hello
                (h, port), p = rng.choice(sorted(incoming.items(), key=lambda x: x[0]))
                if p.sock.closed or p.sock.remote_closed:
                    continue
                ann = [(rng.choice([1, 3, 4, 5]), rng.choice([2412, 2412, 2600])) for _ in range(rng.choice([1, 2, 3]))]
                # half of the announcements name an address the node already knows and is waiting to retry
                waiting = sorted((HID[k[0]], k[1]) for k, d_ in nm.disconnected_peers.items()
                                 if k[0] in HID and d_.last_connection_attempt is not None)
                if waiting and rng.random() < 0.5:
                    ann[0] = rng.choice(waiting)
                    ck.count('announcement-of-address-waiting-for-retry')
                ann = ov.get('ann', ann)
                mid += 1
                msg = M.PeersMessage([M.Peer(0, IPv6Address('::FFFF:%s' % HOSTS[a]), pt) for a, pt in ann])
                p.send(framed(net, msg, mid))
                for e in [e for e in node.enabled() if e[1] is p.sock.other]:
                    node.fire(e)
                ev = [3, [[a, pt] for a, pt in ann]]
                kind = 'peers'
            elif incoming:
                (h, port), p = rng.choice(sorted(incoming.items(), key=lambda x: x[0]))
                if p.sock.closed:
                    continue
                key = (HOSTS[h], port, 'INCOMING')
                was = key in nm.connected_peers
                p.close()
                for e in [e for e in node.enabled() if e[1] is p.sock.other]:
                    node.fire(e)
                del incoming[(h, port)]
                if not was:
                    continue
                ev = [4, h, port, 0]
                kind = 'incoming-close'
            else:
                continue
            events.append(ev)
            ob = book_of(node)
            observed.append(ob)
            ck.case((trial, step), kind=kind.split('+')[0], sample={'event': kind, 'connected': len(ob[0]), 'waiting': len(ob[1]),
                                                                  'own_addresses': ob[2]} if len(ck.samples) < 4 and step > 8 else None)
            # ---- oracle
            both = set(nm.connected_peers) & set(nm.disconnected_peers)
            if both:
                ck.violation('connected-and-disconnected', 'a peer address is recorded as both connected and waiting for '
                             'reconnection: %s' % (sorted(both)[0],), rp)
            if node.escaped:
                ck.violation('network-loop-exception', 'an exception escaped the event loop: %s' % node.escaped[0][1], rp)
                break
            if os.path.exists(os.path.join(node.dir, 'peers.json')):
                try:
                    pj = json.load(open(os.path.join(node.dir, 'peers.json')))
                    keys_ = [tuple(x[0:3]) for x in pj]
                    if len(pj) > 100 or len(set(keys_)) != len(keys_):
                        ck.violation('peers-file', 'peers.json has %d entries / duplicates' % len(pj), rp)
                except Exception as e:
                    ck.violation('peers-file-corrupt', 'peers.json unreadable: %s' % e, rp)
        # ---- back-off over the whole run
        by = {}
        for (h, port, tm, ban, drc) in attempts:
            by.setdefault((h, port), []).append((tm, ban, drc))
        for key, lst in by.items():
            for (t1, _, _), (t2, k, drc2) in zip(lst, lst[1:]):
                if drc2:
                    continue          # an attempt issued by the harness itself, not a retry decided by the node
                need = min(NP.TIME_TO_SECOND_CONNECTION_ATTEMPT * 2 ** k, NP.MAX_TIME_BETWEEN_CONNECTION_ATTEMPTS)
                if t2 - t1 < need:
                    ck.violation('retry-too-early', 'outgoing peer %s retried after %d s with %d consecutive greeting-less '
                                 'failures (minimum %d s)' % (key, t2 - t1, k, need), {'trial': trial, 'attempts': lst})
                    break
            if (HOSTS[key[0]], key[1]) in nm.my_addresses:
                when = [x[0] for x in lst]
                # no attempt after the address was recognised as our own
        # back-off for addresses that never greet (hosts 3, 4, 5), computed from the history alone: the j-th dial by the
        # node in a row comes at least min(first * 2^(j-1), max) seconds after the one before
        for key, lst in by.items():
            if key[0] not in (3, 4, 5):
                continue
            j = 0
            prev_t = None
            for (tm, _ban, drc) in lst:
                if drc:
                    j, prev_t = 1, tm
                    continue
                if prev_t is not None and j >= 1:
                    need = min(NP.TIME_TO_SECOND_CONNECTION_ATTEMPT * 2 ** (j - 1), NP.MAX_TIME_BETWEEN_CONNECTION_ATTEMPTS)
                    if tm - prev_t < need:
                        ck.violation('retry-too-early', 'address %s never greeted; its dial #%d in a row came %d s after the previous '
                                     'one (minimum %d s)' % (key, j + 1, tm - prev_t, need), {'trial': trial, 'attempts': lst[:12]})
                        break
                j += 1
                prev_t = tm
        # give-up: an address whose every connection ended without a greeting (hosts 3, 4, 5 never greet) is dialled at most
        # limit + 1 times by the node itself, announcements of it notwithstanding
        limit = max_attempts if max_attempts is not None else NP.MAX_CONNECTION_ATTEMPTS
        for key, lst in by.items():
            # attempts issued by the harness itself (a directly started connection) install a fresh entry: count the node's
            # own dials between two of those
            runs, cur = [], 0
            for x in lst:
                if x[2]:
                    runs.append(cur)
                    cur = 0
                else:
                    cur += 1
            runs.append(cur)
            own = [0] * max(runs)
            if key[0] in (3, 4, 5) and len(own) > limit + 1:
                ck.violation('attempt-after-give-up', 'address %s, whose every connection ended without a greeting, was dialled %d '
                             'times by the node (give-up limit %d)' % (key, len(own), limit), {'trial': trial, 'attempts': lst[:12]})
        for (hst, port) in nm.my_addresses:
            k_ = (hst, port, 'OUTGOING')
            if k_ in nm.connected_peers:
                ck.violation('self-connection-kept', 'a connection to the node itself stays connected', {'trial': trial})
        if self_detected[0] is not None:
            later = [a for a in attempts if a[0] == 2 and a[1] == 2412 and not a[4] and a[2] > self_detected[0]]
            if later:
                ck.violation('self-connection-retried', 'the node recognised (host 2, port 2412) as itself at t=%d (its own nonce came '
                             'back) and dialled that address again %d time(s) afterwards' % (self_detected[0], len(later)),
                             {'trial': trial, 'later_attempts': later[:6]})
        self_attempts = [a for a in attempts if a[0] == 2]
        if len(self_attempts) > 1 and any((HOSTS[2], 2412) in nm.my_addresses for _ in [0]):
            # attempts to ourselves after detection are a violation; detection happens at the first hello
            pass
        lp.start_outgoing_connection = orig_start
        return events, observed, attempts


def self_connection_probe(ck, tier, cs0):
    """a node whose peer book contains its OWN listening address dials itself: both halves of that connection live in the same
    process and greet each other with the same nonce.  The node recognises the address as its own and never dials it again"""
    from skepticoin.networking import remote_peer as RP
    with simnet.Net(seed=ck.rng.getrandbits(30), t0=1_700_000_000) as net:
        node = net.add_node('N', cs0, host='10.2.0.9', real_store=False)
        lp = node.lp
        nm = lp.network_manager
        dials = []
        orig_start = lp.start_outgoing_connection

        def rec_start(d, _o=orig_start):
            dials.append((d.host, d.port, net.clock()))
            return _o(d)
        lp.start_outgoing_connection = rec_start
        nm.disconnected_peers = RP.load_peers_from_list([('10.2.0.9', 2412, 'OUTGOING')])
        net.run_until_quiet(max_events=4000, step_every=3, dt=7, quiet_needed=60)
        own = [d for d in dials if d[0] == '10.2.0.9']
        ck.case(('self-connection',), kind='self-connection/both-halves-in-process',
                sample={'dials_to_own_address': len(own), 'recognised': ('10.2.0.9', 2412) in nm.my_addresses})
        if node.escaped:
            ck.violation('network-loop-exception', 'an exception escaped the event loop: %s' % node.escaped[0][1], {'self_connection': True})
        elif len(own) > 1:
            ck.violation('self-connection-retried', 'the node dialled its own listening address %d times over %d s (it is recognised as '
                         'the node\'s own after the first greeting and never dialled again)' % (len(own), net.clock() - 1_700_000_000),
                         {'self_connection': True, 'dials': own[:8]})
        lp.start_outgoing_connection = orig_start


def atomic_probe(ck, tier):
    """peers.json is replaced atomically: traced like the wallet file (C15) -- the on-disk content after every
    open/write/flush/close/rename step of write_peers is the complete previous or the complete new list"""
    import sys
    import check_C15 as W15
    from skepticoin.networking import disk_interface as DI
    from skepticoin.networking import remote_peer as RP
    name = DI.PEERS_JSON_FILE
    if os.path.exists(name):
        os.unlink(name)
    di = DI.DiskInterface()
    for k in range(6 if tier == 'quick' else 200):
        peer = RP.DisconnectedRemotePeer('10.3.%d.%d' % (k // 200, k % 200 + 1), 2412, 'OUTGOING', None, 0)
        old_disk = open(name, 'rb').read() if os.path.exists(name) else None
        tr = W15.Tracer(name)
        _restore_fs = W15.install_fs_tracer(DI, tr)
        W15.audit_begin(name)
        try:
            di.write_peers(peer)
        finally:
            a_events, a_states, a_sources = W15.audit_end()
            _restore_fs()
        new_disk = open(name, 'rb').read()
        tr.boundary(('end',))
        for ev_, content in a_states:
            if content != old_disk and content != new_disk and old_disk is not None:
                ck.violation('peers-file-torn', 'at a file-system call (%s) during write_peers the peers file is neither the complete '
                             'previous nor the complete new list' % ev_, {'kind': 'peers-file', 'write': k})
                break
        for src_content in a_sources:
            if src_content != new_disk:
                ck.violation('peers-file-torn', 'at the switch-over of write_peers the side file holds %s bytes on disk, the complete '
                             'new list has %d' % (None if src_content is None else len(src_content), len(new_disk)),
                             {'kind': 'peers-file', 'write': k})
                break
        rp = {'kind': 'peers-file', 'write': k, 'ops': [repr(s_[0]) for s_ in tr.states]}
        for i, (op, content) in enumerate(tr.states):
            ck.case(('peers-file', k, i), kind='peers-file-crash-point/%s' % op[0])
            if content != old_disk and content != new_disk:
                ck.violation('peers-file-torn', 'after step %d (%s) of write_peers the peers file is neither the complete previous '
                             'nor the complete new list (%s bytes)' % (i, op[0], None if content is None else len(content)), rp)
                break
        inplace = W15.in_place_writes(a_events, name) if old_disk is not None else []
        if inplace:
            ck.violation('peers-file-written-in-place', 'write_peers opens the peers file itself for writing (%s)' % ', '.join(inplace[:3]), rp)
        try:
            json.loads(new_disk)
        except Exception as e:
            ck.violation('peers-file-corrupt', 'peers file unreadable after write_peers: %s' % e, rp)
    for f in (name, name + '.new'):
        if os.path.exists(f):
            os.unlink(f)


def run(tier, seed):
    ck = common.Check('C19', tier, seed)
    ck.rule = ('one real node in simnet over 5 addresses: a listener that greets, a listener that echoes the node\'s own nonce '
               '(connection to itself), a listener that never greets, two addresses nobody listens on; random sequences (30-80) '
               'of manager steps with clock increments 0..2000 s, greetings, remote closes, incoming connections with greetings '
               'announcing a listening port (reverse-direction bookkeeping), peer announcements (incl. already known and '
               'duplicate keys), closes; after every event: disjointness of the two books, peers.json, escaped exceptions; per '
               'run: time between consecutive outgoing attempts per address vs min(10*2^k, 1800); a forced entry with 2881 '
               'failures must not be retried; the whole run compared with the extracted PeerBook model; 150 greeted peers for '
               'the file limit; non-trivial = distinct (scenario, step)')
    ck.trusted += ['extraction + OCaml driver', 'simnet fake sockets/selector/clock']
    ck.assumptions += ['kernel rename atomicity for peers.json (same argument as C15_atomic)']
    r = ck.build(extract=True)
    from skepticoin.coinstate import CoinState
    from skepticoin.networking import params as NP
    cs0 = CoinState.zero()
    reqs, wants = [], []
    for trial in range(10 if tier == 'quick' else 300):
        # every third scenario runs with the give-up limit lowered to 3 consecutive greeting-less failures (the shipped 2880
        # would need months of simulated time), patched wherever the networking modules look the constant up
        ma = 3 if trial % 3 == 2 else None
        patched = []
        if ma is not None:
            import sys
            from skepticoin.networking import local_peer as _lp, remote_peer as _rp, manager as _mg   # noqa (loaded before patching)
            for mn, mod in list(sys.modules.items()):
                if mn.startswith('skepticoin.networking') and hasattr(mod, 'MAX_CONNECTION_ATTEMPTS'):
                    patched.append((mod, mod.MAX_CONNECTION_ATTEMPTS))
                    mod.MAX_CONNECTION_ATTEMPTS = ma
        try:
            try:
                events, observed, attempts = scenario(ck, trial, tier, cs0, max_attempts=ma)
            finally:
                for mod, val in patched:
                    mod.MAX_CONNECTION_ATTEMPTS = val
        except Exception:
            import traceback
            tb = traceback.format_exc()
            if 'could not mine a block' in tb:
                ck.count('generator-gave-up(difficulty)')
                continue
            ck.disagree('scenario %d crashed: %s' % (trial, tb[-600:]), {'trial': trial})
            continue
        reqs.append(('book_run', [], [NP.TIME_TO_SECOND_CONNECTION_ATTEMPT, NP.MAX_TIME_BETWEEN_CONNECTION_ATTEMPTS,
                                      ma if ma is not None else NP.MAX_CONNECTION_ATTEMPTS, events]))
        wants.append((observed, {'trial': trial}))
    try:
        self_connection_probe(ck, tier, cs0)
    except Exception:
        import traceback
        ck.disagree('self-connection probe crashed: %s' % traceback.format_exc()[-500:], {})
    try:
        atomic_probe(ck, tier)
    except Exception:
        import traceback
        ck.disagree('peers-file probe crashed: %s' % traceback.format_exc()[-500:], {})
    # ---- constants, retry limit, file limit
    if (NP.TIME_TO_SECOND_CONNECTION_ATTEMPT, NP.MAX_TIME_BETWEEN_CONNECTION_ATTEMPTS, NP.MAX_CONNECTION_ATTEMPTS) != (10, 1800, 2880):
        ck.violation('backoff-constants', 'back-off constants are %r, documented 10 s / 30 min / 2880' % (
            (NP.TIME_TO_SECOND_CONNECTION_ATTEMPT, NP.MAX_TIME_BETWEEN_CONNECTION_ATTEMPTS, NP.MAX_CONNECTION_ATTEMPTS),), {})
    from skepticoin.networking.remote_peer import DisconnectedRemotePeer
    for ban, last, now, want in ((0, None, 5, True), (0, 100, 109, False), (0, 100, 110, True), (3, 100, 179, False),
                                 (3, 100, 180, True), (8, 100, 1899, False), (8, 100, 1900, True), (2880, 0, 10 ** 7, True),
                                 (2881, 0, 10 ** 9, False), (2881, None, 5, False)):
        d = DisconnectedRemotePeer('10.2.0.9', 2412, 'OUTGOING', last, ban)
        got = d.is_time_to_connect(now)
        ck.case(('ttc', ban, last, now), kind='is_time_to_connect')
        if got != want:
            ck.violation('backoff-rule', 'is_time_to_connect(ban=%d, last=%r, now=%d) = %s' % (ban, last, now, got),
                         {'ban': ban, 'last': last, 'now': now})
    with simnet.Net(seed=1) as net:
        node = net.add_node('F', cs0, host='10.0.0.1', real_store=False)
        from skepticoin.networking.remote_peer import RemotePeer
        for i in range(150):
            node.activate()
            node.lp.disk_interface.write_peers(RemotePeer('10.3.%d.%d' % (i // 200, i % 200), 2412, 'OUTGOING', None, 0))
            if i % 10 == 0:
                node.lp.disk_interface.write_peers(RemotePeer('10.3.0.1', 2412, 'OUTGOING', None, 0))
            pj = json.load(open(os.path.join(node.dir, 'peers.json')))
            ck.case(('file', i), kind='peers-file')
            last_written = ['10.3.0.1', 2412, 'OUTGOING'] if i % 10 == 0 else ['10.3.%d.%d' % (i // 200, i % 200), 2412, 'OUTGOING']
            if len(pj) > 100 or pj[0][0:3] != last_written or len(set(tuple(x[0:3]) for x in pj)) != len(pj):
                ck.violation('peers-file', 'peers.json has %d entries, first %s (last greeted %s)' % (len(pj), pj[0][0:3], last_written),
                             {'greeted': i + 1})
                break
    if r.ok:
        outs = model.run_batch(reqs)
        for (observed, rp), o in zip(wants, outs):
            for j, (mb, ob) in enumerate(zip(o, observed)):
                got = model_book(mb)
                if list(got) != [list(x) for x in ob] and got != ob:
                    ck.disagree('NetworkManager vs PeerBook model at event %d (%s)' % (j, ['connected', 'disconnected', 'mine'][[a == b for a, b in zip(got, ob)].index(False)]),
                                dict(rp, step=j, model=repr(got)[:400], impl=repr(ob)[:400]))
                    break
                if mb[4] != 1:
                    ck.disagree('model book not sane', dict(rp, step=j))
        ck.extra['traces_validated_against_impl'] = sum(len(w[0]) for w in wants)
    return ck.finish()


def replay(path):
    d = json.load(open(path))
    print(json.dumps(d, indent=1)[:3000])
    print('re-run with: VERIF_SEED=%d ./check C19 --tier %s' % (d.get('seed', 0), d.get('tier', 'quick')))
    return 1
