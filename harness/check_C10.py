"""C10 -- synchronisation converges and relay terminates.
Theorems: props/Properties_C10.v (locator and server side of block download; relay at most once over the node model).
PARTIAL: convergence under every interleaving is explored, not proved (fairness, timers and TCP back-pressure are
outside the model): 2-3 real nodes in simnet with forked histories, seeded schedulers, virtual clock, run to quiescence.
Function-level tie: get_recent_block_heights and handle_get_blocks_message_received against the extracted model."""
import json

import chaingen
import common
import model
import nodeharness
import simnet
import spec


def histories(tg, rng, shape):
    """returns per-node lists of tree nodes (each a parent-closed set incl. genesis)"""
    g = tg.genesis
    common_len, fa, fb = shape
    n = g
    trunk = [g]
    for _ in range(common_len):
        n = tg.extend(n, txs=[], fees=0, dt=60)
        trunk.append(n)
    a = list(trunk)
    n = trunk[-1]
    for _ in range(fa):
        n = tg.extend(n, txs=[], fees=0, dt=61)
        a.append(n)
    b = list(trunk)
    n = trunk[-1]
    for _ in range(fb):
        n = tg.extend(n, txs=[], fees=0, dt=59)
        b.append(n)
    return trunk, a, b


def chain_complete(cs):
    h = cs.current_chain_hash
    seen = 0
    while True:
        blk = cs.block_by_hash.get(h)
        if blk is None:
            return False
        seen += 1
        if blk.previous_block_hash == b'\x00' * 32:
            return seen == blk.height + 1 or True
        h = blk.previous_block_hash


def long_connection_probe(ck, tier, keys):
    """one long-lived connection, as between two honest nodes over hours: many times a freshly relayed block is followed by
    an inventory that names that same block (a periodic re-sync request crossing with the broadcast on the wire); afterwards
    the peer is ahead by blocks that were never pushed and announces them by inventory: the node still pulls them"""
    from skepticoin.networking import messages as M
    rng = ck.rng
    rounds = 14 if tier == 'quick' else 40
    with chaingen.Env(period=1000) as env:
        tg = chaingen.TreeGen(env, keys, rng)
        n = tg.genesis
        for _ in range(2):
            n = tg.extend(n, txs=[], fees=0, dt=100)
        main = list(tg.nodes)
        with simnet.Net(seed=rng.getrandbits(30), t0=n.view.time + 100) as net:
            sn = nodeharness.SingleNode(net, chaingen.impl_state_from(main), [m.block for m in main[1:]], npeers=1)
            sn.new_messages()
            for r_ in range(rounds):
                n = tg.extend(n, txs=[], fees=0, dt=100)
                net.clock.t = max(net.clock.t, n.view.time + 1)
                sn.deliver(0, M.DataMessage(M.DATA_BLOCK, n.block))
                sn.deliver(0, M.InventoryMessage([M.InventoryItem(M.DATA_BLOCK, n.id)]), irt=500 + r_)
            sn.new_messages()
            ahead = []
            for _ in range(3):
                n = tg.extend(n, txs=[], fees=0, dt=100)
                ahead.append(n)
            net.clock.t = max(net.clock.t, n.view.time + 1)
            sn.deliver(0, M.InventoryMessage([M.InventoryItem(M.DATA_BLOCK, a.id) for a in ahead]), irt=900)
            asked = [i for (k, i, _irt) in sn.new_messages()[0] if k == 'GetDataMessage']
            got = sn.new_messages()
            # serve whatever was asked for (the harness cannot see the requested ids through classify; serve all three)
            for a in ahead:
                sn.deliver(0, M.DataMessage(M.DATA_BLOCK, a.block), irt=901)
            ck.case(('long-connection',), kind='long-connection/%d-crossed-announcements' % rounds,
                    sample={'rounds': rounds, 'requests_after_inventory': len(asked)})
            if len(asked) < len(ahead):
                ck.violation('not-converged', 'after %d relayed blocks each followed by an inventory naming the same block, the node '
                             'answers an inventory of %d unknown blocks with %d block requests: it can no longer catch up over this '
                             'connection' % (rounds, len(ahead), len(asked)), {'long_connection': True, 'rounds': rounds})


def found_block_echo_probe(ck, tier, keys):
    """two connected nodes; the first one's miner finds a block.  The neighbour adopts it and, as for every new head, relays it
    to its own peers -- i.e. back.  Whatever the interleaving of the miner thread with the network thread (here: the echo is
    handled the moment the broadcast has gone out), the finder relays its block once"""
    import check_C12
    from skepticoin.networking import messages as M
    from skepticoin.networking import remote_peer as RP
    rng = ck.rng
    with chaingen.Env(period=50) as env:
        tg = chaingen.TreeGen(env, keys, rng)
        n = tg.genesis
        for _ in range(3):
            n = tg.extend(n, txs=[], fees=0, dt=100)
        main = list(tg.nodes)
        with simnet.Net(seed=rng.getrandbits(30), t0=n.view.time + 50) as net:
            a = net.add_node('a', chaingen.impl_state_from(main))
            b = net.add_node('b', chaingen.impl_state_from(main))
            for nd in (a, b):
                nd.activate()
                nd.store.write_blocks_to_disk([m.block for m in main[1:]])       # the stores hold what the nodes start from
            net.allowed = {frozenset((a.host, b.host))}
            net.link(a, b)
            for _g in range(3):
                for nd in (a, b):
                    nd.activate()
                    nd.lp.network_manager.step(net.clock())
                net.run_until_quiet(max_events=2000, step_every=0, quiet_needed=0)
            sent = []
            orig_send = RP.ConnectedRemotePeer.send_message

            def logged(self, message, prev_header=None, _o=orig_send):
                if type(message) is M.DataMessage and message.data_type == M.DATA_BLOCK and prev_header is None:
                    sent.append((self.local_peer, spec.sha256d(message.data.header.serialize()), id(self)))
                return _o(self, message, prev_header)
            RP.ConnectedRemotePeer.send_message = logged
            orig_bc = a.lp.network_manager.broadcast_block

            def bc_then_network(block, _o=orig_bc):
                r_ = _o(block)
                net.run_until_quiet(max_events=5000, step_every=0, quiet_needed=0)     # the network thread runs NOW
                a.activate()
                return r_
            a.lp.network_manager.broadcast_block = bc_then_network

            class Adapter:
                node = a

                def lp(self):
                    return a.lp

                def pump(self):
                    pass
            try:
                found = check_C12.mine_one(Adapter(), net, keys, tg, n)
            finally:
                RP.ConnectedRemotePeer.send_message = orig_send
                a.lp.network_manager.broadcast_block = orig_bc
            if found is None:
                return
            net.run_until_quiet(max_events=5000, step_every=0, quiet_needed=0)
            per_conn = {}
            for (lp_, bid, conn_) in sent:
                if lp_ is a.lp and bid == found.id:
                    per_conn[conn_] = per_conn.get(conn_, 0) + 1
            times = max(per_conn.values()) if per_conn else 0       # relays over one connection
            ck.case(('found-block-echo',), kind='relay/found-block-echoed-by-neighbour', sample={'relays_by_finder': times})
            if times != 1:
                ck.violation('relay-count', 'a node whose miner found a block relayed it %d times (its neighbour echoed the new head '
                             'back while the found-block handler was still running)' % times, {'scripted': 'found block echo'})


def run(tier, seed):
    ck = common.Check('C10', tier, seed)
    ck.rule = ('2-3 real nodes (LocalPeer, managers, real stores) in simnet; histories: common prefix 1-3, fork lengths chosen '
               'so that the fork point lies inside (<10) and beyond (16, 25, 36+) the dense locator range, more than one '
               'inventory batch (batch size patched to 5), one node with genesis only; topologies: line, star, triangle, both '
               'directions; seeded schedulers choose the next event (delivery of 1..1024 bytes, writable, timer step); run to '
               'quiescence; then a valid transaction is broadcast; oracle: equal maximal head height everywhere, complete '
               'chains, transaction in every pool, at most one unsolicited relay per (node, block) and per (node, transaction); '
               'plus get_recent_block_heights for all heads 0..5000 and squares+-1, and the get-blocks server on random '
               'locators against the extracted model; non-trivial = distinct (histories, topology, schedule seed)')
    ck.trusted += ['extraction + OCaml driver', 'simnet (fake sockets, selector, virtual clock, seeded scheduler)', 'chain generator',
                   'test parameters: inventory batch 5, sha256 stand-in for scrypt, horizon -1']
    ck.assumptions += ['fairness: every enabled delivery and timer step eventually happens; honest nodes; no connection loss']
    r = ck.build(extract=True)
    from skepticoin.networking import local_peer as _LP  # noqa (import order: local_peer before manager)
    from skepticoin.networking import remote_peer as RP
    from skepticoin.networking import manager as MG
    from skepticoin.networking import messages as M
    rng = ck.rng
    keys = chaingen.Keys()
    # ---------------- function level: locator
    reqs, wants = [], []
    hs = list(range(0, 5001 if tier == 'thorough' else 700)) + [k * k + d for k in range(4, 70) for d in (-1, 0, 1)] + [163000, 10 ** 6]
    for h in hs:
        reqs.append(('recent_heights', [], h))
        wants.append(MG.get_recent_block_heights(h))
        ck.evaluations += 1
    ck.count('locator-heights', len(hs))
    # ---------------- function level: the get-blocks server
    old_batch = RP.GET_BLOCKS_INVENTORY_SIZE
    serve_meta = []
    with chaingen.Env(period=50) as env:
        RP.GET_BLOCKS_INVENTORY_SIZE = 5
        try:
            tg = chaingen.TreeGen(env, keys, rng)
            trunk, a, b = histories(tg, rng, (3, 14, 6))
            cs = chaingen.impl_state_from(tg.nodes)
            idm = nodeharness.IdMap()
            main = [None] * (cs.head().height + 1)
            for hgt, blk in cs.by_height_at_head().items():
                main[hgt] = idm(spec.sha256d(blk.header.serialize()))
            heights = [[idm(n.id), n.height] for n in tg.nodes]

            class StubLP:
                import logging
                logger = logging.getLogger('skv-stub')
            _stub = StubLP()
            _stub.chain_manager = MG.ChainManager(_stub, 0)      # the real manager object, holding the generated state
            _stub.chain_manager.coinstate = cs
            _stub.chain_manager.last_known_valid_coinstate = cs

            class Cap(RP.ConnectedRemotePeer):
                def __init__(self):
                    self.local_peer = _stub
                    self.host = 'stub'
                    self.sent = []

                def send_message(self, message, prev_header=None):
                    self.sent.append(message)
            for _ in range(60 if tier == 'quick' else 600):
                k = rng.choice([1, 1, 2, 3, 5])
                pool_ids = [n.id for n in tg.nodes] + [bytes(rng.getrandbits(8) for _ in range(32)) for _ in range(3)]
                starts = [rng.choice(pool_ids) for _ in range(k)]
                if rng.random() < 0.3:
                    hd = [n for n in tg.nodes if n.id == bytes(cs.current_chain_hash)][0]
                    starts = [hd.chain()[max(0, hd.height - o)].id for o in (0, 1, 2, 4, 9) if hd.height - o >= 0]
                cap = Cap()
                cap.handle_get_blocks_message_received(M.MessageHeader(0, 1, 0, 0), M.GetBlocksMessage(starts))
                got = [idm(bytes(it.hash)) for it in cap.sent[0].items]
                reqs.append(('serve', [], [5, main, heights, [idm(x) for x in starts]]))
                wants.append(got)
                ck.case(('serve', tuple(starts)), kind='serve/%d' % len(got))
        finally:
            RP.GET_BLOCKS_INVENTORY_SIZE = old_batch
    try:
        found_block_echo_probe(ck, tier, keys)
    except Exception:
        import traceback
        tb = traceback.format_exc()
        if 'could not mine a block' not in tb:
            ck.disagree('found-block echo probe crashed: %s' % tb[-500:], {})
    try:
        import check_C13
        check_C13.scripted_reorg(ck, tier)       # a transaction valid again after a fork switch reaches the pool again
    except Exception:
        import traceback
        tb = traceback.format_exc()
        if 'could not mine a block' not in tb:
            ck.disagree('re-announced transaction probe crashed: %s' % tb[-500:], {})
    try:
        long_connection_probe(ck, tier, keys)
    except Exception:
        import traceback
        tb = traceback.format_exc()
        if 'could not mine a block' not in tb:
            ck.disagree('long-connection probe crashed: %s' % tb[-500:], {})
    # ---------------- system level: convergence + relay termination
    shapes = [(2, 3, 0), (1, 12, 5), (2, 18, 12), (3, 27, 4), (1, 38, 2)] if tier == 'quick' else \
             [(2, 3, 0), (1, 7, 7), (1, 12, 5), (2, 18, 9), (3, 27, 4), (1, 38, 2), (2, 40, 17), (1, 26, 25)]
    topologies = [[(1, 0)], [(0, 1)], [(1, 0), (2, 0)], [(0, 1), (1, 2)], [(0, 1), (1, 2), (2, 0)]]
    nsched = 2 if tier == 'quick' else 8
    for si, shape in enumerate(shapes):
        for topo in (topologies if tier == 'thorough' else [topologies[(si * 2) % 5], topologies[(si * 2 + 1) % 5]]):
            for sched in range(nsched):
                with chaingen.Env(period=50) as env:
                    RP.GET_BLOCKS_INVENTORY_SIZE = 5
                    sent_log = []
                    orig_send = RP.ConnectedRemotePeer.send_message

                    def logged(self, message, prev_header=None, _o=orig_send):
                        sent_log.append((self.local_peer, message, prev_header is None))
                        return _o(self, message, prev_header)
                    RP.ConnectedRemotePeer.send_message = logged
                    try:
                        tg = chaingen.TreeGen(env, keys, rng)
                        trunk, a, b = histories(tg, rng, shape)
                        nn = 1 + max(max(x) for x in topo)
                        hist = [a, b, trunk][:nn] if nn == 3 else [a, b]
                        if sched % 2 == 1:
                            # the taller node ALSO stores the other node's branch as a side branch
                            taller, other = (a, b) if shape[1] >= shape[2] else (b, a)
                            hist = [taller + other[len(trunk):], other] + ([trunk] if nn == 3 else [])
                            hist = hist[::-1]
                        best = max(n.height for h in hist for n in h)
                        tmax = max(n.view.time for n in tg.nodes)
                        with simnet.Net(seed=rng.getrandbits(30), t0=tmax + 1000) as net:
                            if sched % 2 == 0:
                                net.default_send_limit = rng.choice([200, 700])      # congested links: partial sends
                            # in every second schedule of a three-node topology two nodes share one address (different ports):
                            # two machines behind one address, or two nodes on one machine
                            shared = (nn == 3 and sched % 2 == 1)
                            nodes = [net.add_node('n%d' % i, chaingen.impl_state_from(h),
                                                  host=('10.0.7.7' if (shared and i >= 1) else None),
                                                  port=(2412 + i if (shared and i >= 1) else 2412))
                                     for i, h in enumerate(hist)]
                            # the topology stays what it is: addresses learnt from peers lists cannot create extra links
                            net.allowed = set(frozenset((nodes[x].host, nodes[y].host)) for (x, y) in topo)
                            for (x, y) in topo:
                                net.link(nodes[x], nodes[y])
                            # a transaction that only the node(s) holding the best chain can validate yet (it spends the
                            # reward of the best head) is broadcast BEFORE the others have caught up: they refuse it now ...
                            # greetings only (network manager steps, no chain manager step: no block request goes out yet)
                            for _g in range(3):
                                for nd in nodes:
                                    nd.activate()
                                    nd.lp.network_manager.step(net.clock())
                                net.run_until_quiet(max_events=2000, step_every=0, quiet_needed=0)
                            tall_i = max(range(len(nodes)), key=lambda i: nodes[i].lp.chain_manager.coinstate.head().height)
                            tall_head = [x for x in tg.nodes if x.id == bytes(nodes[tall_i].lp.chain_manager.coinstate.current_chain_hash)][0]
                            early_tx = None
                            cbt = tall_head.view.txs[0]
                            if cbt.outputs and cbt.outputs[0][1] in keys.by_pk and cbt.outputs[0][0] > 0 and \
                                    any(nd.lp.chain_manager.coinstate.head().height < best for nd in nodes):
                                early_tx = chaingen.signed_tx(keys, tall_head.utxo, [(cbt.id, 0)], [(cbt.outputs[0][0], keys.pks[2])])
                                nodes[tall_i].activate()
                                if nodes[tall_i].lp.chain_manager.add_transaction_to_pool(early_tx):
                                    nodes[tall_i].lp.network_manager.broadcast_transaction(early_tx)
                                else:
                                    early_tx = None
                            fired = net.run_until_quiet(max_events=60000, chunk=lambda rg: rg.choice([1, 7, 100, 1024, 1024]),
                                                        step_every=40, dt=13, quiet_needed=14)
                            rp = {'shape': shape, 'topology': topo, 'schedule': sched, 'heights': [max(n.height for n in h) for h in hist]}
                            heads = [n.lp.chain_manager.coinstate.head().height for n in nodes]
                            ck.case((shape, tuple(topo), sched), kind='sync/fork%d-%d' % (shape[1], shape[2]),
                                    sample={'initial_heights': rp['heights'], 'topology': topo, 'events': fired, 'final_heads': heads}
                                    if len(ck.samples) < 4 else None)
                            esc = [e for n in nodes for e in n.escaped]
                            if esc:
                                ck.violation('event-loop-exception', 'an exception escaped a node\'s event loop: %s' % esc[0][1], rp)
                                continue
                            if any(h != best for h in heads):
                                ck.violation('not-converged', 'at quiescence head heights are %s, the greatest initial height is %d' % (heads, best), rp)
                                continue
                            if not all(chain_complete(n.lp.chain_manager.coinstate) for n in nodes):
                                ck.violation('incomplete-chain', 'a node does not store the complete chain of its head', rp)
                            # relay counts
                            cnt = {}
                            for (lp, msg, unsolicited) in sent_log:
                                if unsolicited and type(msg) is M.DataMessage:
                                    cnt.setdefault((id(lp), msg.data_type, spec.sha256d(msg.data.serialize() if msg.data_type == M.DATA_TRANSACTION else msg.data.header.serialize())), []).append(1)
                            # a relay goes to every active peer: count per (node, object) distinct relay rounds = sends / peers
                            # ---- transaction broadcast once heads are shared
                            heads_id = set(bytes(n.lp.chain_manager.coinstate.current_chain_hash) for n in nodes)
                            if len(heads_id) == 1 and early_tx is not None and list(heads_id)[0] == tall_head.id:
                                # ... and once all share the head, the same transaction announced again reaches every pool
                                nodes[tall_i].activate()
                                nodes[tall_i].lp.network_manager.broadcast_transaction(early_tx)
                                net.run_until_quiet(max_events=20000, step_every=40, dt=13, quiet_needed=4)
                                ck.count('transaction-announced-before-and-after-catch-up')
                                for i, n in enumerate(nodes):
                                    if early_tx not in n.lp.chain_manager.transaction_pool:
                                        ck.violation('tx-not-propagated', 'a valid transaction that node %d had to refuse while it '
                                                     'was still behind (it spends an output of a block it did not have yet) does '
                                                     'not reach its pool when it is announced again after the nodes share a head' % i, rp)
                                        break
                            if len(heads_id) == 1:
                                hd = [x for x in tg.nodes if x.id == list(heads_id)[0]][0]
                                av = sorted(x for x in tg.spendable(hd) if early_tx is None or x[0] != (cbt.id, 0))
                                if av:
                                    tx = chaingen.signed_tx(keys, hd.utxo, [av[0][0]], [(av[0][1][0], keys.pks[1])])
                                    del sent_log[:]
                                    nodes[0].activate()
                                    if nodes[0].lp.chain_manager.add_transaction_to_pool(tx):
                                        nodes[0].lp.network_manager.broadcast_transaction(tx)
                                    net.run_until_quiet(max_events=20000, step_every=40, dt=13, quiet_needed=4)
                                    for i, n in enumerate(nodes):
                                        if tx not in n.lp.chain_manager.transaction_pool:
                                            ck.violation('tx-not-propagated', 'a valid transaction broadcast by one node did not reach node %d' % i, rp)
                                    per = {}
                                    for (lp, msg, unsolicited) in sent_log:
                                        if unsolicited and type(msg) is M.DataMessage and msg.data_type == M.DATA_TRANSACTION:
                                            per.setdefault(id(lp), 0)
                                            per[id(lp)] += 1
                                    for n in nodes:
                                        k = len(n.lp.network_manager.get_active_peers())
                                        if per.get(id(n.lp), 0) > k:
                                            ck.violation('tx-relayed-more-than-once', 'a node sent a transaction %d times to %d peers' % (per[id(n.lp)], k), rp)
                    finally:
                        RP.ConnectedRemotePeer.send_message = orig_send
                        RP.GET_BLOCKS_INVENTORY_SIZE = old_batch
    if r.ok:
        outs = model.run_batch(reqs)
        bad = 0
        for (name, _, arg), want, got in zip(reqs, wants, outs):
            if want != got:
                bad += 1
                if bad <= 3:
                    ck.disagree('%s vs model' % ('get_recent_block_heights' if name == 'recent_heights' else 'handle_get_blocks_message_received'),
                                {'arg': repr(arg)[:300], 'impl': repr(want)[:200], 'model': repr(got)[:200]})
        ck.extra['traces_validated_against_impl'] = len(reqs)
    return ck.finish()


def replay(path):
    d = json.load(open(path))
    print(json.dumps(d, indent=1)[:3000])
    print('re-run with: VERIF_SEED=%d ./check C10 --tier %s' % (d.get('seed', 0), d.get('tier', 'quick')))
    return 1
