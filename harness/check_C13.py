"""C13 -- pending-transaction pool holds only valid, mutually compatible transactions.
Theorems: props/Properties_C13.v (PoolInv preserved by every step of the node model, admission, exact eviction).
Tie: the real ChainManager / handle_transaction_received / handle_block_received inside simnet, against the extracted
NodeModel with the validators' verdicts computed outside the handlers.  Search oracle: independent validity of every
pooled transaction at the head (harness/spec.py) after every event."""
import json

import chaingen
import common
import model
import nodeharness
import simnet
import spec


def spec_tx_by_itself(tv):
    if not tv.inputs or not tv.outputs:
        return False
    if len(tv.bytes) > 200000:
        return False
    tot = 0
    for v, _ in tv.outputs:
        if not (0 < v <= spec.MAX_SASHIMI):
            return False
        tot += v
    if not (0 < tot <= spec.MAX_SASHIMI):
        return False
    refs = [(h, i) for h, i, _ in tv.inputs]
    if len(set(refs)) != len(refs):
        return False
    for h, i, sg in tv.inputs:
        if h == b'\x00' * 32 and i == 0:
            return False
        if sg[0] != 2:
            return False
    return True


def spec_tx_in_state(tv, utxo):
    tot = 0
    for h, i, sg in tv.inputs:
        if (h, i) not in utxo:
            return False
        if sg[0] != 2 or not spec.verify(utxo[(h, i)][1], sg[1], tv.signable):
            return False
        tot += utxo[(h, i)][0]
    return sum(v for v, _ in tv.outputs) <= tot


class Scenario:
    def __init__(self, ck, tier, trial):
        self.ck = ck
        self.rng = ck.rng
        self.keys = chaingen.Keys()
        self.trial = trial

    def run(self, env, nsteps):
        from skepticoin.networking import messages as M
        ck, rng, keys = self.ck, self.rng, self.keys
        tg = chaingen.TreeGen(env, keys, rng)
        # a chain whose rewards we own, without spends: plenty of spendable outputs
        n = tg.genesis
        for _ in range(5):
            n = tg.extend(n, txs=[], fees=0)
        main = list(tg.nodes)
        byid = {x.id: x for x in tg.nodes}
        cs0 = chaingen.impl_state_from(main)
        events = []          # model events
        pairs_valid = set()
        pairs_conf = set()
        idm = nodeharness.IdMap()
        observed = []
        with simnet.Net(seed=rng.getrandbits(30), t0=main[-1].view.time + 100) as net:
            sn = nodeharness.SingleNode(net, cs0, [m.block for m in main[1:]], npeers=2)
            sn.new_messages()
            universe = {}     # tx id -> (impl tx, view)
            init = sn.observe()
            init_state = [[[idm(m.id), 0 if m.parent is None else idm(m.parent.id), m.height] for m in main],
                          idm(init['head']), [], sorted(idm(r) for r in init['rows'])]
            side_tip = None
            for step in range(nsteps):
                cm = sn.lp().chain_manager
                head = byid[bytes(cm.coinstate.current_chain_hash)]
                before = sn.observe()
                pool_before = list(cm.transaction_pool)
                r = rng.random()
                rp = {'trial': self.trial, 'step': step}
                if r < 0.55:
                    # ---- a transaction submission
                    kind = rng.choice(['valid', 'valid', 'valid', 'conflict', 'duplicate', 'no-outputs', 'zero-value',
                                       'bad-signature', 'unknown-input', 'spent-input', 'overspend', 'two-inputs',
                                       'later-input-bad-signature', 'later-input-bad-signature', 'conflict-on-later-input',
                                       'conflict-on-later-input'])
                    avail = sorted(tg.spendable(head))
                    pooled_refs = set()
                    for t in pool_before:
                        for i in t.inputs:
                            pooled_refs.add((bytes(i.output_reference.hash), i.output_reference.index))
                    free = [a for a in avail if a[0] not in pooled_refs]
                    tx = None
                    try:
                        if kind in ('valid', 'two-inputs') and free:
                            k = 2 if (kind == 'two-inputs' and len(free) >= 2) else 1
                            recent = [a for a in free if a[0][0] in [t.id for t in head.view.txs]]
                            ch = (recent[:k] if (recent and rng.random() < 0.5) else rng.sample(free, k))
                            tot = sum(vo[0] for _, vo in ch)
                            tx = chaingen.signed_tx(keys, head.utxo, [x for x, _ in ch],
                                                    [(tot - rng.choice([0, 5]), rng.choice(keys.pks))])
                        elif kind == 'conflict' and pool_before:
                            t0 = rng.choice(pool_before)
                            ref = (bytes(t0.inputs[0].output_reference.hash), t0.inputs[0].output_reference.index)
                            if ref in head.utxo:
                                tx = chaingen.signed_tx(keys, head.utxo, [ref], [(head.utxo[ref][0], keys.pks[5])])
                        elif kind == 'duplicate' and pool_before:
                            tx = rng.choice(pool_before)
                        elif kind == 'no-outputs' and free:
                            tx = chaingen.signed_tx(keys, head.utxo, [free[0][0]], [])
                        elif kind == 'zero-value' and free:
                            tx = chaingen.signed_tx(keys, head.utxo, [free[0][0]], [(0, keys.pks[1]), (free[0][1][0], keys.pks[2])])
                        elif kind == 'bad-signature' and free:
                            wrong = [pk for pk in keys.pks if pk != free[0][1][1]][0]
                            tx = chaingen.signed_tx(keys, head.utxo, [free[0][0]], [(free[0][1][0], keys.pks[1])],
                                                    sign_with={free[0][0]: wrong})
                        elif kind == 'later-input-bad-signature' and len(free) >= 2:
                            # several inputs, the first correctly signed, a LATER one (same key where possible) carrying a
                            # well-formed signature made by another key
                            same = [(a, b) for a in free for b in free if a[0] != b[0] and a[1][1] == b[1][1]]
                            a_, b_ = same[0] if same else (free[0], free[1])
                            wrong = [pk for pk in keys.pks if pk not in (a_[1][1], b_[1][1])][0]
                            tx = chaingen.signed_tx(keys, head.utxo, [a_[0], b_[0]], [(a_[1][0] + b_[1][0], keys.pks[1])],
                                                    sign_with={b_[0]: wrong})
                        elif kind == 'conflict-on-later-input' and pool_before and free:
                            # several inputs: the first is free, a LATER one is already spent by a pending transaction
                            t0 = rng.choice(pool_before)
                            ref = (bytes(t0.inputs[-1].output_reference.hash), t0.inputs[-1].output_reference.index)
                            if ref in head.utxo:
                                tx = chaingen.signed_tx(keys, head.utxo, [free[0][0], ref],
                                                        [(free[0][1][0] + head.utxo[ref][0], keys.pks[5])])
                        elif kind == 'unknown-input':
                            ref = (bytes(rng.getrandbits(8) for _ in range(32)), 0)
                            tx = chaingen.signed_tx(keys, {ref: (9, keys.pks[0])}, [ref], [(9, keys.pks[1])])
                        elif kind == 'spent-input':
                            created = {}
                            for m in head.chain():
                                for t in m.view.txs:
                                    for j, o in enumerate(t.outputs):
                                        created[(t.id, j)] = o
                            gone = sorted(k for k, o in created.items() if k not in head.utxo and o[1] in keys.by_pk)
                            if gone:
                                tx = chaingen.signed_tx(keys, {gone[0]: created[gone[0]]}, [gone[0]],
                                                        [(created[gone[0]][0], keys.pks[1])])
                        elif kind == 'overspend' and free:
                            tx = chaingen.signed_tx(keys, head.utxo, [free[0][0]], [(free[0][1][0] + 1, keys.pks[1])])
                    except Exception:
                        tx = None
                    if tx is None:
                        continue
                    tv = spec.TxView(tx)
                    universe[tv.id] = (tx, tv)
                    via = rng.choice(['peer', 'peer', 'direct'])
                    itself_ok = sn.tx_itself(tx)
                    if sn.tx_valid_at(tx):
                        pairs_valid.add((idm(head.id), idm(tv.id)))
                    for oid, (otx, otv) in universe.items():
                        if oid != tv.id and nodeharness.tx_conflict(tx, otx):
                            pairs_conf.add((idm(tv.id), idm(oid)))
                    if via == 'peer':
                        i = rng.randrange(len(sn.peers))
                        if not sn.connected(i):
                            continue
                        sn.deliver(i, M.DataMessage(M.DATA_TRANSACTION, tx))
                    else:
                        sn.node.activate()
                        try:
                            if tx not in cm.transaction_pool and cm.add_transaction_to_pool(tx):
                                sn.lp().network_manager.broadcast_transaction(tx)
                        except Exception:
                            pass
                        sn.pump()
                    events.append([1, idm(tv.id), itself_ok])
                    after = sn.observe()
                    ck.case((self.trial, step), kind='tx/%s/%s' % (kind, 'admitted' if tv.id in after['pool'] and tv.id not in before['pool'] else 'refused'),
                            sample={'event': 'tx ' + kind, 'via': via, 'pool_after': len(after['pool'])} if len(ck.samples) < 3 else None)
                    newly = tv.id in after['pool'] and tv.id not in before['pool']
                    ok_spec = spec_tx_by_itself(tv) and spec_tx_in_state(tv, head.utxo) and not any(
                        nodeharness.tx_conflict(tx, t) for t in pool_before)
                    if newly and not ok_spec:
                        ck.violation('invalid-tx-admitted', 'a transaction (%s) that is invalid at the head or conflicts with '
                                     'a pending one was admitted to the pool' % kind, dict(rp, kind=kind))
                else:
                    # ---- a head change: block on the head (with some pooled transactions) or on a side branch
                    if side_tip is not None and side_tip.id in byid and r >= 0.72 and side_tip.id != head.id:
                        parent = side_tip                      # grow the competing branch (eventually a fork switch)
                    elif r < 0.88:
                        parent = head
                    else:
                        hc = head.chain()
                        parent = hc[max(1, len(hc) - rng.choice([2, 3, 4]))]
                    inc = [t for t in pool_before if rng.random() < 0.6] if parent is head else []
                    txs = []
                    fees = 0
                    for t in inc:
                        tvv = spec.TxView(t)
                        if spec_tx_in_state(tvv, parent.utxo):
                            txs.append(t)
                            fees += sum(parent.utxo[(h, i)][0] for h, i, _ in tvv.inputs) - sum(v for v, _ in tvv.outputs)
                    # sometimes a competing spend of a pooled transaction's input instead
                    if pool_before and rng.random() < (0.3 if parent is head else 0.6):
                        t0 = rng.choice(pool_before)
                        ref = (bytes(t0.inputs[0].output_reference.hash), t0.inputs[0].output_reference.index)
                        if ref in parent.utxo and t0 not in txs:
                            txs.append(chaingen.signed_tx(keys, parent.utxo, [ref], [(parent.utxo[ref][0], keys.pks[4])]))
                    try:
                        newn = tg.extend(parent, txs=txs, fees=fees, dt=rng.choice([100, 140]))
                    except Exception:
                        continue
                    byid[newn.id] = newn
                    if parent is not head:
                        side_tip = newn
                    net.clock.t = max(net.clock.t, newn.view.time + 1)
                    v = sn.block_verdicts(newn.block)
                    i = rng.randrange(len(sn.peers))
                    if not sn.connected(i):
                        continue
                    # a third of the head changes arrive as replies to the node's own block requests (bulk download: applied
                    # without in-state validation, not yet flushed) -- a head change all the same
                    irt = 0 if rng.random() < 0.67 else 63
                    sn.deliver(i, M.DataMessage(M.DATA_BLOCK, newn.block), irt=irt)
                    events.append([0, idm(newn.id), idm(parent.id), newn.height, v[0], v[1], v[2], irt == 0])
                    after = sn.observe()
                    new_head = byid[after['head']]
                    cs_now = sn.lp().chain_manager.coinstate
                    for oid, (otx, otv) in universe.items():
                        if sn.tx_valid_at(otx, cs_now):
                            pairs_valid.add((idm(new_head.id), idm(oid)))
                    ck.case((self.trial, step), kind='block/%s' % ('reorg' if new_head.id != newn.id or parent is not head else 'extend'),
                            sample={'event': 'block', 'on_head': parent is head, 'pool_before': len(before['pool']),
                                    'pool_after': len(after['pool'])} if len(ck.samples) < 5 else None)
                    want = [spec.sha256d(t.serialize()) for t in pool_before
                            if spec_tx_in_state(spec.TxView(t), new_head.utxo)]
                    if after['pool'] != want:
                        ck.violation('eviction-not-exact', 'after a head change the pool is not exactly the transactions '
                                     'still valid at the new head (%d pending, %d expected)' % (len(after['pool']), len(want)),
                                     dict(rp, kind='head-change'))
                # ---- PoolInv oracle after every event
                cmn = sn.lp().chain_manager
                hd = byid[bytes(cmn.coinstate.current_chain_hash)]
                pool = list(cmn.transaction_pool)
                for t in pool:
                    tvv = spec.TxView(t)
                    if not (spec_tx_by_itself(tvv) and spec_tx_in_state(tvv, hd.utxo)):
                        ck.violation('pooled-tx-invalid-at-head', 'a pending transaction is not valid against the ledger state '
                                     'of the current head', dict(rp, kind='poolinv'))
                        break
                for a in range(len(pool)):
                    for b in range(a + 1, len(pool)):
                        if nodeharness.tx_conflict(pool[a], pool[b]):
                            ck.violation('pooled-txs-conflict', 'two pending transactions spend the same output',
                                         dict(rp, kind='poolinv'))
                if sn.node.escaped:
                    ck.violation('exception-escaped', 'an exception escaped the event handler: %s' % sn.node.escaped[0][1],
                                 dict(rp, kind='escape'))
                    break
                o = sn.observe()
                observed.append([sorted(idm(x) for x in o['blocks']), idm(o['head']), [idm(x) for x in o['pool']],
                                 [idm(x) for x in o['buffer']], sorted(idm(x) for x in o['rows'])])
        req = ('node_run', [], [10000, [list(p) for p in sorted(pairs_valid)], [list(p) for p in sorted(pairs_conf)],
                                init_state, events])
        return req, observed


def thread_probes(ck, tier):
    """two real threads, as in the running node (network thread admits a transaction, miner thread installs a new head):
    the admitting thread is held at a chosen point (after one of the three validation steps) while the other thread
    installs a head that spends the transaction's input; with the manager's lock covering validation + append the head
    change waits and then evicts the transaction; whatever the interleaving, the pool invariant must hold afterwards"""
    import threading
    from skepticoin.networking import manager as MG
    rng = ck.rng
    keys = chaingen.Keys()
    points = ['validate_non_coinbase_transaction_by_itself', 'validate_non_coinbase_transaction_in_coinstate',
              'validate_no_duplicate_output_references_in_transactions']
    for probe in range(3 if tier == 'quick' else 12):
        point = points[probe % 3]
        with chaingen.Env(period=50) as env:
            tg = chaingen.TreeGen(env, keys, rng)
            n = tg.genesis
            for _ in range(4):
                n = tg.extend(n, txs=[], fees=0)
            main = list(tg.nodes)
            av = sorted(tg.spendable(n))
            ref, (val, _pk) = av[probe % len(av)]
            tx = chaingen.signed_tx(keys, n.utxo, [ref], [(val, keys.pks[1])])
            rival = chaingen.signed_tx(keys, n.utxo, [ref], [(val, keys.pks[2])])
            nb = tg.extend(n, txs=[rival], fees=0)
            with simnet.Net(seed=rng.getrandbits(30), t0=nb.view.time + 100) as net:
                sn = nodeharness.SingleNode(net, chaingen.impl_state_from(main), [m.block for m in main[1:]], npeers=1)
                sn.node.activate()
                cm = sn.lp().chain_manager
                new_cs = cm.coinstate.add_block(nb.block, nb.view.time + 1)
                validated, switched = threading.Event(), threading.Event()
                from skepticoin import consensus as CONS
                # the validator is held wherever the manager looks it up: its own namespace (from-import) and the
                # consensus module (attribute access); a name that is in neither leaves the probe sequential
                places = [m_ for m_ in (MG, CONS) if hasattr(m_, point)]
                origs = [(m_, getattr(m_, point)) for m_ in places]
                admitting = []

                def mk_held(_o):
                    def held(*a, **kw):
                        r_ = _o(*a, **kw)
                        if threading.current_thread() in admitting and not validated.is_set():
                            validated.set()
                            switched.wait(0.4)
                        return r_
                    return held
                for m_, o_ in origs:
                    setattr(m_, point, mk_held(o_))
                res = {}
                try:
                    def admit():
                        res['ok'] = cm.add_transaction_to_pool(tx)

                    def switch():
                        validated.wait(2)
                        cm.set_coinstate(new_cs)
                        switched.set()
                    ta, tb = threading.Thread(target=admit), threading.Thread(target=switch)
                    admitting.append(ta)
                    ta.start(); tb.start(); ta.join(5); tb.join(5)
                finally:
                    for m_, o_ in origs:
                        setattr(m_, point, o_)
                pool = list(cm.transaction_pool)
                ck.case(('threads', probe), kind='threads/held-after-' + point.replace('validate_', '')[:28],
                        sample={'held_after': point, 'admitted': res.get('ok'), 'pool_after': len(pool)} if probe < 2 else None)
                rp = {'kind': 'threads', 'probe': probe, 'schedule': 'network thread: add_transaction_to_pool(T) held after %s | '
                      'miner thread: set_coinstate(head + block spending the input of T) | network thread resumes' % point}
                if ta.is_alive() or tb.is_alive():
                    ck.violation('pool-threads-deadlock', 'transaction admission and head installation did not both finish', rp)
                    continue
                if bytes(cm.coinstate.current_chain_hash) != nb.id:
                    ck.violation('head-not-installed', 'the new head was not installed', rp)
                for t in pool:
                    tvv = spec.TxView(t)
                    if not (spec_tx_by_itself(tvv) and spec_tx_in_state(tvv, nb.utxo)):
                        ck.violation('pooled-tx-invalid-at-head', 'after a transaction admission on the network thread interleaved '
                                     'with a head change on the miner thread, a pending transaction is not valid against the '
                                     'ledger state of the current head', rp)
                        break


def scripted_reorg(ck, tier):
    """a transaction is admitted, mined, and un-mined again by a fork switch (its inputs are unspent once more, it is no
    longer pending); then a copy with the same references and outputs but made-up signatures is submitted: refused --
    what the node remembers about the genuine transaction does not vouch for the copy; the genuine one is admitted again"""
    from skepticoin.networking import messages as M
    from skepticoin.signing import SECP256k1Signature
    from skepticoin.datatypes import Transaction, Input
    rng = ck.rng
    keys = chaingen.Keys()
    for trial in range(2 if tier == 'quick' else 8):
        with chaingen.Env(period=50) as env:
            tg = chaingen.TreeGen(env, keys, rng)
            n = tg.genesis
            for _ in range(4):
                n = tg.extend(n, txs=[], fees=0, dt=100)
            main = list(tg.nodes)
            with simnet.Net(seed=rng.getrandbits(30), t0=n.view.time + 5000) as net:
                sn = nodeharness.SingleNode(net, chaingen.impl_state_from(main), [m.block for m in main[1:]], npeers=2)
                sn.new_messages()
                av = sorted(tg.spendable(n))
                k_in = 1 + trial % 2
                ins = av[:k_in]
                T = chaingen.signed_tx(keys, n.utxo, [r_ for r_, _ in ins], [(sum(vo[0] for _, vo in ins), keys.pks[1])])
                sn.deliver(0, M.DataMessage(M.DATA_TRANSACTION, T))
                b1 = tg.extend(n, txs=[T], fees=0, dt=100)
                sn.deliver(0, M.DataMessage(M.DATA_BLOCK, b1.block))
                s1 = tg.extend(n, txs=[], fees=0, dt=101)
                s2 = tg.extend(s1, txs=[], fees=0, dt=100)
                for x in (s1, s2):
                    sn.deliver(1, M.DataMessage(M.DATA_BLOCK, x.block))
                cm = sn.lp().chain_manager
                if bytes(cm.coinstate.current_chain_hash) != s2.id or T in cm.transaction_pool:
                    ck.count('scripted-reorg-skipped')
                    continue
                bogus = Transaction(inputs=[Input(i.output_reference, SECP256k1Signature(bytes(rng.getrandbits(8) for _ in range(64))))
                                            for i in T.inputs], outputs=list(T.outputs))
                sn.deliver(1, M.DataMessage(M.DATA_TRANSACTION, bogus))
                ck.case(('scripted-reorg', trial), kind='copy-of-unmined-tx-with-made-up-signatures')
                rp = {'scripted': 'admit T | mine T | fork switch un-mines T | submit copy of T with made-up signatures', 'trial': trial}
                if any(spec.sha256d(t.serialize()) == spec.sha256d(bogus.serialize()) for t in cm.transaction_pool):
                    ck.violation('invalid-tx-admitted', 'a copy of an earlier validated (mined, then un-mined) transaction carrying '
                                 'made-up signatures was admitted to the pool', dict(rp, kind='poolinv'))
                sn.deliver(0, M.DataMessage(M.DATA_TRANSACTION, T))
                if T not in cm.transaction_pool and not any(spec.sha256d(t.serialize()) == spec.sha256d(T.serialize()) for t in cm.transaction_pool):
                    if not any(nodeharness.tx_conflict(T, t) for t in cm.transaction_pool):
                        ck.violation('valid-tx-refused', 'the genuine transaction, valid again at the head after the fork switch, is '
                                     'refused', dict(rp, kind='poolinv'))


def scripted_rollback(ck, tier):
    """(a) a block taken unvalidated from a bulk download is the head; a transaction spending one of ITS outputs is admitted;
    a relayed block that breaks a rule makes the node fall back to its last validated state: the transaction is evicted with
    the block it depended on.  (b) refusing an invalid transaction does not depend on the debugging dump succeeding: with the
    disk full (OSError from the dump) invalid transactions are still refused"""
    import mutators
    from skepticoin.networking import messages as M
    rng = ck.rng
    keys = chaingen.Keys()
    for trial in range(2 if tier == 'quick' else 8):
        with chaingen.Env(period=50) as env:
            tg = chaingen.TreeGen(env, keys, rng)
            n = tg.genesis
            for _ in range(3):
                n = tg.extend(n, txs=[], fees=0, dt=100)
            main = list(tg.nodes)
            with simnet.Net(seed=rng.getrandbits(30), t0=n.view.time + 5000) as net:
                sn = nodeharness.SingleNode(net, chaingen.impl_state_from(main), [m.block for m in main[1:]], npeers=2)
                sn.new_messages()
                cm = sn.lp().chain_manager
                x = tg.extend(n, txs=[], fees=0, dt=100, miner=keys.pks[0])
                sn.deliver(0, M.DataMessage(M.DATA_BLOCK, x.block), irt=61)            # reply during a bulk download
                cbx = x.view.txs[0]
                t = chaingen.signed_tx(keys, x.utxo, [(cbx.id, 0)], [(cbx.outputs[0][0], keys.pks[1])])
                sn.deliver(1, M.DataMessage(M.DATA_TRANSACTION, t))
                admitted = t in cm.transaction_pool
                bad = [c for c in mutators.mutants(tg, x, rng, tags=('C02',)) if c['label'] == 'reward-plus-one']
                if not admitted or not bad or bytes(cm.coinstate.current_chain_hash) != x.id:
                    ck.count('scripted-rollback-skipped')
                    continue
                net.clock.t = max(net.clock.t, bad[0]['now'])
                sn.deliver(1, M.DataMessage(M.DATA_BLOCK, bad[0]['block']))
                hd = bytes(cm.coinstate.current_chain_hash)
                ck.case(('scripted-rollback', trial), kind='rollback-evicts-dependent-transaction')
                hd_node = [m for m in tg.nodes if m.id == hd]
                if hd_node:
                    for p_ in list(cm.transaction_pool):
                        tvv = spec.TxView(p_)
                        if not (spec_tx_by_itself(tvv) and spec_tx_in_state(tvv, hd_node[0].utxo)):
                            ck.violation('pooled-tx-invalid-at-head', 'after the node fell back to its last validated state (a relayed '
                                         'block broke a rule while an unvalidated bulk-download block was the head), a pending '
                                         'transaction that spends an output of the dropped block is still pending',
                                         {'scripted': 'bulk-download head | dependent tx | rule-breaking relayed block', 'trial': trial, 'kind': 'poolinv'})
                            break
                # (b) the debugging dump fails while invalid transactions are being refused
                di = sn.lp().disk_interface
                orig_dump = di.save_transaction_for_debugging

                def failing_dump(transaction):
                    raise OSError(28, 'No space left on device')
                di.save_transaction_for_debugging = failing_dump
                try:
                    hd_n = hd_node[0] if hd_node else n
                    av = sorted(tg.spendable(hd_n))
                    if av:
                        wrong = [pk for pk in keys.pks if pk != av[0][1][1]][0]
                        invalid = [chaingen.signed_tx(keys, hd_n.utxo, [av[0][0]], [(av[0][1][0], keys.pks[1])], sign_with={av[0][0]: wrong}),
                                   chaingen.signed_tx(keys, {(b'\x07' * 32, 0): (5, keys.pks[0])}, [(b'\x07' * 32, 0)], [(5, keys.pks[1])])]
                        for it_ in invalid:
                            alive = [i for i in range(len(sn.peers)) if sn.connected(i)]
                            if not alive:
                                break
                            sn.deliver(alive[0], M.DataMessage(M.DATA_TRANSACTION, it_))
                            ck.case(('dump-fails', trial, spec.sha256d(it_.serialize())), kind='invalid-tx-while-debug-dump-fails')
                            if any(spec.sha256d(p_.serialize()) == spec.sha256d(it_.serialize()) for p_ in cm.transaction_pool):
                                ck.violation('invalid-tx-admitted', 'an invalid transaction was admitted to the pool because dumping it for '
                                             'debugging failed (no space left on device)', {'scripted': 'debug dump fails', 'trial': trial, 'kind': 'poolinv'})
                                break
                finally:
                    di.save_transaction_for_debugging = orig_dump


def run(tier, seed):
    ck = common.Check('C13', tier, seed)
    ck.rule = ('one real node (ChainManager, handlers, real store) with scripted peers; random interleavings of transaction '
               'submissions (valid, two-input, conflicting with a pending one, duplicate, no outputs, zero value, bad '
               'signature, unknown input, already spent input, overspend; through a peer or directly) with head changes '
               '(extension mining some pending transactions, competing spend of a pending input, side-branch blocks and '
               'fork switches); after EVERY event the pool is checked against independent validity at the head and the '
               'whole run against the extracted node model; non-trivial = distinct (scenario, step)')
    ck.trusted += ['extraction + OCaml driver', 'simnet (fake sockets/selector/clock)', 'chain generator',
                   "validators' verdicts computed by calling the real validators outside the handlers (NodeModel inputs)"]
    ck.assumptions += ['the model is sequential; the lock is exercised by three two-thread probes (admission held after each validation step while another thread installs a conflicting head), not modelled']
    r = ck.build(extract=True)
    reqs = []
    obs = []
    ntr = 10 if tier == 'quick' else 60
    for trial in range(ntr):
        with chaingen.Env(period=50) as env:
            try:
                req, observed = Scenario(ck, tier, trial).run(env, 26 if tier == 'quick' else 40)
            except Exception as e:
                import traceback
                tb = traceback.format_exc()
                if 'could not mine a block' in tb:
                    ck.count('generator-gave-up(difficulty)')
                    continue
                ck.disagree('scenario %d crashed: %s' % (trial, tb[-400:]), {'trial': trial})
                continue
            reqs.append(req)
            obs.append(observed)
    try:
        scripted_rollback(ck, tier)
    except Exception:
        import traceback
        tb = traceback.format_exc()
        if 'could not mine a block' not in tb:
            ck.disagree('scripted rollback scenario crashed: %s' % tb[-500:], {})
    try:
        scripted_reorg(ck, tier)
    except Exception:
        import traceback
        tb = traceback.format_exc()
        if 'could not mine a block' not in tb:
            ck.disagree('scripted reorg scenario crashed: %s' % tb[-500:], {})
    try:
        thread_probes(ck, tier)
    except Exception:
        import traceback
        ck.disagree('thread probe crashed: %s' % traceback.format_exc()[-500:], {})
    if r.ok and reqs:
        outs = model.run_batch(reqs)
        for k, (o, observed) in enumerate(zip(outs, obs)):
            if len(o) != len(observed):
                ck.disagree('node model produced %d steps for %d events (scenario %d)' % (len(o), len(observed), k), {'trial': k})
                continue
            for j, (mstep, ob) in enumerate(zip(o, observed)):
                st = mstep[1]
                mobs = [sorted(st[0]), st[1], st[2], st[3], sorted(st[4])]
                if mobs != ob:
                    which = [n for n, a, b in zip(['blocks', 'head', 'pool', 'buffer', 'rows'], mobs, ob) if a != b]
                    ck.disagree('ChainManager/handlers vs NodeModel: scenario %d step %d differs in %s' % (k, j, which),
                                {'trial': k, 'step': j, 'model': repr(mobs)[:300], 'impl': repr(ob)[:300]})
                    break
        ck.extra['traces_validated_against_impl'] = sum(len(x) for x in obs)
    return ck.finish()


def replay(path):
    d = json.load(open(path))
    print(json.dumps(d, indent=1)[:3000])
    print('re-run with: VERIF_SEED=%d ./check C13 --tier %s  (scenario %s is regenerated from the seed)'
          % (d.get('seed', 0), d.get('tier', 'quick'), d.get('replay', {}).get('trial')))
    return 1
