"""C08 -- persistence fidelity: the block store returns what was written.
Theorems: props/Properties_C08.v (round trip when no two written blocks share a transaction id; refutation for shared
transactions = the recorded finding).  Tie: the real BlockStore on a scratch SQLite file (write, buffer, flush, reopen,
read, read_chain_from_disk) against the extracted Store model.  Search oracle: written blocks vs blocks read back."""
import contextlib
import io
import itertools
import json
import os

import chaingen
import common
import model
import spec


def batchings(items, rng, limit):
    """ways of cutting a list into consecutive non-empty batches (all of them for short lists)"""
    n = len(items)
    out = []
    if n <= 7:
        for cuts in itertools.product([0, 1], repeat=n - 1):
            b, cur = [], [items[0]]
            for c, it in zip(cuts, items[1:]):
                if c:
                    b.append(cur)
                    cur = [it]
                else:
                    cur.append(it)
            b.append(cur)
            out.append(b)
        if len(out) > limit:
            out = rng.sample(out, limit)
    else:
        for _ in range(limit):
            b, cur = [], [items[0]]
            for it in items[1:]:
                if rng.random() < 0.4:
                    b.append(cur)
                    cur = [it]
                else:
                    cur.append(it)
            b.append(cur)
            out.append(b)
    return out


def thread_probe(ck, tier, rng, keys, scratch):
    from skepticoin import blockstore
    import threading
    # ---- a block buffered by the miner thread while the network thread is flushing must not be lost
    import threading
    for probe in range(2 if tier == 'quick' else 6):
        with chaingen.Env(period=50) as env:
            tg = chaingen.TreeGen(env, keys, rng)
            tg.grow(3, fork_p=0.0)
            a, b, c = tg.nodes[1:4]
            path = os.path.join(scratch, 'c08-thr-%d.db' % probe)
            with contextlib.redirect_stdout(io.StringIO()):
                st = blockstore.BlockStore(path)
            in_write, b_done = threading.Event(), threading.Event()
            orig = st.write_blocks_to_disk

            def slow_write(blocks, _o=orig):
                blocks = list(blocks)
                in_write.set()
                b_done.wait(0.4)          # give the other thread the chance to get in (it must not, or must not be lost)
                return _o(blocks)
            st.write_blocks_to_disk = slow_write
            st.add_block_to_buffer(a.block)
            st.add_block_to_buffer(b.block)

            def other():
                in_write.wait(2)
                st.add_block_to_buffer(c.block)
                b_done.set()
            raised = []

            def flusher():
                # the node opens the store in its main thread and flushes from the network thread
                try:
                    st.flush_blocks_to_disk()
                except Exception as e:  # noqa
                    raised.append(e)
            t1 = threading.Thread(target=flusher)
            t2 = threading.Thread(target=other)
            t1.start(); t2.start(); t1.join(5); t2.join(5)
            st.write_blocks_to_disk = orig
            if raised:
                ck.violation('flush-from-network-thread-raises', 'a flush issued from another thread than the one that opened the '
                             'store (as the node does: opened by the main thread, flushed by the network thread) raises %s: %s'
                             % (type(raised[0]).__name__, str(raised[0])[:200]),
                             {'probe': probe, 'schedule': 'open in main thread | flush(A,B) in a second thread'})
            try:
                st.flush_blocks_to_disk()
                rows = set(bytes(x[0]) for x in st.connection.execute('select block_hash from chain'))
            except Exception as e:
                rows = set()
                ck.violation('flush-after-concurrent-add-raises', 'flush after a concurrent add raised %s' % type(e).__name__, {'probe': probe})
            st.close()
            os.unlink(path)
            ck.case(('thread', probe), kind='concurrent-add-during-flush')
            if not {a.id, b.id, c.id} <= rows:
                ck.violation('block-buffered-during-flush-lost', 'a block added to the write buffer by another thread while a '
                             'flush was writing is never written (%d of 3 blocks stored)' % len({a.id, b.id, c.id} & rows),
                             {'probe': probe, 'schedule': 'flush(A,B) writing | add_block_to_buffer(C) | flush'})


def run(tier, seed):
    ck = common.Check('C08', tier, seed)
    ck.rule = ('block trees with multi-input/multi-output transactions and forks; shapes: no shared transactions, the same '
               'pending transaction mined on two forks, sibling blocks with the identical reward transaction; arrival order '
               'parent-first; EVERY batching of the writes into flushes for trees of <= 7 blocks (seeded sample beyond), via '
               'write_blocks_to_disk and via add_block_to_buffer+flush, the file re-opened after each flush and read back; '
               'blocks compared byte for byte, order checked, the chain state rebuilt by read_chain_from_disk compared with '
               'the in-memory one; whole runs compared with the extracted Store model; non-trivial = distinct (tree, batching)')
    ck.trusted += ['extraction + OCaml driver', 'chain generator', 'SQLite and the sqlite3 module (the model abstracts the four '
                   'INSERT OR IGNORE statements, the foreign keys and the three SELECTs of blockstore.py)']
    ck.assumptions += ['blocks are written parents-first (accepted blocks always are)']
    r = ck.build(extract=True)
    from skepticoin import blockstore
    from skepticoin.scripts import utils as SU
    rng = ck.rng
    keys = chaingen.Keys()
    reqs, wants = [], []
    ntrees = 6 if tier == 'quick' else 40
    scratch = os.getcwd()
    for trial in range(ntrees):
        shape = ['plain', 'plain', 'shared-tx', 'identical-reward'][trial % 4]
        with chaingen.Env(period=50) as env:
            tg = chaingen.TreeGen(env, keys, rng)
            tg.grow(rng.choice([3, 4, 5]), fork_p=0.3)
            tip = max(tg.nodes, key=lambda x: x.height)
            if shape == 'shared-tx':
                txs, fees = [], 0
                av = sorted(tg.spendable(tip))
                if av:
                    t = chaingen.signed_tx(keys, tip.utxo, [av[0][0]], [(av[0][1][0], keys.pks[2])])
                    tg.extend(tip, txs=[t], fees=0, dt=10)
                    tg.extend(tip, txs=[t], fees=0, dt=11)       # the same pending transaction on a competing fork
                else:
                    shape = 'plain'
            elif shape == 'identical-reward':
                cb = chaingen.coinbase(tip.height + 1, env.subsidy(tip.height + 1), keys.pks[0], b'same')
                for dt in (10, 11):
                    blk = chaingen.assemble(env, tip, [cb], tip.view.time + dt)
                    tg.nodes.append(chaingen.Node(blk, tip, spec.apply_block(tip.utxo, spec.BlockView(blk))))
            else:
                tg.grow(2, fork_p=0.5)
                # unusual but valid reward transactions: no outputs at all; a zero-valued output
                t1 = tg.extend(max(tg.nodes, key=lambda x: x.height), txs=[], fees=0, strip_reward=True)
                tg.extend(t1, txs=[], fees=0, zero_outputs=[keys.pks[3]])
            nodes = tg.nodes[1:]          # genesis is written by the store itself
            all_tx = {}
            shared = False
            for nd in tg.nodes:
                for t in nd.view.txs:
                    if t.id in all_tx and all_tx[t.id] != nd.id:
                        shared = True
                    all_tx[t.id] = nd.id
            idm = {}

            def im(x):
                if x not in idm:
                    idm[x] = len(idm) + 1
                return idm[x]
            for bi, batches in enumerate(batchings(nodes, rng, 10 if tier == 'quick' else 40)):
                via_buffer = (bi % 2 == 1)
                path = os.path.join(scratch, 'c08-%d-%d.db' % (trial, bi))
                ops = []
                ok = True
                with contextlib.redirect_stdout(io.StringIO()):
                    st = blockstore.BlockStore(path)
                    ops.append([0, [[im(tg.nodes[0].id), 0, 0, [im(t.id) for t in tg.nodes[0].view.txs]]]])
                    try:
                        for batch in batches:
                            blocks = [nd.block for nd in batch]
                            mb = [[im(nd.id), im(nd.view.prev), nd.height, [im(t.id) for t in nd.view.txs]] for nd in batch]
                            if via_buffer:
                                for b, m in zip(blocks, mb):
                                    st.add_block_to_buffer(b)
                                    ops.append([1, m])
                                st.flush_blocks_to_disk()
                                ops.append([2])
                            else:
                                st.write_blocks_to_disk(blocks)
                                ops.append([0, mb])
                            st.close()
                            st = blockstore.BlockStore(path)         # reload after each flush
                    except Exception as e:
                        ok = False
                        ck.violation('store-write-raises', 'writing parent-first accepted blocks raised %s: %s' % (type(e).__name__, e),
                                     {'trial': trial, 'shape': shape, 'batching': [len(b) for b in batches]})
                    try:
                        back = list(st.read_blocks_from_disk()) if ok else []
                    except Exception as e:
                        back = []
                        ok = False
                        ck.violation('store-read-raises', 'reading back a store of %d parent-first written valid blocks raised '
                                     '%s' % (len(tg.nodes), type(e).__name__),
                                     {'trial': trial, 'shape': shape, 'batching': [len(b) for b in batches],
                                      'blocks': [nd.block.serialize().hex() for nd in tg.nodes]})
                    ops.append([3])
                    # rebuilt chain state
                    old = blockstore.DefaultBlockStore.instance
                    blockstore.DefaultBlockStore.instance = st
                    try:
                        rebuilt = SU.read_chain_from_disk() if ok else None
                    finally:
                        blockstore.DefaultBlockStore.instance = old
                    st.close()
                os.unlink(path)
                if not ok:
                    continue
                written = {nd.id: nd for nd in tg.nodes}
                got = [(spec.sha256d(b.header.serialize()), b.serialize(), bytes(b.hash())) for b in back]
                ck.case((trial, bi), kind='%s/%s' % (shape, 'buffer' if via_buffer else 'direct'),
                        sample={'blocks': len(tg.nodes), 'shape': shape, 'batching': [len(b) for b in batches],
                                'read_back': len(got)} if len(ck.samples) < 4 else None)
                rp = {'trial': trial, 'shape': shape, 'batching': [len(b) for b in batches], 'via_buffer': via_buffer,
                      'blocks': [nd.block.serialize().hex() for nd in tg.nodes]}
                problems = []
                ids_back = [g[0] for g in got]
                if sorted(ids_back) != sorted(written):
                    problems.append('%d of %d blocks are returned' % (len(set(ids_back) & set(written)), len(written)))
                for hid, raw, cached in got:
                    if hid in written and raw != written[hid].view.bytes:
                        problems.append('a block reads back with different content (%d vs %d bytes)'
                                        % (len(raw), len(written[hid].view.bytes)))
                        break
                    if cached != hid:
                        problems.append('a block reads back under a different id')
                pos = {hid: i for i, hid in enumerate(ids_back)}
                for hid in ids_back:
                    p = written[hid].view.prev if hid in written else None
                    if p in pos and pos[p] > pos[hid]:
                        problems.append('a child is returned before its parent')
                        break
                if rebuilt is not None and not problems:
                    full = chaingen.impl_state_from(tg.nodes)
                    if chaingen.digest_state(rebuilt)[0] != chaingen.digest_state(full)[0] or \
                            rebuilt.head().height != full.head().height:
                        problems.append('the chain state rebuilt from the store differs from the one that was written')
                if problems:
                    sig = 'shared-transaction-between-stored-blocks' if shared else 'store-does-not-return-what-was-written'
                    ck.violation(sig, ('blocks that share a transaction id: ' if shared else '') + '; '.join(problems), rp)
                reqs.append(('store_run', [], ops))
                wants.append((sorted([im(hid), sorted(im(t.id) for t in spec.BlockView(b).txs)] for (hid, _, _), b in zip(got, back)), rp))
    # ---- a large store: ~1,300 blocks with two or three blocks at EVERY height, so that any paging of the reads by height,
    #      row count or rowid meets equal-height siblings at its page boundaries
    for probe in range(1 if tier == 'quick' else 3):
        with chaingen.Env(period=5000) as env:
            tg = chaingen.TreeGen(env, keys, rng)
            n = tg.genesis
            H = 1300 if tier == 'quick' else rng.choice([1300, 2400, 4700])
            for h in range(1, H + 1):
                par = n
                n = tg.extend(par, txs=[], fees=0, dt=60)
                tg.extend(par, txs=[], fees=0, dt=61)
                if h % 7 == probe:
                    tg.extend(par, txs=[], fees=0, dt=62)
            path = os.path.join(scratch, 'c08-large-%d.db' % probe)
            back = []
            try:
                with contextlib.redirect_stdout(io.StringIO()):
                    st = blockstore.BlockStore(path)
                    nodes = tg.nodes[1:]
                    late = nodes[-1]
                    nodes = nodes[:-1]
                    # the whole bulk (2,600+ blocks) sits in the write buffer and goes out in ONE flush, as after a long download
                    for nd in nodes:
                        st.add_block_to_buffer(nd.block)
                    st.flush_blocks_to_disk()
                    st.close()
                    st = blockstore.BlockStore(path)
                    # a reload is in progress (the reader has handed out a few blocks) when one more block is flushed through the
                    # same store object: the reload still returns everything that was stored when it began
                    it = st.read_blocks_from_disk()
                    back = [next(it) for _ in range(5)]
                    st.add_block_to_buffer(late.block)
                    st.flush_blocks_to_disk()
                    back += list(it)
                    if late.id not in set(spec.sha256d(b.header.serialize()) for b in back):
                        back += [b for b in st.read_blocks_from_disk() if spec.sha256d(b.header.serialize()) == late.id]
                    st.close()
            except Exception as e:
                ck.violation('store-does-not-return-what-was-written', 'writing %d buffered blocks in one flush and reading them back '
                             'raised %s: %s' % (len(tg.nodes) - 1, type(e).__name__, str(e)[:120]),
                             {'large': True, 'heights': H, 'probe': probe, 'seed': seed})
                try:
                    st.close()
                except Exception:
                    pass
            os.unlink(path)
            want_ids = sorted(nd.id for nd in tg.nodes)
            got_ids = sorted(spec.sha256d(b.header.serialize()) for b in back)
            ck.case(('large', probe), kind='large-store', sample={'blocks_written': len(tg.nodes), 'read_back': len(back), 'heights': H})
            if want_ids != got_ids:
                missing = [nd for nd in tg.nodes if nd.id not in set(got_ids)]
                ck.violation('store-does-not-return-what-was-written',
                             'a store of %d blocks (2-3 blocks at every height up to %d) returns %d blocks; first missing block '
                             'is at height %s' % (len(tg.nodes), H, len(back), missing[0].height if missing else '?'),
                             {'large': True, 'heights': H, 'probe': probe, 'seed': seed})
            elif sorted(b.serialize() for b in back) != sorted(nd.view.bytes for nd in tg.nodes):
                ck.violation('store-does-not-return-what-was-written', 'a block of the large store reads back with different content',
                             {'large': True, 'heights': H, 'probe': probe, 'seed': seed})
            else:
                pos = {}
                for i, b in enumerate(back):
                    pos[spec.sha256d(b.header.serialize())] = i
                if any(nd.parent is not None and pos[nd.parent.id] > pos[nd.id] for nd in tg.nodes):
                    ck.violation('store-does-not-return-what-was-written', 'the large store returns a child before its parent',
                                 {'large': True, 'heights': H, 'probe': probe, 'seed': seed})
    thread_probe(ck, tier, rng, keys, scratch)
    # ---- the store behind a node: bulk-download replies waiting in the write buffer, a rejected block, re-deliveries
    try:
        import check_C09
        for tr_ in ((1, 3) if tier == 'quick' else (1, 3, 5, 7, 9, 11)):
            check_C09.scenario(ck, tr_, tier)
        for tr_ in range(4):
            check_C09.rollback_scenario(ck, tr_, tier)
    except Exception:
        import traceback
        tb = traceback.format_exc()
        if 'could not mine a block' not in tb:
            ck.disagree('node-level store scenario crashed: %s' % tb[-1800:], {})
    if r.ok:
        outs = model.run_batch(reqs)
        for (want, rp), o in zip(wants, outs):
            last = o[-1]
            got = sorted([b[0], sorted(b[3])] for b in last[0])
            if got != want or any(x == 0 for x in o[:-1] if isinstance(x, int)):
                ck.disagree('BlockStore vs Store model (blocks read back)', dict({k: v for k, v in rp.items() if k != 'blocks'},
                                                                                model=repr(got)[:300], impl=repr(want)[:300]))
        ck.extra['traces_validated_against_impl'] = len(reqs)
    return ck.finish()


def replay(path):
    d = json.load(open(path))
    rp = d.get('replay', {})
    if 'blocks' in rp:
        from skepticoin import blockstore
        from skepticoin.datatypes import Block
        with contextlib.redirect_stdout(io.StringIO()):
            st = blockstore.BlockStore(os.path.join(os.getcwd(), 'replay.db'))
            blocks = [Block.deserialize(bytes.fromhex(h)) for h in rp['blocks']]
            st.write_blocks_to_disk(blocks[1:])
            back = list(st.read_blocks_from_disk())
        w = sorted(b.serialize() for b in blocks)
        g = sorted(b.serialize() for b in back)
        print('written', len(w), 'read back', len(g), 'identical', w == g)
        return 0 if w == g else 1
    print(json.dumps(d, indent=1)[:2000])
    return 1
