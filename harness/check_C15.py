"""C15 -- wallet keys: faithful file, no key handed out twice, atomic save.
Theorems: props/Properties_C15.v.  Tie: real Wallet operations against the extracted model; save_wallet traced through
proxies for `open` and `os` installed in the skepticoin.wallet namespace, with the ON-DISK state of wallet.json captured
at every write/close/rename boundary (a process crash loses unflushed buffers).  Search oracle: the property's clauses."""
import contextlib
import io
import json
import os

import chaingen
import common
import model
import spec


class FileProxy:
    def __init__(self, tracer, name, mode, real):
        self.t, self.name, self.mode, self.real = tracer, name, mode, real

    def write(self, data):
        r = self.real.write(data)
        self.t.boundary(('write', self.name, len(data)))
        return r

    def flush(self):
        self.real.flush()
        self.t.boundary(('flush', self.name))

    def close(self):
        self.real.close()
        self.t.boundary(('close', self.name))

    def __enter__(self):
        return self

    def __exit__(self, *a):
        self.close()
        return False

    def read(self, *a):
        return self.real.read(*a)


class Tracer:
    """records ('op', ...) and the on-disk content of the watched file after every operation"""

    def __init__(self, watch):
        self.watch = watch
        self.states = []

    def disk(self):
        try:
            with open(self.watch, 'rb') as f:
                return f.read()
        except FileNotFoundError:
            return None

    def boundary(self, op):
        self.states.append((op, self.disk()))

    def open(self, name, mode='r', *a, **k):
        real = open(name, mode, *a, **k)
        if 'w' in mode or 'a' in mode:
            self.boundary(('open', name, mode))
            return FileProxy(self, name, mode, real)
        return real


class OsProxy:
    def __init__(self, tracer):
        self._t = tracer

    def replace(self, src, dst):
        os.replace(src, dst)
        self._t.boundary(('replace', src, dst))

    def rename(self, src, dst):
        os.rename(src, dst)
        self._t.boundary(('rename', src, dst))

    def remove(self, p):
        os.remove(p)
        self._t.boundary(('remove', p))

    def __getattr__(self, n):
        return getattr(os, n)


_AUDIT = {'on': False, 'events': [], 'installed': False, 'kill': False, 'target': None, 'rename_sources': [], 'states': []}


class Killed(BaseException):
    """the process is killed at this point (raised from the audit hook: the audited operation does not happen)"""


def _audit_hook(event, args):
    if not _AUDIT['on']:
        return
    if event in ('open', 'os.rename', 'os.remove', 'os.truncate', 'shutil.move', 'shutil.copyfile', 'os.link', 'os.symlink'):
        try:
            _AUDIT['events'].append((event, tuple(a if isinstance(a, (str, bytes, int, type(None))) else repr(a) for a in args)))
        except Exception:
            pass
        tgt = _AUDIT.get('target')
        if tgt is not None:
            _AUDIT['on'] = False           # our own reads below are not part of the traced save
            try:
                # the on-disk content of the target right now = after everything that happened before this call
                try:
                    with open(tgt, 'rb') as f_:
                        _AUDIT['states'].append((event, f_.read()))
                except FileNotFoundError:
                    _AUDIT['states'].append((event, None))
                if event == 'os.rename' and isinstance(args[1], (str, bytes)) and os.path.abspath(os.fsdecode(args[1])) == os.path.abspath(tgt):
                    # switch-over: what the source holds ON DISK at this instant is what the target becomes
                    try:
                        with open(os.fsdecode(args[0]), 'rb') as f_:
                            _AUDIT['rename_sources'].append(f_.read())
                    except OSError:
                        _AUDIT['rename_sources'].append(None)
            finally:
                _AUDIT['on'] = True
        if _AUDIT['kill'] and event in ('os.rename', 'shutil.move'):
            raise Killed()


def audit_begin(target, kill=False):
    import sys
    if not _AUDIT['installed']:
        sys.addaudithook(_audit_hook)
        _AUDIT['installed'] = True
    _AUDIT.update(events=[], states=[], rename_sources=[], target=target, kill=kill, on=True)


def audit_end():
    _AUDIT['on'] = False
    _AUDIT['kill'] = False
    _AUDIT['target'] = None
    return list(_AUDIT['events']), list(_AUDIT['states']), list(_AUDIT['rename_sources'])


def in_place_writes(events, target):
    """file-system calls (whatever API issued them: builtin open, os.open, shutil, tempfile) that open `target` itself for
    writing / truncation, or copy onto it -- between such a call and the end of the write the file is neither wallet"""
    tgt = os.path.abspath(target)
    bad = []
    for ev, a in events:
        if ev == 'open' and isinstance(a[0], (str, bytes)):
            pth = os.path.abspath(os.fsdecode(a[0]))
            mode, flags = a[1], a[2] if len(a) > 2 else 0
            writing = (isinstance(mode, str) and any(c in mode for c in 'wax+')) or \
                      (isinstance(flags, int) and flags & (os.O_WRONLY | os.O_RDWR | os.O_TRUNC | os.O_APPEND))
            if pth == tgt and writing:
                bad.append('open(%s, %s)' % (os.path.basename(pth), mode if mode is not None else 'flags=%#x' % flags))
        if ev == 'shutil.copyfile' and os.path.abspath(os.fsdecode(a[1])) == tgt:
            bad.append('copyfile(.., %s)' % os.path.basename(tgt))
        if ev == 'os.truncate' and isinstance(a[0], (str, bytes)) and os.path.abspath(os.fsdecode(a[0])) == tgt:
            bad.append('truncate(%s)' % os.path.basename(tgt))
        if ev == 'os.remove' and isinstance(a[0], (str, bytes)) and os.path.abspath(os.fsdecode(a[0])) == tgt:
            bad.append('remove(%s)' % os.path.basename(tgt))
    return bad


def other_device_dir():
    """a writable directory on another file system than the working directory (a temp dir there makes every
    'write elsewhere, then move' strategy that is not a same-directory rename degrade to copy + delete)"""
    import tempfile
    here = os.stat(os.getcwd()).st_dev
    for d in ('/dev/shm', '/run/shm', '/var/tmp', '/run', os.path.expanduser('~'), '/tmp'):
        try:
            if os.path.isdir(d) and os.access(d, os.W_OK) and os.stat(d).st_dev != here:
                return tempfile.mkdtemp(prefix='skv-c15-', dir=d)
        except OSError:
            continue
    return None


def install_fs_tracer(mod, tracer, osproxy=None):
    """route the file-system calls of `mod` through the tracer, however the module imported them (`import os` or
    `from os import replace`); returns a function that restores the module"""
    proxy = osproxy or OsProxy(tracer)
    saved = []
    missing = object()

    def put(name, val):
        saved.append((name, mod.__dict__.get(name, missing)))
        setattr(mod, name, val)
    put('open', tracer.open)
    if 'os' in mod.__dict__:
        put('os', proxy)
    for name in ('replace', 'rename', 'remove'):
        if callable(mod.__dict__.get(name)):
            put(name, getattr(proxy, name))

    def restore():
        for name, val in reversed(saved):
            if val is missing:
                delattr(mod, name)
            else:
                setattr(mod, name, val)
    return restore


def wallet_state(w):
    return [list(w.keypairs.items()), list(w.unused_public_keys), sorted(w.public_key_annotations.items())]


def script_level(ck, tier):
    """the wallet as the command-line scripts use it: (a) `skepticoin-receive` shows an address only once it is safely
    recorded as handed out -- a run killed at its save shows nothing, and no two runs ever show the same address;
    (b) a wallet saved with a non-ASCII annotation is loaded back by the scripts' loader in a process whose locale is not
    UTF-8 (LC_ALL=C, UTF-8 mode off)"""
    import subprocess
    import sys
    from skepticoin.wallet import Wallet, save_wallet
    from skepticoin.scripts import receive as R
    for f in ('wallet.json', 'wallet.json.new'):
        if os.path.exists(f):
            os.unlink(f)
    w = Wallet.empty()
    w.generate_keys(6)
    save_wallet(w)
    shown = []
    argv = sys.argv
    try:
        for run_no, kill in enumerate((False, True, False, True, False)):
            sys.argv = ['skepticoin-receive', 'run %d' % run_no]
            buf = io.StringIO()
            audit_begin('wallet.json', kill=kill)
            try:
                with contextlib.redirect_stdout(buf):
                    try:
                        R.main()
                    except Killed:
                        pass
                    except SystemExit:
                        pass
            finally:
                audit_end()
            out = [ln.strip() for ln in buf.getvalue().splitlines() if ln.strip().startswith('SKE')]
            ck.case(('receive', run_no), kind='receive-script/%s' % ('killed-at-save' if kill else 'normal'))
            for a in out:
                if a in shown:
                    ck.violation('address-shown-twice', 'skepticoin-receive showed an address in run %d that an earlier run (killed '
                                 'at its save) had already shown' % run_no, {'script': 'receive', 'run': run_no, 'killed_runs': [1, 3]})
                shown.append(a)
    finally:
        sys.argv = argv
    # (b) non-UTF-8 locale
    for f in ('wallet.json', 'wallet.json.new'):
        if os.path.exists(f):
            os.unlink(f)
    code = (
        "import sys, os\n"
        "sys.path.insert(0, %r)\n"
        "from skepticoin.wallet import Wallet, save_wallet\n"
        "from skepticoin.scripts.utils import open_or_init_wallet\n"
        "w = Wallet.empty(); w.generate_keys(3)\n"
        "k = w.get_annotated_public_key('ch\\u00e4ng\\u00e9 \\u2713 \\u6f22')\n"
        "save_wallet(w)\n"
        "w2 = open_or_init_wallet()\n"
        "ok = (list(w2.keypairs.items()) == list(w.keypairs.items()) and w2.unused_public_keys == w.unused_public_keys and w2.public_key_annotations == w.public_key_annotations)\n"
        "print('ROUNDTRIP', ok)\n" % common.REPO)
    env = dict(os.environ, LC_ALL='C', LANG='C', PYTHONUTF8='0', PYTHONCOERCECLOCALE='0', PYTHONIOENCODING='ascii:backslashreplace')
    cp = subprocess.run([sys.executable, '-c', code], env=env, stdout=subprocess.PIPE, stderr=subprocess.STDOUT, text=True,
                        timeout=120, cwd=os.getcwd())
    ck.case(('locale',), kind='wallet-roundtrip-in-C-locale')
    if 'ROUNDTRIP True' not in cp.stdout:
        ck.violation('load-differs', 'in a process with LC_ALL=C (UTF-8 mode off) a wallet saved with a non-ASCII annotation is not '
                     'loaded back by the scripts\' loader: %s' % cp.stdout.strip().splitlines()[-1][:200],
                     {'locale': 'C', 'annotation': 'non-ASCII'})
    for f in ('wallet.json', 'wallet.json.new'):
        if os.path.exists(f):
            os.unlink(f)


def miner_script_level(ck, tier):
    """the mining script end to end (MinerWatcher.__call__ with its worker processes, queues and network thread replaced by
    in-process stand-ins): it reserves a key, finds a block that pays it, and then dies of a storage fault before it rotates
    the key; after that the wallet FILE must not list the paid key as unused (the next start would hand it out again).  Also:
    the wallet loader never replaces an existing wallet file because opening it failed once"""
    import sys
    import simnet
    import nodeharness
    from skepticoin import mining as MI
    from skepticoin import consensus as C
    from skepticoin.datatypes import Block, BlockHeader
    from skepticoin.wallet import Wallet, save_wallet
    from skepticoin.scripts import utils as SU
    rng = ck.rng
    keys = chaingen.Keys()
    # ---- (a) loader
    for f in ('wallet.json', 'wallet.json.new'):
        if os.path.exists(f):
            os.unlink(f)
    w0 = Wallet.empty()
    w0.generate_keys(4)
    w0.get_annotated_public_key('handed out')
    save_wallet(w0)
    before = open('wallet.json', 'rb').read()
    state = {'n': 0}
    real_open = open

    def flaky_open(path, mode='r', *a, **k):
        if os.path.basename(str(path)) == 'wallet.json' and 'r' in mode and 'w' not in mode and state['n'] == 0:
            state['n'] += 1
            raise OSError(24, 'Too many open files')
        return real_open(path, mode, *a, **k)
    SU.open = flaky_open
    try:
        with contextlib.redirect_stdout(io.StringIO()):
            try:
                SU.open_or_init_wallet()
            except OSError:
                pass
    finally:
        del SU.open
    ck.case(('loader-open-fails',), kind='wallet-loader/open-fails-once')
    if open('wallet.json', 'rb').read() != before:
        ck.violation('wallet-file-replaced-by-loader', 'opening the existing wallet file failed once (too many open files) and the '
                     'loader replaced it with a newly generated wallet: the earlier keys are gone', {'script': 'open_or_init_wallet'})
    # ---- (b) miner
    for f in ('wallet.json', 'wallet.json.new'):
        if os.path.exists(f):
            os.unlink(f)
    w1 = Wallet.empty()
    w1.generate_keys(4)
    save_wallet(w1)
    wallet_dir = os.getcwd()
    with chaingen.Env(period=50) as env:
        tg = chaingen.TreeGen(env, keys, rng)
        n = tg.genesis
        for _ in range(3):
            n = tg.extend(n, txs=[], fees=0, dt=100)
        main = list(tg.nodes)
        with simnet.Net(seed=rng.getrandbits(30), t0=n.view.time + 50) as net:
            sn = nodeharness.SingleNode(net, chaingen.impl_state_from(main), [m.block for m in main[1:]], npeers=1)
            node_dir = os.getcwd()

            class FakeQ:
                def __init__(self):
                    self.items = []

                def put(self, x):
                    self.items.append(x)

            class FakeProc:
                def __init__(self, *a, **k):
                    pass

                def start(self):
                    pass

                def join(self):
                    pass

            class Th:
                local_peer = sn.lp()

                def stop(self):
                    pass

                def join(self):
                    pass
            paid = {}

            class Script:
                """what the worker would send: work requests and hash results, until a nonce wins; then the disk is full"""
                def __init__(self):
                    self.nonce = 0
                    self.pending = None
                    self.done = False

                def get(self):
                    if self.done:
                        raise KeyboardInterrupt()
                    if self.pending is not None:
                        item, self.pending = self.pending, None
                        return item
                    if self.nonce > 0:
                        typ, (summary, height) = mw.send_queues[0].items[-1]
                        txs = mw.mining_args[0][-1]
                        sh = C.construct_summary_hash(summary, height)
                        ev = C.construct_pow_evidence_after_scrypt(sh, mw.coinstate, summary, height, txs)
                        cand = Block(BlockHeader(summary, ev), txs)
                        if cand.hash() < cand.target:
                            paid['pk'] = bytes(mw.public_key)
                            paid['id'] = cand.hash()
                            self.done = True
                            di = sn.lp().disk_interface

                            def full_disk():
                                raise OSError(28, 'No space left on device')
                            di.flush_blocks = full_disk
                            return (0, 'scrypt_output', sh)
                        self.pending = (0, 'scrypt_output', sh)
                    self.nonce += 1
                    if self.pending is not None:
                        item, self.pending = self.pending, (0, 'request_scrypt_input', self.nonce)
                        return item
                    return (0, 'request_scrypt_input', self.nonce)
            argv = sys.argv
            sys.argv = ['skepticoin-mine', '--quiet']
            saved = {}
            try:
                mw = MI.MinerWatcher()
                mw.recv_queue = Script()

                def load_wallet():
                    cwd = os.getcwd()
                    os.chdir(wallet_dir)
                    try:
                        return SU.open_or_init_wallet()
                    finally:
                        os.chdir(cwd)

                def save_in_wallet_dir(w_):
                    cwd = os.getcwd()
                    os.chdir(wallet_dir)
                    try:
                        return save_wallet(w_)
                    finally:
                        os.chdir(cwd)
                for name, val in (('check_chain_dir', lambda: None), ('read_chain_from_disk', lambda: sn.lp().chain_manager.coinstate),
                                  ('open_or_init_wallet', load_wallet), ('start_networking_peer_in_background', lambda a_, c_: Th()),
                                  ('wait_for_fresh_chain', lambda *a_, **k_: None), ('Process', FakeProc), ('Queue', FakeQ),
                                  ('save_wallet', save_in_wallet_dir), ('time', net.clock)):
                    if name in MI.__dict__:
                        saved[name] = MI.__dict__[name]
                        setattr(MI, name, val)
                net.clock.t = max(net.clock.t, n.view.time + 1)
                sn.node.activate()
                with contextlib.redirect_stdout(io.StringIO()):
                    try:
                        mw()
                    except (KeyboardInterrupt, SystemExit):
                        pass
            finally:
                sys.argv = argv
                for name, val in saved.items():
                    setattr(MI, name, val)
            os.chdir(wallet_dir)
            ck.case(('miner-script',), kind='miner-script/dies-after-found-block', sample={'found': 'id' in paid})
            if 'pk' in paid and paid['id'] in sn.lp().chain_manager.coinstate.block_by_hash:
                with open('wallet.json') as f_:
                    wf = Wallet.load(f_)
                if paid['pk'] in wf.unused_public_keys:
                    ck.violation('paid-key-unused-in-wallet-file', 'the mining script found a block paying its reserved key, then died of a '
                                 'storage fault before rotating the key; the wallet FILE now lists that key as unused: the next start '
                                 'hands it out again', {'script': 'mine', 'fault': 'flush_blocks raises ENOSPC after the found block was adopted'})
            os.chdir(node_dir)
    os.chdir(wallet_dir)
    for f in ('wallet.json', 'wallet.json.new'):
        if os.path.exists(f):
            os.unlink(f)


def run(tier, seed):
    ck = common.Check('C15', tier, seed)
    ck.rule = ('wallets of 0-6 key pairs; random sequences (6-20 ops) of hand-outs (receive / mining reservations), restores of '
               'handed-out keys, key generation, save and load; the handed-out keys are logged and compared with the extracted '
               'model and with the no-reuse clause; dump/load compared field by field (incl. non-ASCII annotations); balance '
               'against the unspent outputs paying annotated AND unused keys; every save traced: the on-disk content of '
               'wallet.json after every open/write/close/rename step must be the complete old or the complete new wallet '
               '(exhaustive over crash points); non-trivial = distinct (wallet, op sequence / crash point)')
    ck.trusted += ['extraction + OCaml driver', 'tracing proxies for open/os in the skepticoin.wallet namespace', 'CPython audit events (open, os.rename, shutil.*) for file-system calls made through any other API',
                   'json module (dump/load of the wallet file is compared, not modelled)']
    ck.assumptions += ['process-crash semantics: unflushed buffers are lost, completed rename is atomic (OS guarantee)']
    r = ck.build(extract=True)
    from skepticoin import wallet as W
    from skepticoin.wallet import Wallet
    rng = ck.rng
    reqs, wants = [], []
    import sys
    import tempfile
    if not _AUDIT['installed']:
        sys.addaudithook(_audit_hook)
        _AUDIT['installed'] = True
    xdev = other_device_dir()
    ck.extra['temp_dir_on_other_filesystem'] = bool(xdev)
    with chaingen.Env(period=50) as env0:
        kk = chaingen.Keys()
        tg0 = chaingen.TreeGen(env0, kk, rng)
        tg0.extend(tg0.genesis, txs=[], fees=0)
        cs_bal = chaingen.impl_state_from(tg0.nodes)
    nseq = 25 if tier == 'quick' else 1200
    for trial in range(nseq):
        nkeys = rng.choice([0, 1, 2, 2, 3, 6])
        w = Wallet.empty()
        w.generate_keys(nkeys)
        idm = {}

        def im(x):
            if x not in idm:
                idm[x] = len(idm) + 1
            return idm[x]
        for k in w.keypairs:
            im(k)
        init = [[im(k) for k in w.keypairs], [im(k) for k in w.unused_public_keys], []]
        ops, want = [], []
        out_keys = []          # (key, was wallet exhausted at hand-out time)
        outstanding = []
        holders = {}
        via_fallback = set()
        for step in range(rng.randrange(6, 20 if tier == 'thorough' else 14)):
            r_ = rng.random()
            if r_ < 0.45:
                exhausted = len(w.unused_public_keys) == 0
                if exhausted and not w.keypairs:
                    continue
                ann = rng.choice(['reserved for potentially mined block', 'receive', 'chängé ✓'])
                # deterministic fallback choice: patch random.choice in the wallet namespace
                choice = rng.randrange(max(1, len(w.keypairs)))
                oldrandom = W.random

                class R:
                    def __init__(self, c):
                        self.c = c

                    def choice(self, seq):
                        return list(seq)[self.c]
                W.random = R(choice)
                try:
                    with contextlib.redirect_stdout(io.StringIO()):
                        k = w.get_annotated_public_key(ann)
                finally:
                    W.random = oldrandom
                ops.append([0, im(ann), choice])
                want.append(im(k))
                rp = {'trial': trial, 'step': step}
                if not exhausted and holders.get(k, 0) > 0:
                    if k in via_fallback:
                        ck.violation('exhausted-restore-republishes-key', 'after the exhausted-wallet fallback returned an '
                                     'already published key and that hand-out was restored, the key is listed as unused and '
                                     'handed out again while its earlier recipient still uses it', rp)
                    else:
                        ck.violation('key-handed-out-twice', 'a key handed out earlier (and not restored) is handed out again '
                                     'while unused keys remain', rp)
                if exhausted:
                    via_fallback.add(k)
                holders[k] = holders.get(k, 0) + 1
                out_keys.append((k, exhausted))
                ck.case((trial, step), kind='hand-out/%s' % ('exhausted' if exhausted else 'fresh'),
                        sample={'keys': len(w.keypairs), 'unused_before': len(w.unused_public_keys) + (0 if exhausted else 1),
                                'exhausted': exhausted} if len(ck.samples) < 3 else None)
            elif r_ < 0.52:
                # ---- a balance query is an observation: keys, unused list and annotations stay what they are
                st0 = wallet_state(w)
                try:
                    w.get_balance(cs_bal)
                except Exception as e:
                    ck.violation('balance-raises', 'get_balance raised %r' % (e,), {'trial': trial, 'step': step})
                ck.case((trial, step), kind='balance-query')
                if wallet_state(w) != st0:
                    ck.violation('balance-query-changes-wallet', 'a balance query changed the wallet (unused keys %d -> %d)'
                                 % (len(st0[1]), len(w.unused_public_keys)), {'trial': trial, 'step': step})
            elif r_ < 0.64 and [k for k, c in holders.items() if c > 0 and k in w.public_key_annotations]:
                k = rng.choice([k for k, c in holders.items() if c > 0 and k in w.public_key_annotations])
                w.restore_annotated_public_key(k, 'x')
                holders[k] -= 1
                ops.append([1, im(k)])
                want.append(None)
                ck.case((trial, step), kind='restore')
            elif r_ < 0.68 and w.keypairs:
                # a restore whose precondition does not hold (key not handed out at the moment: restored twice, or never
                # handed out): refused, the wallet stays what it is
                cands = [k for k in w.keypairs if k not in w.public_key_annotations]
                if not cands:
                    continue
                k = rng.choice(cands)
                st0 = wallet_state(w)
                try:
                    w.restore_annotated_public_key(k, 'x')
                except Exception:
                    pass
                ops.append([1, im(k)])
                want.append(None)
                ck.case((trial, step), kind='restore-not-handed-out')
                if wallet_state(w) != st0:
                    ck.violation('invalid-restore-changes-wallet', 'restoring a key that is not handed out changed the wallet '
                                 '(unused keys %d -> %d)' % (len(st0[1]), len(w.unused_public_keys)), {'trial': trial, 'step': step})
            elif r_ < 0.76:
                w.generate_key()
                k = list(w.keypairs)[-1]
                ops.append([2, im(k)])
                want.append(None)
                ck.case((trial, step), kind='generate')
            else:
                # ---- save (traced) and load
                old_disk = None
                if os.path.exists('wallet.json'):
                    old_disk = open('wallet.json', 'rb').read()
                if step % 3 == 0 and w.public_key_annotations:
                    # an earlier save of a LONGER wallet was killed after its side file was written, at the switch-over
                    # (the rename / move does not happen): whatever it left behind must not leak into this save
                    k_long = next(iter(w.public_key_annotations))
                    keep_ann = w.public_key_annotations[k_long]
                    w.public_key_annotations[k_long] = 'long annotation ' * 60
                    audit_begin('wallet.json', kill=True)
                    try:
                        try:
                            W.save_wallet(w)
                        except Killed:
                            ck.count('save/killed-before-switch-over')
                    finally:
                        audit_end()
                        w.public_key_annotations[k_long] = keep_ann
                tr = Tracer('wallet.json')
                _restore_fs = install_fs_tracer(W, tr)
                old_tmp = tempfile.tempdir
                use_xdev = bool(xdev) and step % 2 == 0
                if use_xdev:
                    tempfile.tempdir = xdev          # system temp directory on another file system (e.g. tmpfs /tmp)
                audit_begin('wallet.json')
                try:
                    W.save_wallet(w)
                finally:
                    a_events, a_states, a_sources = audit_end()
                    tempfile.tempdir = old_tmp
                    _restore_fs()
                new_disk = open('wallet.json', 'rb').read()
                tr.boundary(('end',))
                buf = io.StringIO()
                w.dump(buf)
                expect_new = buf.getvalue().encode()
                rp = {'trial': trial, 'step': step, 'ops': [repr(s[0]) for s in tr.states]}
                inplace = in_place_writes(a_events, 'wallet.json') if old_disk is not None else []
                if inplace:
                    ck.violation('wallet-file-written-in-place', 'a save%s opens wallet.json itself for writing (%s): until that '
                                 'write completes the file is neither the previous nor the new wallet'
                                 % (' with the system temp directory on another file system' if use_xdev else '', ', '.join(inplace[:3])),
                                 dict(rp, temp_dir_on_other_filesystem=use_xdev, calls=[repr(e)[:120] for e in a_events][:20]))
                ck.count('save/fs-calls-audited', len(a_events))
                # whatever API the save used: the target's on-disk content at every audited file-system call, and what the
                # source of the switch-over held on disk at that instant
                for ev_, content in a_states:
                    if content != old_disk and content != new_disk:
                        ck.violation('wallet-file-torn', 'at a file-system call (%s) during a save the wallet file is neither the '
                                     'complete previous nor the complete new wallet' % ev_, rp)
                        break
                for src_content in a_sources:
                    if src_content != new_disk:
                        ck.violation('wallet-file-torn', 'at the switch-over of a save the side file holds %s bytes on disk, the '
                                     'complete new wallet has %d: the wallet file is incomplete from the rename until the side file '
                                     'is flushed' % (None if src_content is None else len(src_content), len(new_disk)), rp)
                        break
                if new_disk != expect_new:
                    ck.violation('saved-file-not-dump', 'wallet.json after save differs from the wallet dump', rp)
                for i, (op, content) in enumerate(tr.states):
                    ck.case((trial, step, i), kind='crash-point/%s' % op[0])
                    if content != old_disk and content != new_disk:
                        ck.violation('wallet-file-torn', 'after step %d (%s) of a save the wallet file is neither the complete '
                                     'previous nor the complete new wallet (%s bytes)' % (i, op[0], None if content is None else len(content)), rp)
                        break
                seq = []
                for _, c in tr.states:
                    if not seq or seq[-1] != c:
                        seq.append(c)
                reqs.append(('fs_prefixes', [], [[0] if old_disk is None else [1, old_disk], [new_disk[:7], new_disk[7:]]]))
                wants.append(('fs', [c for c in ([old_disk] if old_disk != new_disk else []) + [new_disk]], rp))
                try:
                    with open('wallet.json', 'r') as f:
                        w2 = Wallet.load(f)
                except Exception as e:
                    ck.violation('saved-wallet-unloadable', 'the wallet file left by a save cannot be loaded (%s)%s'
                                 % (type(e).__name__, ' -- an earlier save had been killed before its switch-over'
                                    if step % 3 == 0 else ''), rp)
                    break
                if wallet_state(w2) != wallet_state(w):
                    ck.violation('load-differs', 'loading the saved wallet does not reproduce key pairs / unused keys / annotations', rp)
                w2.spent_transaction_outputs = w.spent_transaction_outputs
                w = w2
                ck.case((trial, step), kind='save+load')
        reqs.append(('wallet_run', [], init + [ops]))
        wants.append(('keys', want, {'trial': trial}))
        for f in ('wallet.json', 'wallet.json.new'):
            if os.path.exists(f):
                os.unlink(f)
    if xdev:
        import shutil
        shutil.rmtree(xdev, ignore_errors=True)
    try:
        miner_script_level(ck, tier)
    except Exception:
        import traceback
        tb = traceback.format_exc()
        if 'could not mine a block' not in tb:
            ck.disagree('miner-script wallet probe crashed: %s' % tb[-700:], {})
    try:
        script_level(ck, tier)
    except Exception:
        import traceback
        ck.disagree('script-level wallet probe crashed: %s' % traceback.format_exc()[-500:], {})
    # ---- balance over annotated and unused keys
    from skepticoin.wallet import Wallet as Wl
    keys = chaingen.Keys()
    with chaingen.Env(period=50) as env:
        tg = chaingen.TreeGen(env, keys, rng)
        n = tg.genesis
        for i in range(4):
            n = tg.extend(n, txs=[], fees=0, miner=keys.pks[i])
        cs = chaingen.impl_state_from(tg.nodes)
        for trial in range(10):
            # every split of three FUNDED keys into unused / annotated (0..3 unused), plus samples with an unfunded key
            mine = rng.sample(keys.pks[:4], 3) if trial < 8 else rng.sample(keys.pks[:5], 3)
            k_un = trial % 4
            wl = Wl({pk: b'' for pk in mine}, mine[:k_un], {pk: 'a' for pk in mine[k_un:]})
            want = sum(v for (v, pk) in n.utxo.values() if pk in mine)
            try:
                got = wl.get_balance(cs)
            except Exception as e:
                got = repr(e)
            ck.case(('balance', trial), kind='balance/unused%d' % k_un)
            if got != want:
                ck.violation('wallet-balance', 'reported balance %s, unspent outputs paying wallet keys total %d (%d of 3 keys '
                             'unused)' % (got, want, k_un), {'kind': 'balance', 'unused': k_un})
    if r.ok:
        outs = model.run_batch(reqs)
        for (kind, want, rp), o in zip(wants, outs):
            if kind == 'keys':
                got = []
                for e in o:
                    if isinstance(e[0], list) and len(e) == 2 and isinstance(e[1], list) and len(e[1]) == 3 and e[0] and e[0][0] in (0, 1) and isinstance(e[0], list) and (len(e[0]) <= 2):
                        got.append(e[0][1] if e[0][0] == 1 else None)
                    else:
                        got.append(None)
                # only hand-outs carry a key
                gotk = [g for g, w_ in zip(got, want) if w_ is not None]
                wantk = [w_ for w_ in want if w_ is not None]
                if gotk != wantk:
                    ck.disagree('Wallet key hand-out/restore vs model', dict(rp, model=repr(gotk)[:200], impl=repr(wantk)[:200]))
            else:
                seq = []
                for e in o:
                    c = e[1] if e[0] == 1 else None
                    if not seq or seq[-1] != c:
                        seq.append(c)
                seq = [c for c in seq]
                exp = want
                old_first = seq[:-1]
                if seq[-1] != exp[-1] or any(c not in (None if len(exp) < 2 else exp[0], exp[-1], None) for c in old_first):
                    ck.disagree('save_wallet vs model save_ops (sequence of on-disk states)', rp)
        ck.extra['traces_validated_against_impl'] = len(reqs)
    return ck.finish()


def replay(path):
    d = json.load(open(path))
    print(json.dumps(d, indent=1)[:3000])
    print('re-run with: VERIF_SEED=%d ./check C15 --tier %s' % (d.get('seed', 0), d.get('tier', 'quick')))
    return 1
