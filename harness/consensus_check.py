"""Shared runner for the full-validation properties (C01, C02, C05): generated block trees x single-defect mutants,
run through the implementation's CoinState.add_block, the extracted model's add_block, and the property oracle."""
import json

import chaingen
import common
import model
import mutators
import spec


def impl_verdict(cs, block, now):
    from skepticoin import consensus as C
    try:
        new = cs.add_block(block, now)
        return [1], new
    except C.ValidateTransactionError as e:
        return [0, 1], str(e)
    except C.ValidationError as e:
        return [0, 2], str(e)
    except Exception as e:
        return [0, 3], '%s: %s' % (type(e).__name__, e)


def parent_first_orders(nodes, rng, k):
    """k arrival orders in which parents precede children (creation order first)"""
    orders = [list(nodes)]
    for _ in range(k - 1):
        remaining = list(nodes)
        placed = []
        ids = set()
        while remaining:
            ready = [n for n in remaining if n.parent is None or n.parent.id in ids]
            n = rng.choice(ready)
            placed.append(n)
            ids.add(n.id)
            remaining.remove(n)
        orders.append(placed)
    return orders


def replay_case(rp):
    """re-execute a replay dict against /repo: returns (verdict, conjunct failures)"""
    from skepticoin.datatypes import Block
    from skepticoin.coinstate import CoinState
    env = chaingen.Env(period=rp['period'], block_span=rp['span'] // rp['period'], interval=rp.get('interval'),
                       hz=rp.get('hz', -1), known={int(k): v for k, v in (rp.get('known') or {}).items()})
    with env:
        cs = CoinState.empty()
        for hx in rp['prefix']:
            cs = cs.add_block_no_validation(Block.deserialize(bytes.fromhex(hx)))
        blk = Block.deserialize(bytes.fromhex(rp['block']))
        v, _ = impl_verdict(cs, blk, rp['now'])
        for _ in range(rp.get('offers', 1) - 1):
            v, _ = impl_verdict(cs, blk, rp['now'])
        return v


def run_consensus(ck, tags, oracle, tier, ntrees_quick=6, ntrees_thorough=40, extra_cases=None):
    """oracle(chain_views, parent_utxo, blockview, now, env) -> list of violated conjuncts (for accepted blocks)"""
    from skepticoin.coinstate import CoinState
    rng = ck.rng
    ntrees = ntrees_quick if tier == 'quick' else ntrees_thorough
    if common.REDUCED:
        ntrees = 2
    keys = chaingen.Keys()
    reqs = []
    meta = []
    for trial in range(ntrees):
        period = rng.choice([3, 4, 5, 6])
        interval = rng.choice([None, 4, 5]) if 'C02' in tags else rng.choice([None, None, 4])
        with chaingen.Env(period=period, interval=interval) as env:
            tg = chaingen.TreeGen(env, keys, rng)
            tg.malformed_rewards = 'C01' in tags
            if trial % 3 == 0 and ('C05' in tags or tier == 'thorough'):
                chaingen.grow_two_branches(tg, env.period)
            else:
                tg.grow(rng.choice([7, 9, 11]) if tier == 'quick' else rng.choice([9, 14, 20]), fork_p=0.3)
            if trial == 0 and ('C01' in tags or 'C02' in tags):
                # one tree gets a head whose ledger holds 90 small outputs of wallet keys (split of a reward)
                hd_ = max(tg.nodes, key=lambda x: x.height)
                big = [(r_, vo) for r_, vo in sorted(tg.spendable(hd_)) if vo[0] >= 1000]
                if big:
                    r0_, (v0_, _pk0) = big[0]
                    outs_ = [(v0_ // 100, keys.pks[i % 3]) for i in range(90)]
                    outs_.append((v0_ - sum(v for v, _ in outs_), keys.pks[4]))
                    tg.extend(hd_, txs=[chaingen.signed_tx(keys, hd_.utxo, [r0_], outs_)], fees=0, dt=100)
            nodes = tg.nodes
            order = parent_first_orders(nodes, rng, 2)[-1]
            # --- every generated block must pass full validation in this arrival order
            cs = CoinState.empty().add_block_no_validation(order[0].block)
            prefix_ok = True
            for n in order[1:]:
                with model.Transcript() as tr:
                    v, new = impl_verdict(cs, n.block, n.view.time)
                    for m in order:
                        tr.add_block_ids(m.block)
                    tbl = tr.table() + spec.full_oracle([m.view for m in n.parent.chain()], n.parent.utxo, n.view,
                                                        n.view.time, env.period, env.span, env.scrypt)
                ck.case(('valid', n.id), kind='valid-block/' + ('fork' if cs.current_chain_hash != n.view.prev else 'extend'),
                        sample={'valid block': n.id.hex(), 'height': n.height, 'txs': len(n.view.txs),
                                'verdict': v} if len(ck.samples) < 2 else None)
                pre = [m for m in order[:order.index(n)]]
                reqs.append(('chain', tbl, [env.params_sx(), [[0, m.block.serialize()] for m in pre] +
                                            [[1, n.block.serialize(), n.view.time]], 0]))
                meta.append({'what': 'valid', 'label': 'generated-valid-block', 'impl': v, 'prefix': pre, 'node': n,
                             'now': n.view.time, 'env': (env.period, env.span), 'block': n.block, 'expect': 'accept'})
                if v[0] == 1:
                    bad = oracle([m.view for m in n.parent.chain()], n.parent.utxo, n.view, n.view.time, env)
                    if bad:
                        ck.disagree('property oracle rejects a generated block: %s' % bad, {})
                    cs = new
                else:
                    # a block that is valid per reference and model was refused: recorded as a disagreement by the
                    # model comparison below; carry on with the block applied so that the mutants still run
                    try:
                        cs = cs.add_block_no_validation(n.block)
                    except Exception:
                        prefix_ok = False
                        break
            if not prefix_ok:
                continue
            before = chaingen.digest_state(cs)
            # --- mutants on several parents
            cands = [n for n in nodes if len(tg.spendable(n)) >= 2] or nodes
            parents = []
            head = [n for n in nodes if n.id == cs.current_chain_hash][0]
            parents.append(head)
            boundary = [n for n in nodes if (n.height + 1) % env.period == 0]
            off_main = [n for n in boundary if n not in head.chain()]
            parents += off_main[:3]
            if boundary:
                parents.append(rng.choice(boundary))
            if env.interval:
                halving = [n for n in nodes if (n.height + 1) % env.interval == 0]
                parents += halving[:2]
            parents.append(rng.choice(cands))
            nonhead = [n for n in cands if n.id != head.id and n not in head.chain()]
            if nonhead:
                parents.append(rng.choice(nonhead))
            seen_par = set()

            def offer(par, env):
                cases = mutators.mutants(tg, par, rng, tags=tags, horizon_env=env if env.hz >= 0 else None, with_warm=True)
                if extra_cases:
                    cases += extra_cases(tg, par, rng)
                for c in cases:
                    blk = c['block']
                    if c.get('warm') is not None:
                        # the same in-memory objects were validated once before (pool admission, an earlier offer)
                        impl_verdict(cs, c['warm'], c['now'])
                        blk = c['mutate']()
                    with model.Transcript() as tr:
                        v, new = impl_verdict(cs, blk, c['now'])
                        for m in order:
                            tr.add_block_ids(m.block)
                        tr.add_block_ids(blk)
                        tbl = tr.table()
                    bv = spec.BlockView(blk)
                    tbl = tbl + spec.full_oracle([m.view for m in par.chain()], par.utxo, bv, c['now'], env.period,
                                                 env.span, env.scrypt)
                    ck.case((c['label'], bv.id), kind='%s:%s' % (c['label'], 'accept' if v[0] == 1 else 'reject%d' % v[1]),
                            sample={'mutant': c['label'], 'parent_height': par.height, 'verdict': v,
                                    'block_bytes': len(bv.bytes)} if c['label'] in ('signed-by-other-key', 'reward-plus-one', 'time-31s-in-future') and len(ck.samples) < 5 else None)
                    replay = {'label': c['label'], 'prefix': [m.block.serialize().hex() for m in order],
                              'block': bv.bytes.hex(), 'now': c['now'], 'period': env.period, 'span': env.span, 'interval': env.interval}
                    if env.hz >= 0:
                        replay.update(hz=env.hz, known=env.known)
                    if c.get('warm') is not None:
                        replay['warm'] = c['warm'].serialize().hex()
                    if v[0] != 1 and c['expect'] == 'reject':
                        # a verdict is a function of (block, chain, clock): the same block offered again gets it again
                        v2, _ = impl_verdict(cs, blk, c['now'])
                        ck.count('rejected-block-offered-again')
                        if v2[0] == 1:
                            replay['offers'] = 2
                            v = v2
                    if v[0] == 1:
                        bad = oracle([m.view for m in par.chain()], par.utxo, bv, c['now'], env)
                        if bad:
                            ck.violation('accepts:' + bad[0], 'full validation accepts a block (%s) although: %s'
                                         % (c['label'], '; '.join(bad)), replay)
                    reqs.append(('chain', tbl, [env.params_sx(), [[0, m.block.serialize()] for m in order] +
                                                [[1, bv.bytes, c['now']]], 0]))
                    meta.append({'what': 'mutant', 'label': c['label'], 'impl': v, 'replay': replay,
                                 'expect': c['expect']})
            for par in parents:
                if par.id in seen_par:
                    continue
                seen_par.add(par.id)
                offer(par, env)
            # --- the same mutants with a checkpoint horizon k inside the chain (heights <= k skip in-chain validation BY
            #     DESIGN; the first height the rules apply to again is k + 1): parents at heights k and k + 1
            if trial % 2 == 1 and head.height >= 3:
                from skepticoin.humans import human
                hchain = head.chain()
                k = rng.randrange(1, head.height)
                known = {h: human(hchain[h].id) for h in range(0, k + 1) if h in (0, k) or rng.random() < 0.6}     # the table always lists genesis
                with chaingen.Env(period=env.period, block_span=env.span // env.period, interval=env.interval, hz=k,
                                  known=known) as envh:
                    for par in (hchain[k], hchain[min(k + 1, head.height)]):
                        ck.count('parents-at-checkpoint-horizon')
                        offer(par, envh)
            after = chaingen.digest_state(cs)
            if after != before:
                ck.violation('state-mutated-by-rejected-block', 'chain state object changed while candidate blocks were '
                             'offered to add_block', {'label': 'state-mutated', 'prefix': [m.block.serialize().hex() for m in order]})
    # --- model
    if ck.build_result is not None and ck.build_result.ok:
        outs = model.run_batch(reqs)
        for m, o in zip(meta, outs):
            mv = o[0][-1] if isinstance(o, list) and o and isinstance(o[0], list) and o[0] else o
            if mv != m['impl']:
                ck.disagree('CoinState.add_block vs model add_block on %s: impl %s model %s' % (m['label'], m['impl'], mv),
                            m.get('replay') or {'label': m['label']})
        ck.extra['traces_validated_against_impl'] = len(reqs)
    ck.extra['cases_by_expectation'] = {
        'expected_accept': sum(1 for m in meta if m['expect'] == 'accept'),
        'expected_reject': sum(1 for m in meta if m['expect'] == 'reject'),
        'impl_differs_from_expectation': sorted(set(m['label'] for m in meta
                                                    if (m['impl'][0] == 1) != (m['expect'] == 'accept')))}
    return meta



def node_relay_probe(ck, tier, tags):
    """the path that feeds full validation for relayed blocks: a real node in three situations -- idle, with a block-download
    round open towards another peer, with bulk-download replies waiting unvalidated -- is sent rule-violating blocks
    UNSOLICITED (in_response_to = 0): none may enter the served chain state; a valid one does"""
    import nodeharness
    import simnet
    from skepticoin.networking import messages as M
    rng = ck.rng
    keys = chaingen.Keys()
    for situation in ('idle', 'fetch-round-open', 'bulk-download-pending', 'after-own-found-block'):
        with chaingen.Env(period=50) as env:
            tg = chaingen.TreeGen(env, keys, rng)
            n = tg.genesis
            for _ in range(4):
                n = tg.extend(n, txs=[], fees=0, dt=100)
            main = list(tg.nodes)
            with simnet.Net(seed=rng.getrandbits(30), t0=n.view.time + 5000) as net:
                sn = nodeharness.SingleNode(net, chaingen.impl_state_from(main), [m.block for m in main[1:]], npeers=3)
                sn.new_messages()
                head = n
                if situation == 'fetch-round-open':
                    sn.node.step()                     # the chain manager asks one of its peers for blocks; no answer comes
                    sn.pump()
                    asked = sum(1 for msgs in sn.new_messages() for (k, _i, _r) in msgs if k == 'GetBlocksMessage')
                    ck.count('node-probe/block-requests-open', asked)
                elif situation == 'after-own-found-block':
                    # the head is a block the node's own miner just found: a rejected block must leave it where it is
                    import check_C12
                    found = check_C12.mine_one(sn, net, keys, tg, head)
                    if found is None or found.id not in sn.observe()['blocks']:
                        continue
                    head = found
                    sn.new_messages()
                elif situation == 'bulk-download-pending':
                    for _ in range(2):
                        head = tg.extend(head, txs=[], fees=0, dt=100)
                        sn.deliver(0, M.DataMessage(M.DATA_BLOCK, head.block), irt=93)
                bad = [c for c in mutators.mutants(tg, head, rng, tags=tags) if c['expect'] == 'reject']
                rng.shuffle(bad)
                for c in bad[:6 if tier == 'quick' else 20]:
                    if c['label'].startswith('time-31s'):
                        net.clock.t = c['now']            # this mutant is about the node's clock: 31 s behind the block
                    elif c['label'].startswith('control-time'):
                        continue
                    else:
                        net.clock.t = max(net.clock.t, c['now'])
                    before = sn.observe()
                    sn.deliver(rng.choice([1, 2]), M.DataMessage(M.DATA_BLOCK, c['block']))
                    after = sn.observe()
                    bid = spec.sha256d(c['block'].header.serialize())
                    ck.case(('node-probe', situation, c['label']), kind='relayed-while-%s/%s' % (situation, 'entered' if bid in after['blocks'] else 'refused'))
                    if bid not in after['blocks'] and situation != 'bulk-download-pending' and \
                            (before['blocks'] != after['blocks'] or before['head'] != after['head']):
                        ck.violation('rejected-block-changed-chain-state', 'a node (%s) that refuses an unsolicited block (%s) no longer '
                                     'serves the chain state it had before: %d -> %d blocks, head %s' % (situation.replace('-', ' '), c['label'],
                                     len(before['blocks']), len(after['blocks']), 'changed' if before['head'] != after['head'] else 'unchanged'),
                                     {'node_level': True, 'situation': situation, 'label': c['label'], 'block': c['block'].serialize().hex()})
                        break
                    if bid in after['blocks']:
                        ck.violation('relayed-invalid-block-entered-state', 'a node that is %s accepts an unsolicited block (%s) that '
                                     'breaks the rules into its served chain state' % (situation.replace('-', ' '), c['label']),
                                     {'node_level': True, 'situation': situation, 'label': c['label'],
                                      'prefix': [m.block.serialize().hex() for m in tg.nodes if m.id in before['blocks']],
                                      'block': c['block'].serialize().hex(), 'now': c['now'], 'period': 50, 'span': env.span})
                        break
                    if sn.node.escaped:
                        ck.violation('exception-escaped', 'an exception escaped the event handler: %s' % sn.node.escaped[0][1],
                                     {'node_level': True, 'situation': situation})
                        break
                    cur = bytes(sn.lp().chain_manager.coinstate.current_chain_hash)
                    head = [x for x in tg.nodes if x.id == cur][0] if any(x.id == cur for x in tg.nodes) else head
