"""C14 -- wallet builds exact, valid, non-overlapping spends or changes nothing.
Theorems: props/Properties_C14.v (selection model).  Tie: real create_spend_transaction / sign_transaction on generated
ledgers against the extracted model (selection, change, used-set), and against the node's own transaction validation.
Search oracle: the clauses of the property on the returned transaction and on the wallet's record of used outputs."""
import contextlib
import io
import json

import chaingen
import common
import model
import spec


def build_ledger(env, keys, rng, shape):
    """a chain whose unspent outputs are spread over wallet keys as `shape` says; returns (nodes, coinstate)"""
    tg = chaingen.TreeGen(env, keys, rng)
    n = tg.genesis
    n = tg.extend(n, txs=[], fees=0, miner=keys.pks[0])
    n = tg.extend(n, txs=[], fees=0, miner=keys.pks[1])
    # split the first reward into many outputs over several keys
    ref = [(r, vo) for r, vo in n.utxo.items() if vo[1] == keys.pks[0]][0]
    tot = ref[1][0]
    outs = []
    rest = tot
    for i, (k, v) in enumerate(shape):
        v = min(v, rest - (len(shape) - 1 - i))
        outs.append((v, keys.pks[k]))
        rest -= v
    if rest > 0:
        outs.append((rest, keys.pks[5]))          # key 5 is NOT in the wallet
    t = chaingen.signed_tx(keys, n.utxo, [ref[0]], outs)
    n = tg.extend(n, txs=[t], fees=0, miner=keys.pks[5])
    build_ledger.tg = tg
    return tg.nodes, chaingen.impl_state_from(tg.nodes)


def holdings_of(wallet, cs, idm):
    from skepticoin.signing import SECP256k1PublicKey
    bal = cs.at_head.public_key_balances
    u = cs.at_head.unspent_transaction_outs
    out = []
    for pk in wallet.keypairs.keys():
        k = SECP256k1PublicKey(pk)
        if k not in bal:
            continue
        out.append([idm(pk), [[idm((bytes(r.hash), r.index)), u[r].value] for r in bal[k].output_references]])
    return out


class IdMap:
    def __init__(self):
        self.m = {}

    def __call__(self, x):
        if x not in self.m:
            self.m[x] = len(self.m) + 1
        return self.m[x]


def run(tier, seed):
    ck = common.Check('C14', tier, seed)
    ck.rule = ('ledgers with 1-12 unspent outputs spread over 1-4 wallet keys (plus outputs of foreign keys); sequences of 3-8 '
               'spend requests with amounts below / exactly at / above the spendable balance, fee 0 or positive, recipient = '
               'foreign or own key, failed attempts followed by affordable ones; every returned transaction is validated by '
               "the node's own transaction validation and by the independent rules, amounts and change recomputed, the "
               "wallet's used-output record compared before/after; whole sequences compared with the extracted selection "
               'model; histories of five spends across head changes (an earlier spend confirmed, then un-confirmed by a fork switch, then an older state again); one ledger with 2,100 one-unit outputs (known finding); non-trivial = distinct (ledger, request)')
    ck.trusted += ['extraction + OCaml driver', 'chain generator', 'real ecdsa signing in sign_transaction']
    ck.assumptions += ['positive amount, non-negative fee; balances taken at the head; one wallet']
    r = ck.build(extract=True)
    from skepticoin.wallet import Wallet, create_spend_transaction
    from skepticoin.signing import SECP256k1PublicKey
    from skepticoin import consensus as C
    rng = ck.rng
    keys = chaingen.Keys()
    reqs, wants = [], []
    ntr = 16 if tier == 'quick' else 400
    for trial in range(ntr):
        with chaingen.Env(period=50) as env:
            nk = rng.choice([1, 2, 3, 4])
            shape = [(rng.randrange(nk), rng.choice([1, 2, 5, 10, 100, 10 ** 6, 10 ** 8])) for _ in range(rng.choice([1, 2, 3, 5, 8, 12]))]
            nodes, cs = build_ledger(env, keys, rng, shape)
            head = nodes[-1]
            wkeys = [keys.pks[i] for i in range(4)]
            rng.shuffle(wkeys)
            wallet = Wallet({pk: keys.by_pk[pk].to_string() for pk in wkeys}, [], {pk: 'a' for pk in wkeys})
            idm = IdMap()
            hold = holdings_of(wallet, cs, idm)
            model_reqs = []
            model_wants = []
            used0 = []
            spendable = sum(v for (v, pk) in head.utxo.values() if pk in wkeys)
            prev_used = set()
            used_ids = set()
            failed_before = False
            for q in range(rng.choice([3, 5, 8])):
                remaining = sum(v for ref, (v, pk) in head.utxo.items() if pk in wkeys and ref not in prev_used)
                if remaining == 0:
                    break
                fee = rng.choice([0, 0, 1, 7])
                mode = rng.choice(['small', 'prefix', 'prefix', 'above', 'half', 'one-less'] + (['exact'] if q >= 2 else []))
                if mode == 'small':
                    amount = rng.choice([1, 2, 3, 10])
                elif mode == 'prefix':
                    # amount + fee lands exactly on a greedy prefix sum of the unused outputs in scan order
                    scan = [(rid, v) for _, refs in hold for rid, v in refs if rid not in used_ids]
                    j = rng.randrange(1, len(scan) + 1) if scan else 0
                    amount = sum(v for _, v in scan[:j]) - fee
                elif mode == 'exact':
                    amount = remaining - fee
                elif mode == 'above':
                    amount = remaining - fee + rng.choice([1, 1000])
                elif mode == 'half':
                    amount = max(1, remaining // 2)
                else:
                    amount = remaining - fee - 1
                if amount <= 0:
                    continue
                recipient = rng.choice([keys.pks[5], keys.pks[4], wkeys[0]])
                change = wkeys[-1]
                used_before = set((bytes(x.hash), x.index) for x in wallet.spent_transaction_outputs)
                rp = {'trial': trial, 'request': q, 'amount': amount, 'fee': fee, 'shape': shape}
                try:
                    tx = create_spend_transaction(wallet, cs, amount, fee, SECP256k1PublicKey(recipient), SECP256k1PublicKey(change))
                    err = None
                except Exception as e:
                    tx, err = None, e
                used_after = set((bytes(x.hash), x.index) for x in wallet.spent_transaction_outputs)
                affordable = remaining >= amount + fee
                ck.case((trial, q), kind='%s/%s' % (mode, 'spend' if tx is not None else 'insufficient'),
                        sample={'outputs_in_wallet': len([1 for v, pk in head.utxo.values() if pk in wkeys]),
                                'remaining': remaining, 'amount': amount, 'fee': fee, 'result': 'tx' if tx is not None else str(err)}
                        if len(ck.samples) < 4 else None)
                if tx is None:
                    if 'Insufficient' not in str(err):
                        ck.violation('spend-builder-raises', 'create_spend_transaction raised %r' % (err,), rp)
                    if used_after != used_before:
                        ck.violation('failed-spend-changes-used-record', 'a spend that reported insufficient funds changed the '
                                     "wallet's record of used outputs (%d -> %d entries)" % (len(used_before), len(used_after)), rp)
                    if affordable:
                        ck.violation('affordable-spend-refused' + ('-after-failed-attempt' if failed_before else ''),
                                     'insufficient funds reported although unused outputs worth %d cover %d + %d%s'
                                     % (remaining, amount, fee, ' (after an earlier failed attempt)' if failed_before else ''), rp)
                    failed_before = True
                    model_wants.append([0, None])
                else:
                    tv = spec.TxView(tx)
                    refs = [(h, i) for h, i, _ in tv.inputs]
                    if not affordable:
                        ck.violation('unaffordable-spend-built', 'a transaction was returned although funds are insufficient', rp)
                    if len(tv.bytes) > 200000:
                        ck.violation('spend-too-large', 'the returned transaction (%d inputs, %d bytes) exceeds the maximum '
                                     'transaction size and fails validation' % (len(refs), len(tv.bytes)), rp)
                    else:
                        try:
                            C.validate_non_coinbase_transaction_by_itself(tx)
                            C.validate_non_coinbase_transaction_in_coinstate(tx, cs.current_chain_hash, cs)
                        except Exception as e:
                            ck.violation('spend-invalid', 'the returned transaction fails transaction validation at the head: %s' % e, rp)
                    tin = sum(head.utxo[x][0] for x in refs if x in head.utxo)
                    if not tv.outputs or tv.outputs[0] != (amount, recipient):
                        ck.violation('recipient-amount', 'first output is not (amount, recipient)', rp)
                    ch = tin - amount - fee
                    want_outs = [(amount, recipient)] + ([(ch, change)] if ch != 0 else [])
                    if tv.outputs != want_outs:
                        ck.violation('change-not-exact', 'outputs %s, expected amount to recipient and change %d'
                                     % ([o[0] for o in tv.outputs], ch), rp)
                    if len(set(refs)) != len(refs) or any(x not in head.utxo or head.utxo[x][1] not in wkeys for x in refs):
                        ck.violation('inputs-not-owned-distinct', 'inputs are not distinct unspent outputs of wallet keys', rp)
                    if any(x in prev_used for x in refs):
                        ck.violation('input-reused', 'an output used by an earlier spend of this wallet is spent again', rp)
                    prev_used |= set(refs)
                    used_ids |= set(idm(x) for x in refs)
                    model_wants.append([1, [idm(x) for x in refs], amount, None if ch == 0 else ch])
                model_reqs.append([amount, fee])
            reqs.append(('spend_run', [], [used0, hold, model_reqs]))
            wants.append((model_wants, {'trial': trial, 'shape': shape}))
    # ---- spends across head changes: confirmation of an earlier spend, then a fork switch that un-confirms it
    for trial in range(4 if tier == 'quick' else 60):
        with chaingen.Env(period=50) as env:
            shape = [(rng.randrange(2), rng.choice([5, 10, 100])) for _ in range(rng.choice([4, 6, 8]))]
            nodes, cs3 = build_ledger(env, keys, rng, shape)
            tg = build_ledger.tg
            b3 = nodes[-1]
            wkeys = [keys.pks[0], keys.pks[1]]
            wallet = Wallet({pk: keys.by_pk[pk].to_string() for pk in wkeys}, [], {pk: 'a' for pk in wkeys})
            used_all = set()
            history = []
            rp = {'reorg_trial': trial, 'shape': shape}

            def do_spend(cs, utxo, label, amount):
                rpp = dict(rp, history=list(history), at=label)
                remaining = sum(v for ref, (v, pk) in utxo.items() if pk in wkeys and ref not in used_all)
                try:
                    tx = create_spend_transaction(wallet, cs, amount, 0, SECP256k1PublicKey(keys.pks[5]), SECP256k1PublicKey(wkeys[1]))
                except Exception as e:
                    if remaining >= amount and 'Insufficient' in str(e):
                        ck.violation('affordable-spend-refused-across-head-change', 'insufficient funds reported at %s although '
                                     'unused outputs worth %d cover %d' % (label, remaining, amount), rpp)
                    elif 'Insufficient' not in str(e):
                        ck.violation('spend-builder-raises', 'create_spend_transaction raised %r at %s' % (e, label), rpp)
                    history.append((label, 'refused'))
                    return None
                refs = [(h, i) for h, i, _ in spec.TxView(tx).inputs]
                ck.case(('reorg', trial, label), kind='across-head-change/' + label.split(':')[0])
                if any(x in used_all for x in refs):
                    ck.violation('input-reused-across-head-change', 'at %s the wallet spends an output that one of its earlier '
                                 'spends already used (history: %s)' % (label, [h[0] for h in history]), rpp)
                if any(x not in utxo or utxo[x][1] not in wkeys for x in refs):
                    ck.violation('inputs-not-owned-distinct', 'inputs are not unspent outputs of wallet keys at %s' % label, rpp)
                used_all.update(refs)
                history.append((label, len(refs)))
                return tx
            t1 = do_spend(cs3, b3.utxo, 'spend1:head=b3', 3)
            if t1 is None:
                continue
            b4 = tg.extend(b3, txs=[t1], fees=0, dt=60)                 # confirms spend 1
            cs4 = chaingen.impl_state_from(tg.nodes)
            if bytes(cs4.current_chain_hash) != b4.id:
                continue
            do_spend(cs4, b4.utxo, 'spend2:head=b4(confirms spend1)', 3)
            b4x = tg.extend(b3, txs=[], fees=0, dt=61)                   # the competing branch does not contain spend 1
            b5x = tg.extend(b4x, txs=[], fees=0, dt=60)
            cs5 = chaingen.impl_state_from(tg.nodes)
            if bytes(cs5.current_chain_hash) != b5x.id:
                ck.count('reorg-scenario-skipped(fork choice)')
                continue
            do_spend(cs5, b5x.utxo, 'spend3:head=b5x(fork switch, spend1 unconfirmed again)', 3)
            do_spend(cs5, b5x.utxo, 'spend4:head=b5x', 4)
            do_spend(cs3, b3.utxo, 'spend5:back at head=b3', 2)
    # ---- wallets in unusual but legitimate shapes: (a) a funded key sits in the UNUSED pool again (handed out, paid to,
    #      then restored -- as the miner does when it stops); (b) one key's private part is unusable (watch-only / corrupt):
    #      a spend that needs it fails in signing and leaves no trace, a spend that does not need it succeeds
    for trial in range(4 if tier == 'quick' else 48):
        with chaingen.Env(period=50) as env:
            shape = [(0, 10), (1, 100), (0, 7), (1, 50)]
            nodes, cs = build_ledger(env, keys, rng, shape)
            head = nodes[-1]
            k0, k1 = keys.pks[0], keys.pks[1]
            if trial % 2 == 0:
                wallet = Wallet({k0: keys.by_pk[k0].to_string(), k1: keys.by_pk[k1].to_string()}, [k1], {k0: 'a'})
                need = sum(v for (v, pk) in head.utxo.values() if pk in (k0, k1)) - 3
                rp = {'wallet_shape': 'funded key in the unused pool', 'amount': need}
                try:
                    tx = create_spend_transaction(wallet, cs, need, 0, SECP256k1PublicKey(keys.pks[5]), SECP256k1PublicKey(k0))
                    ok_ = True
                except Exception as e:
                    ok_, err_ = False, e
                ck.case(('shape', trial), kind='funded-key-in-unused-pool/%s' % ('spend' if ok_ else 'refused'))
                if not ok_:
                    ck.violation('affordable-spend-refused', 'a spend that needs the outputs of a funded key which is back in the '
                                 'unused pool is refused (%s) although the wallet holds enough' % err_, rp)
            else:
                wallet = Wallet({k0: keys.by_pk[k0].to_string(), k1: b'\x00' * 5}, [], {k0: 'a', k1: 'watch-only'})
                order_first = list(wallet.keypairs.keys())[0]
                total0 = sum(v for (v, pk) in head.utxo.values() if pk == k0)
                used_before = set(wallet.spent_transaction_outputs)
                rp = {'wallet_shape': 'one unusable private key', 'first_key_usable': order_first == k0}
                try:
                    create_spend_transaction(wallet, cs, total0 + 20, 0, SECP256k1PublicKey(keys.pks[5]), SECP256k1PublicKey(k0))
                    failed = False
                except Exception:
                    failed = True
                ck.case(('shape', trial), kind='unusable-key/%s' % ('failed-in-signing' if failed else 'built'))
                if failed and set(wallet.spent_transaction_outputs) != used_before:
                    ck.violation('failed-spend-changes-used-record', 'a spend that failed while signing (one of the needed keys has no '
                                 'usable private part) changed the wallet\'s record of used outputs (%d -> %d entries)'
                                 % (len(used_before), len(wallet.spent_transaction_outputs)), rp)
                try:
                    tx2 = create_spend_transaction(wallet, cs, total0 - 1, 0, SECP256k1PublicKey(keys.pks[5]), SECP256k1PublicKey(k0))
                    refs2 = [(h, i) for h, i, _ in spec.TxView(tx2).inputs]
                    if any(head.utxo[x][1] != k0 for x in refs2 if x in head.utxo):
                        pass
                except Exception as e:
                    if 'Insufficient' in str(e):
                        ck.violation('affordable-spend-refused-after-failed-attempt', 'after a spend failed while signing, a spend '
                                     'that the usable key alone can pay is refused with insufficient funds', rp)
    # ---- a key generated AFTER the wallet was first used receives funds: they are spendable
    for trial in range(2 if tier == 'quick' else 24):
        with chaingen.Env(period=50) as env:
            nodes, cs = build_ledger(env, keys, rng, [(0, 10), (1, 100), (0, 7)])
            tg = build_ledger.tg
            head = nodes[-1]
            k0 = keys.pks[0]
            wallet = Wallet({k0: keys.by_pk[k0].to_string()}, [], {k0: 'a'})
            if trial % 2 == 0:
                wallet.generate_keys(2)
            try:
                create_spend_transaction(wallet, cs, 3, 0, SECP256k1PublicKey(keys.pks[5]), SECP256k1PublicKey(k0))
            except Exception:
                pass
            wallet.generate_key()
            new_pk = list(wallet.keypairs.keys())[-1]
            src = [(r_, vo) for r_, vo in head.utxo.items() if vo[1] == keys.pks[1]]
            if not src:
                continue
            pay = chaingen.signed_tx(keys, head.utxo, [src[0][0]], [(src[0][1][0], new_pk)])
            nb = tg.extend(head, txs=[pay], fees=0, miner=keys.pks[5])
            cs2 = chaingen.impl_state_from(tg.nodes)
            need = src[0][1][0] - 1
            ck.case(('late-key', trial), kind='funds-on-key-generated-after-first-use')
            try:
                tx = create_spend_transaction(wallet, cs2, need, 0, SECP256k1PublicKey(keys.pks[5]), SECP256k1PublicKey(k0))
            except Exception as e:
                ck.violation('affordable-spend-refused', 'funds paid to a key the wallet generated after it had already built a spend '
                             'are not spendable (%s)' % e, {'wallet_shape': 'key generated after first spend', 'amount': need})
    # ---- the send script: the recipient is paid the amount that was typed, in the denomination that was typed
    try:
        import sys
        from skepticoin.scripts import send as S
        from skepticoin.params import SASHIMI_PER_COIN
        from skepticoin.humans import human
        with chaingen.Env(period=50) as env:
            nodes, cs = build_ledger(env, keys, rng, [(0, 5 * 10 ** 8), (1, 4 * 10 ** 8)])
            k0, k1 = keys.pks[0], keys.pks[1]

            class Stop(BaseException):
                pass
            for amount, denom in ((250, 'sashimi'), (1, 'sashimi'), (3, 'skepticoin'), (7, 'sashimi')):
                wallet = Wallet({k0: keys.by_pk[k0].to_string(), k1: keys.by_pk[k1].to_string()}, [k1], {k0: 'a'})
                sent = []

                class NM:
                    def broadcast_transaction(self, t):
                        sent.append(t)
                        raise Stop()

                class LPx:
                    network_manager = NM()

                class Th:
                    local_peer = LPx()

                    def stop(self):
                        pass

                    def join(self):
                        pass
                saved = {}
                for name, val in (('check_chain_dir', lambda: None), ('read_chain_from_disk', lambda: cs),
                                  ('open_or_init_wallet', lambda: wallet), ('start_networking_peer_in_background', lambda a_, c_: Th()),
                                  ('wait_for_fresh_chain', lambda *a_, **k_: None), ('save_wallet', lambda w_: None)):
                    if hasattr(S, name):
                        saved[name] = getattr(S, name)
                        setattr(S, name, val)
                argv = sys.argv
                sys.argv = ['skepticoin-send', str(amount), denom, 'SKE' + human(keys.pks[5]) + 'PTI']
                try:
                    with contextlib.redirect_stdout(io.StringIO()):
                        try:
                            S.main()
                        except Stop:
                            pass
                        except SystemExit:
                            pass
                finally:
                    sys.argv = argv
                    for name, val in saved.items():
                        setattr(S, name, val)
                want = amount * (SASHIMI_PER_COIN if denom == 'skepticoin' else 1)
                ck.case(('send-script', amount, denom), kind='send-script/%s' % denom)
                if not sent:
                    ck.disagree('send script did not broadcast anything for %d %s' % (amount, denom), {})
                else:
                    tv = spec.TxView(sent[0])
                    if not tv.outputs or tv.outputs[0] != (want, keys.pks[5]):
                        ck.violation('recipient-amount', 'skepticoin-send %d %s pays the recipient %s sashimi (expected %d)'
                                     % (amount, denom, tv.outputs[0][0] if tv.outputs else None, want), {'script': 'send', 'amount': amount, 'denomination': denom})
    except Exception as e:
        import traceback
        ck.disagree('send-script probe raised %r' % (e,), {'trace': traceback.format_exc()[-500:]})
    # ---- the known finding: more inputs than fit in one transaction
    with chaingen.Env(period=50) as env:
        tg = chaingen.TreeGen(env, keys, rng)
        n = tg.extend(tg.genesis, txs=[], fees=0, miner=keys.pks[0])
        ref = [(r_, vo) for r_, vo in n.utxo.items() if vo[1] == keys.pks[0]][0]
        k = 2100
        t = chaingen.signed_tx(keys, n.utxo, [ref[0]], [(1, keys.pks[1])] * k + [(ref[1][0] - k, keys.pks[5])])
        n = tg.extend(n, txs=[t], fees=0, miner=keys.pks[5])
        cs = chaingen.impl_state_from(tg.nodes)
        wallet = Wallet({keys.pks[1]: keys.by_pk[keys.pks[1]].to_string()}, [], {keys.pks[1]: 'a'})
        try:
            tx = create_spend_transaction(wallet, cs, 2050, 0, SECP256k1PublicKey(keys.pks[5]), SECP256k1PublicKey(keys.pks[1]))
            size = len(tx.serialize())
            ck.case(('dust',), kind='dust/2100-outputs', sample={'dust_outputs': k, 'amount': 2050, 'tx_bytes': size})
            try:
                C.validate_non_coinbase_transaction_by_itself(tx)
            except Exception:
                ck.violation('spend-needs-more-inputs-than-fit', 'with 2,100 one-unit outputs a request for 2,050 returns a '
                             '%d-byte transaction that fails validation (neither of the two outcomes the property allows)' % size,
                             {'dust': k, 'amount': 2050})
        except Exception as e:
            ck.case(('dust',), kind='dust/refused', sample={'dust': str(e)})
    if r.ok:
        outs = model.run_batch(reqs)
        for (want, rp), o in zip(wants, outs):
            got = []
            for e in o:
                if e[0] == 1:
                    got.append([1, e[1], e[2], None if e[3][0] == 0 else e[3][1]])
                else:
                    got.append([0, None])
            if got != want:
                ck.disagree('create_spend_transaction vs model create_spend (selection / change / failure)', dict(rp, model=repr(got)[:300], impl=repr(want)[:300]))
        ck.extra['traces_validated_against_impl'] = sum(len(w[0]) for w in wants)
    return ck.finish()


def replay(path):
    d = json.load(open(path))
    print(json.dumps(d, indent=1)[:3000])
    print('re-run with: VERIF_SEED=%d ./check C14 --tier %s' % (d.get('seed', 0), d.get('tier', 'quick')))
    return 1
