#!/bin/bash
# builds the Coq development (full .vo build) and the extracted OCaml model driver; offline.
set -e
cd "$(dirname "$0")"
exec /venv/bin/python harness/build.py --setup
