#!/bin/bash
# usage: tools/seedtest.sh <patch.diff> <Cnn> [<Cnn> ...]   -- applies the patch to /repo, runs the checks, reverts
patch="$(realpath "$1")"; shift
cd /verif
if ! git -C /repo diff --quiet; then echo "/repo is dirty"; exit 2; fi
git -C /repo apply "$patch" || { echo "patch does not apply"; exit 2; }
trap 'git -C /repo checkout -- . ; git -C /repo clean -fdq -- skepticoin' EXIT
for p in "$@"; do
  out=$(./check "$p" --tier "${TIER:-quick}" 2>&1); rc=$?
  echo "== $p rc=$rc"; echo "$out" | grep -E "VIOLATION|KNOWN-FINDING|FAIL|ok|Traceback|Error" | head -8
done
