#!/usr/bin/env python3
"""regenerates MANIFEST.json from the table below (kept in one place so that it stays valid)"""
import json, os
HERE = os.path.dirname(os.path.dirname(os.path.abspath(__file__)))
props = [json.loads(l) for l in open(os.path.join(HERE, 'properties.jsonl'))]

COMMON_TB = ("Coq 8.16.1 kernel/coqc (vm_compute for closed witnesses, no native_compute); axioms as printed by Print Assumptions "
             "(copied into the evidence on every run); the translator or correspondence harness named in 'technique'; "
             "see DESIGN.md section 9")

CHECKS = {
 'C16': dict(
   text="Theorems over the definitions regenerated from /repo on every run (get_block_subsidy, validate_sashimi_range, "
        "params.py constants): value formula, antitone, zero from 31.5M, positive before, total over all heights = "
        "2,099,999,986,350,000 = MAX_SASHIMI = validator limit; all heights, no sweep. Proof is the right level: the "
        "quantifier is every height and the function is three lines of integer arithmetic.",
   note="Translator (Python ast -> Gallina) for the two functions and evaluation of params.py are trusted; if a function "
        "leaves the translatable fragment the check falls back to behavioural comparison against the documented formula "
        "and says so. docs/params.md is compared with the constants by regex.",
   technique="Coq proof over regenerated definitions (translator) + bridge lemmas; boundary/sweep search for a failing height",
   design="6/C16"),
}

def main():
    checks = []
    for p in props:
        c = CHECKS.get(p['id'])
        if not c:
            continue
        checks.append({
            'property_id': p['id'],
            'quick_cmd': './check %s --tier quick' % p['id'],
            'thorough_cmd': './check %s --tier thorough' % p['id'],
            'evidence_file': '/verif/evidence/%s.json' % p['id'],
            'replay_cmd_template': './check replay --replay {path}',
            'engine': 'coq+harness',
            'level_claimed': {'category': c.get('category', 'proof'), 'text': c['text'], 'design_ref': c['design']},
            'level_note': c['note'] + ' Trusted base: ' + COMMON_TB,
            'technique': c['technique'],
        })
    na = [{'property_id': p['id'], 'reason': NA.get(p['id'], 'check not built yet (work in progress; DESIGN.md section 6 describes the plan)')}
          for p in props if p['id'] not in CHECKS]
    m = {
        'version': 1,
        'setup_cmd': './setup.sh',
        'hooks': {'guard': 'SKEPTICOIN_VERIF',
                  'enable': 'no source hooks: every check drives /repo from outside by run-time attribute patching; the guard name is reserved and unused',
                  'baseline_off_cmd': 'cd /repo && /venv/bin/python -m pytest -ra -q -p no:cacheprovider --timeout=900 --continue-on-collection-errors',
                  'source_commits': [], 'add_only': True},
        'engines': [{'name': 'coq+harness', 'path': '/verif/check',
                     'serves_properties': [c['property_id'] for c in checks],
                     'kind_free_text': 'Coq 8.16 development (model, proofs, property theorems) rebuilt against definitions regenerated from /repo; extracted OCaml model driven by a Python correspondence harness importing /repo'}],
        'checks': checks,
        'notes': 'see DESIGN.md; known_findings.json lists recorded findings and fixed defects',
        'not_applicable': na,
    }
    json.dump(m, open(os.path.join(HERE, 'MANIFEST.json'), 'w'), indent=1)
    print('checks:', [c['property_id'] for c in checks])

NA = {}
if __name__ == '__main__':
    main()
