#!/usr/bin/env python3
"""regenerates MANIFEST.json from the table below (kept in one place so that it stays valid)"""
import json, os
HERE = os.path.dirname(os.path.dirname(os.path.abspath(__file__)))
props = [json.loads(l) for l in open(os.path.join(HERE, 'properties.jsonl'))]

COMMON_TB = ("Coq 8.16.1 kernel/coqc (vm_compute for closed witnesses, no native_compute); axioms as printed by Print Assumptions "
             "(copied into the evidence on every run); the translator or correspondence harness named in 'technique'; "
             "see DESIGN.md section 9")

CHECKS = {
 'C07': dict(
   text="Theorems over the Gallina codec model (VLQ, lists, 10 consensus types): round trip for every well-formed value with any "
        "trailing bytes, canonicity for EVERY byte string (decoding succeeds => re-encoding ++ rest = input), decoded values are "
        "well formed, ids cached at decode time = hash of the canonical encoding, encoders injective; plus the refutation theorem "
        "for the pre-fix lenient VLQ decoder. Unbounded in sizes. Wire messages (header + 7 messages) are tied by correspondence "
        "only (round trip; their decoders ignore version/reserved bytes by design).",
   note="The model is hand-written; the tie is a differential check of every decoder/encoder of /repo against the extracted model "
        "(random well-formed values, trailing data, 8-16 byte-level mutations each, all VLQ strings of <= 2/3 bytes), field by "
        "field. sha256d is an oracle (transcript).",
   technique="Coq proof over hand model + extracted-model correspondence (differential) on all codecs; property oracle re-encode==consumed",
   design="6/C07"),
 'C11': dict(
   text="Theorem C11_spec: for every list of read chunks the frames delivered by the model of MessageReceiver.receive, and the point "
        "and kind of refusal, equal those of the declarative stream grammar applied to the concatenation; corollary: any two "
        "chunkings of the same stream behave identically. Unbounded in stream length and number/position of cuts.",
   note="Hand model tied to the real MessageReceiver by running both on every 1-, 2-, 3-way and byte-wise cut of generated short "
        "streams (valid, wrong magic, over-limit length incl. sign-bit lengths, partial tail) with the real and a small patched "
        "size limit; observables: frames, refusal kind, residual receiver state.",
   technique="Coq refinement proof (receiver refines stream grammar) + exhaustive 2/3-way cut correspondence against the real receiver",
   design="6/C11"),
 'C17': dict(
   text="Theorems: in the free (symbolic) hash algebra the root determines the ordered list for all non-empty lists (no premise); "
        "transferred to any pairing function that is injective and domain-separated from leaf values (explicit premises; necessity of "
        "separation recorded as a theorem); every inclusion proof built from the tree hashes to the root and contains entry i at "
        "index i, for every list and position.",
   note="Hash idealisations are hypotheses of the theorems, not axioms. Hand model tied to merkletree.py by comparing root, tree "
        "shape and proofs for all lengths 1..33 (thorough ..80), all positions, lists with repeated entries, via sha256d oracle "
        "transcripts (a model hash query the code never made is a disagreement).",
   technique="Coq proof (symbolic hash + interpretation lemma; proof soundness by tree invariant) + extracted-model correspondence",
   design="6/C17"),
 'C16': dict(
   text="Theorems over the definitions regenerated from /repo on every run (get_block_subsidy, validate_sashimi_range, "
        "params.py constants): value formula, antitone, zero from 31.5M, positive before, total over all heights = "
        "2,099,999,986,350,000 = MAX_SASHIMI = validator limit; all heights, no sweep. Proof is the right level: the "
        "quantifier is every height and the function is three lines of integer arithmetic.",
   note="Translator (Python ast -> Gallina) for the two functions and evaluation of params.py are trusted; if a function "
        "leaves the translatable fragment the check falls back to behavioural comparison against the documented formula "
        "and says so. docs/params.md is compared with the constants by regex.",
   technique="Coq proof over regenerated definitions (translator) + bridge lemmas; boundary/sweep search for a failing height",
   design="6/C16"),
}

def main():
    checks = []
    for p in props:
        c = CHECKS.get(p['id'])
        if not c:
            continue
        checks.append({
            'property_id': p['id'],
            'quick_cmd': './check %s --tier quick' % p['id'],
            'thorough_cmd': './check %s --tier thorough' % p['id'],
            'evidence_file': '/verif/evidence/%s.json' % p['id'],
            'replay_cmd_template': './check replay --replay {path}',
            'engine': 'coq+harness',
            'level_claimed': {'category': c.get('category', 'proof'), 'text': c['text'], 'design_ref': c['design']},
            'level_note': c['note'] + ' Trusted base: ' + COMMON_TB,
            'technique': c['technique'],
        })
    na = [{'property_id': p['id'], 'reason': NA.get(p['id'], 'check not built yet (work in progress; DESIGN.md section 6 describes the plan)')}
          for p in props if p['id'] not in CHECKS]
    m = {
        'version': 1,
        'setup_cmd': './setup.sh',
        'hooks': {'guard': 'SKEPTICOIN_VERIF',
                  'enable': 'no source hooks: every check drives /repo from outside by run-time attribute patching; the guard name is reserved and unused',
                  'baseline_off_cmd': 'cd /repo && /venv/bin/python -m pytest -ra -q -p no:cacheprovider --timeout=900 --continue-on-collection-errors',
                  'source_commits': [], 'add_only': True},
        'engines': [{'name': 'coq+harness', 'path': '/verif/check',
                     'serves_properties': [c['property_id'] for c in checks],
                     'kind_free_text': 'Coq 8.16 development (model, proofs, property theorems) rebuilt against definitions regenerated from /repo; extracted OCaml model driven by a Python correspondence harness importing /repo'}],
        'checks': checks,
        'notes': 'see DESIGN.md; known_findings.json lists recorded findings and fixed defects',
        'not_applicable': na,
    }
    json.dump(m, open(os.path.join(HERE, 'MANIFEST.json'), 'w'), indent=1)
    print('checks:', [c['property_id'] for c in checks])

NA = {}
if __name__ == '__main__':
    main()
