#!/usr/bin/env python3
"""regenerates MANIFEST.json from the table below (kept in one place so that it stays valid)"""
import json, os
HERE = os.path.dirname(os.path.dirname(os.path.abspath(__file__)))
props = [json.loads(l) for l in open(os.path.join(HERE, 'properties.jsonl'))]

COMMON_TB = ("Coq 8.16.1 kernel/coqc (vm_compute for closed witnesses, no native_compute); axioms as printed by Print Assumptions "
             "(copied into the evidence on every run); the translator or correspondence harness named in 'technique'; "
             "see DESIGN.md section 9")

CHECKS = {
 'C01': dict(
   text="Theorems over the Gallina model of CoinState.add_block (consensus.py validation by itself + in coinstate, balances.py, "
        "coinstate.py), for ALL hash/signature functions, parameters, states and candidate blocks: acceptance above the "
        "checkpoint horizon implies every non-reward input is unspent at the block's parent, carries a real signature verifying "
        "under the spent output's key over the transaction with signatures blanked, and no reference repeats in the block "
        "(C01_accept_sound); the signed encoding determines all references and outputs (C01_signed_message_complete); on every "
        "chain of every reachable state the stored unspent set is the successful replay of that chain (C01_chain_replay). C01_accept_sound_by_position: the same for every block POSITIONED above the horizon (parent height + 1), whatever height it declares (after fix 456af3d).",
   note="Hand model tied by a differential check: generated block trees x 20 spend-rule mutants (re-assembled with valid merkle "
        "root, evidence, proof of work) through the real add_block and the extracted model, plus an independent property oracle "
        "(harness/spec.py). 'Prior state left exactly as it was' is a tie obligation (object digests). Crypto = oracles.",
   technique="Coq proof (inversion of validation + replay invariant) + extracted-model correspondence on mutant blocks",
   design="6/C01"),
 'C02': dict(
   text="Theorems: what acceptance implies about values (C02_rules), the unspent total after an accepted block is at most the "
        "parent's plus that height's subsidy (C02_step), along every validated history the unspent total at every block is "
        "bounded by the cumulative subsidy (C02_supply), and with the constants regenerated from params.py never exceeds "
        "2,099,999,986,350,000 (C02_max, via C16). C02_step_by_position: the step bound under the position premise. Unbounded Python integers = N/Z.",
   note="Same tie as C01 with the value mutants (reward +1, fee +1, fee twice, fee from another fork's state, zero, over-limit, "
        "2^64-1, overspend) and halving boundaries reached with a patched test halving interval.",
   technique="Coq proof (value conservation invariant over map folds) + extracted-model correspondence on mutant blocks",
   design="6/C02"),
 'C03': dict(
   text="Theorems for every hash function, block tree and parent-before-child arrival order: the unspent set stored at a block "
        "is the replay of its ancestors; independent of arrival order and of competing forks; later arrivals leave earlier "
        "entries untouched; per-key balances are exactly the unspent set grouped by key (value = sum, references = the "
        "references) under an explicit, necessary freshness premise on created output keys.",
   note="Tie: real CoinState / PublicKeyBalances / Wallet.get_balance against extracted model and an independent replay, all "
        "parent-first orders for small trees, balance queries interleaved with arrivals, every intermediate CoinState object "
        "re-digested (snapshot immutability is a tie obligation, not a theorem).",
   technique="Coq proof (state invariant by induction on arrivals; balance/unspent consistency) + correspondence over arrival orders",
   design="6/C03"),
 'C04': dict(
   text="Theorems for every hash function, block tree and parent-before-child arrival order: head = earliest-arrived block of "
        "greatest height; tips = stored blocks without stored children; by-height index at each block = its ancestors and itself; "
        "forks() returns the last common ancestor with the active chain. Node level (known finding J): the model's found-block handler never loses a served block and agrees with the shipped snapshot-based handler when nothing was adopted in between; otherwise the shipped one drops adopted blocks (C04_stale_snapshot_drops_adopted_block_refuted).",
   note="Tie: real add_block_no_validation / forks() vs extracted model and vs the statement recomputed from the arrival list, "
        "exhaustively for ALL parent-choice sequences up to 6 (thorough 7) arrivals, random beyond.",
   technique="Coq proof (invariant over admissible arrivals, std++ gmap) + exhaustive small-scope correspondence",
   design="6/C04"),
 'C05': dict(
   text="Theorems: acceptance implies id below target, the prescribed target, height = parent+1 = reward height, time window, "
        "evidence = recomputed evidence (C05_header_rules; C05_header_rules_by_position under 'parent height + 1 above the horizon'; C05_height_is_position_everywhere: on either side of the horizon an accepted block's height is its parent's plus one -- fix 456af3d); byte comparison = numeric comparison; the prescribed target is the "
        "parent's off a boundary and min(2^256-1, T*elapsed/span) integer-exact on one (C05_retarget_spec); bridge lemmas tie the "
        "model to the source text of calculate_new_target / select_block_height regenerated on every run, and the shipped "
        "constants are 10,080 / 1,209,600 / 30; the chain sampler always returns exactly the requested bytes.",
   note="Tie: translator + bridge lemmas for the arithmetic; differential check with header-rule mutants on chains crossing "
        "retarget boundaries on both sides of forks (test period 3-6), incl. targets derived from the other branch, evidence sampled from a sibling branch, chains with a checkpoint horizon inside them and blocks that merely declare a height below it, every rejected block offered twice; function level: calculate_new_target / select_block_height / validate_proof_of_work on the whole domain of the statement (every bit length of previous target incl. the top bit, elapsed 0 .. 2^64-1, id equal to / next to the target) against the statement's formula and the extracted model.",
   technique="Coq proof + translator bridge lemmas + extracted-model correspondence on header mutants",
   design="6/C05"),
 'C06': dict(
   text="Value-level theorems under explicit injectivity premises for scrypt/blake2/sha256d: an acceptable block is determined by "
        "any two of {summary, evidence, transaction list}; same id implies same content; different accepted byte strings are "
        "different blocks. Byte level: every single-bit flip and truncation of sampled valid blocks is enumerated exhaustively on "
        "implementation and model (the multi-component shifts caused by variable-length prefixes are not covered by a theorem).",
   note="partial: the for-all-blocks byte-level statement is proved only for alterations confined to one component; the rest is "
        "exhaustive enumeration per sampled block (5 blocks quick, 40 thorough).",
   technique="Coq proof (injectivity premises) + exhaustive per-block bit-flip/truncation enumeration on impl and extracted model",
   design="6/C06"),
 'C18': dict(
   text="Theorems over the checkpoint table and horizon regenerated from cheating.py: at every listed height a block passes "
        "in-state validation only if its id is the listed one, and if it has that id and sits at that position it passes; an accepted block's height is its parent's plus one on either side of the horizon, a block merely DECLARING a height below the horizon is rejected (C18_accepted_height_is_position, C18_declared_height_off_position_rejected; the shipped shortcut is refuted: C18_declared_height_shortcut_refuted, fix 456af3d); table well-formed; regenerated genesis bytes decode canonically to a "
        "height-0 block paying 10^9. Recorded real blocks: executed with the real scrypt (ids, re-encoding, full validation, also "
        "while a competing branch is the head) -- execution of finite data, not a theorem.",
   note="partial by nature for the real-network clause (no Gallina scrypt). Tie: all 327 heights x right/wrong ids through the "
        "real validate_block_in_coinstate and the model; generated chains under a test horizon with fully valid forks at "
        "checkpointed heights; blocks declaring heights 1..163000 on the real head under the shipped constants.",
   technique="Coq proof over regenerated table + execution of recorded blocks with real scrypt + extracted-model correspondence",
   design="6/C18"),
 'C08': dict(
   text="Theorems over the model of blockstore.py (chain table, transaction_locator keyed by transaction hash, insert-or-ignore, "
        "foreign key on the parent, all-or-nothing batches, write buffer, read): for every block tree written in any batching with "
        "parents first and NO transaction shared between two written blocks, reading back yields exactly the written blocks with "
        "their transaction lists in order, by height, parents before children; flush = write; the full statement (forks sharing a "
        "pending transaction) is REFUTED for the faithful model -- the recorded finding.",
   note="partial: round trip proved under no_shared_tx only (the property's own quantifier includes the refuted case; known "
        "finding). SQLite is trusted; tie = real BlockStore on a scratch file, every batching for small trees, reopen after each "
        "flush, read_chain_from_disk, plus a two-thread probe (block buffered during a flush).",
   technique="Coq proof over relational model + refutation witness + correspondence against real SQLite store",
   design="6/C08"),
 'C09': dict(
   text="Theorems over the node model (handle_block_received with write buffer, rollback, flush, relay): between deliveries outside "
        "bulk download, only blocks passing by-itself validation, application and in-state validation enter; accepted blocks are "
        "stored and relayed exactly when they become head; duplicates are no-ops; a rejected block (orphan, structural defect, "
        "apply error, rule violation) changes nothing (state, rows, buffer, pool); each block relayed at most once per run.",
   note="Validators' verdicts are inputs of the model, computed by calling the real validators outside the handler; tie = real "
        "handler + ChainManager + real store in simnet, mutants of every kind, duplicates, orphans, fork switches, a torn-down "
        "bystander connection; observables after every delivery.",
   technique="Coq proof over node state machine + simulator correspondence (real handlers, real store) per delivery",
   design="6/C09"),
 'C10': dict(
   text="partial. Proved: locator heights exactly head-k / head-k^2, descending; get-blocks server replies with consecutive active-"
        "chain ids whose parent is genesis or an announced id on the active chain, progress on a match below the head, empty reply "
        "at/above the head; linear initial block download reaches the server's chain in ceil(missing/batch) rounds; at-most-once "
        "relay (C09/C13 theorems). Not proved: convergence of FORKED nodes under every interleaving (fairness, "
        "timers) -- explored on 2-3 real nodes in simnet with forked histories beyond the dense locator range, multiple inventory "
        "batches, all small topologies, seeded schedulers, then a transaction broadcast.",
   note="Liveness/convergence is exploration, not proof; real timers, threads, TCP back-pressure are outside the model.",
   technique="Coq proof of locator/server/relay lemmas + seeded-schedule exploration of real nodes in a simulator",
   design="6/C10"),
 'C12': dict(
   text="Theorems: every candidate assembled from the head and an admissible pool passes the node's own full validation once its "
        "id is below target (C12_assembly_valid: all hash/signature functions, parameters, states, pools, keys, nonces, clocks "
        "under the stated side conditions), the reward pays exactly subsidy + fees to the miner's key, timestamp > parent; "
        "adoption of a found block over the node model (served state, store, exactly one broadcast; head when it extends the head).",
   note="Side conditions of the assembly theorem are conditions on the caller (block fits, timestamp <= clock + 30): mining.py's "
        "max(now, parent+1) violates the last one when the clock is > 29 s behind the head (known finding). Tie: real MinerWatcher "
        "handlers in-process, candidate compared byte for byte with the extracted construct_block_for_mining.",
   technique="Coq proof (adoption) + differential check of block assembly against extracted model and the node's own validation",
   design="6/C12"),
 'C13': dict(
   text="Theorems over the node model: PoolInv (every pending tx valid at the head, pairwise no shared output, no duplicate) is "
        "preserved by every step for every interleaving of submissions and head changes incl. reorganisations; admission requires "
        "by-itself validity, validity at head and no conflict; after a head change the pool is exactly the still-valid sub-list. Two threads and one lock (small-step interleavings): with admission and head installation as critical sections every complete interleaving equals a merge of the sections run sequentially and keeps PoolInv (C13_locked_threads_linearise / _preserve_invariant); validation outside the critical section is refuted (C13_unlocked_admission_refuted).",
   note="tx validity at a head and conflicts are oracle inputs computed with the real validators; tie = real ChainManager and "
        "handlers in simnet under random interleavings incl. fork switches; independent validity oracle after every event; three two-thread probes hold the admitting thread after each validation step while another thread installs a conflicting head.",
   technique="Coq invariant proof over node state machine + simulator correspondence with independent pool oracle",
   design="6/C13"),
 'C14': dict(
   text="Theorems over the selection model of create_spend_transaction: exact amount, exact change iff non-zero, inputs distinct / "
        "owned / unused, greedy minimal prefix; failure iff unused holdings < amount + fee and then nothing changes; no reference "
        "selected twice across any sequence, also when the ledger view differs at every request (C14_sequences_across_head_changes; a record pruned to the head is refuted); the pre-fix behaviour refuted. Validity of the signed transaction is tied by the "
        "node's own validation in the check (needs verify(sign) = true).",
   note="partial: consensus validity of the returned transaction is checked, not proved; known finding: more inputs than fit in "
        "one transaction.",
   technique="Coq proof over selection model + differential check against real wallet code and the node's transaction validation",
   design="6/C14"),
 'C15': dict(
   text="Theorems: key partition invariant, no key handed out twice unless restored (every op sequence), atomic replacement for "
        "every chunking and every crash prefix (in-place variant refuted); the exhausted-wallet restore refuted (recorded finding).",
   note="JSON dump/load is compared, not modelled; crash = process crash (unflushed buffers lost), rename atomicity assumed. Tie: "
        "real Wallet ops vs extracted model; save_wallet traced with on-disk state captured at every write/close/rename step.",
   technique="Coq proof over wallet/key/file models + exhaustive crash-point enumeration of traced real saves",
   design="6/C15"),
 'C19': dict(
   text="Theorems over the peer-book model: no key both connected and disconnected after any event sequence; attempt only after "
        "min(first*2^k, max) since the previous one and never beyond the failure limit (decision-level and trace-level); own "
        "address detected, dropped, never retried; peers file <= cap, newest first, no duplicate; shipped constants 10/1800/2880 "
        "from the regenerated parameters.",
   note="Trace-level back-off assumes an already-disconnected outgoing object is not disconnected again (the real disconnect "
        "fails at selector.unregister first); the unguarded model counter-example is kept. Tie: real managers in simnet over 5 "
        "addresses incl. duplicate keys, self-connection, refused connections; peers.json inspected.",
   technique="Coq invariant proofs over peer-book model + simulator correspondence of the real NetworkManager",
   design="6/C19"),
 'C20': dict(
   text="partial. Theorems over the dispatch model: for every byte string read from a peer the shared state afterwards is exactly "
        "the result of the successfully handled frames; every invariant preserved by the handlers' success path survives arbitrary "
        "input; a malformed first frame changes nothing and closes only that connection; no list decode yields more elements than bytes received and a declared count above the remaining input is rejected (C20_protocol_lists_bounded).",
   note="Which Python/stdlib/ecdsa/sqlite operations raise, and that all of it is caught, is observed by bulk adversarial input "
        "(corrupted/truncated/spliced traffic, unknown types, protocol order, invalid objects, random bytes, declared counts up to 2^63 under a 4 s stall guard) with bystanders, not "
        "proved.",
   technique="Coq proof over dispatch model + bulk adversarial sessions against a real node with bystander peers",
   design="6/C20"),
 'C07': dict(
   text="Theorems over the Gallina codec model (VLQ, lists, 10 consensus types): round trip for every well-formed value with any "
        "trailing bytes, canonicity for EVERY byte string (decoding succeeds => re-encoding ++ rest = input), decoded values are "
        "well formed, ids cached at decode time = hash of the canonical encoding, encoders injective; plus the refutation theorem "
        "for the pre-fix lenient VLQ decoder. Unbounded in sizes. Wire messages (header + 7 messages) are tied by correspondence "
        "only (round trip; their decoders ignore version/reserved bytes by design).",
   note="The model is hand-written; the tie is a differential check of every decoder/encoder of /repo against the extracted model "
        "(random well-formed values, trailing data, 8-16 byte-level mutations each, all VLQ strings of <= 2/3 bytes), field by "
        "field. sha256d is an oracle (transcript).",
   technique="Coq proof over hand model + extracted-model correspondence (differential) on all codecs; property oracle re-encode==consumed",
   design="6/C07"),
 'C11': dict(
   text="Theorem C11_spec: for every list of read chunks the frames delivered by the model of MessageReceiver.receive, and the point "
        "and kind of refusal, equal those of the declarative stream grammar applied to the concatenation; corollary: any two "
        "chunkings of the same stream behave identically. Unbounded in stream length and number/position of cuts. "
        "C11_send_receive / C11_send_receive_prefix: the byte stream the sender model (send_message + handle_can_send) makes of "
        "any list of payloads within the size limit is delivered by the receiver as exactly that list, in order, with no refusal "
        "and no pending byte, for every fragmentation; every prefix of the connection has delivered a prefix of the list; "
        "C11_oversize_refused shows the size premise is necessary. C11_sender_drained / _progress / _sender_receiver_prefix / "
        "_sender_receiver_complete: the same for the sender's buffer/backlog/writability state machine under every interleaving "
        "of send_message calls and socket writes of any sizes.",
   note="Sending side tied by driving the real ConnectedRemotePeer.send_message/handle_can_send (stub socket taking 1..all bytes "
        "per send) and comparing the bytes written with the extracted send_stream. "
        "Hand model tied to the real MessageReceiver by running both on every 1-, 2-, 3-way and byte-wise cut of generated short "
        "streams (valid, wrong magic, over-limit length incl. sign-bit lengths, partial tail) with the real and a small patched "
        "size limit; observables: frames, refusal kind, residual receiver state.",
   technique="Coq refinement proof (receiver refines stream grammar; sender composed with receiver is the identity on payload lists) + exhaustive 2/3-way cut correspondence against the real receiver + scripted partial-send correspondence against the real sender",
   design="6/C11"),
 'C17': dict(
   text="Theorems: in the free (symbolic) hash algebra the root determines the ordered list for all non-empty lists (no premise); "
        "transferred to any pairing function that is injective and domain-separated from leaf values (explicit premises; necessity of "
        "separation recorded as a theorem); every inclusion proof built from the tree hashes to the root and contains entry i at "
        "index i, for every list and position.",
   note="Hash idealisations are hypotheses of the theorems, not axioms. Hand model tied to merkletree.py by comparing root, tree "
        "shape and proofs for all lengths 1..33 (thorough ..80), all positions, lists with repeated entries, via sha256d oracle "
        "transcripts (a model hash query the code never made is a disagreement).",
   technique="Coq proof (symbolic hash + interpretation lemma; proof soundness by tree invariant) + extracted-model correspondence",
   design="6/C17"),
 'C16': dict(
   text="Theorems over the definitions regenerated from /repo on every run (get_block_subsidy, validate_sashimi_range, "
        "params.py constants): value formula, antitone, zero from 31.5M, positive before, total over all heights = "
        "2,099,999,986,350,000 = MAX_SASHIMI = validator limit; all heights, no sweep. Proof is the right level: the "
        "quantifier is every height and the function is three lines of integer arithmetic.",
   note="Translator (Python ast -> Gallina) for the two functions and evaluation of params.py are trusted; if a function "
        "leaves the translatable fragment the check falls back to behavioural comparison against the documented formula "
        "and says so. docs/params.md is compared with the constants by regex.",
   technique="Coq proof over regenerated definitions (translator) + bridge lemmas; boundary/sweep search for a failing height",
   design="6/C16"),
}

def main():
    checks = []
    for p in props:
        c = CHECKS.get(p['id'])
        if not c:
            continue
        checks.append({
            'property_id': p['id'],
            'quick_cmd': './check %s --tier quick' % p['id'],
            'thorough_cmd': './check %s --tier thorough' % p['id'],
            'evidence_file': '/verif/evidence/%s.json' % p['id'],
            'replay_cmd_template': './check replay --replay {path}',
            'engine': 'coq+harness',
            'level_claimed': {'category': c.get('category', 'proof'), 'text': c['text'], 'design_ref': c['design']},
            'level_note': c['note'] + ' Trusted base: ' + COMMON_TB,
            'technique': c['technique'],
        })
    na = [{'property_id': p['id'], 'reason': NA.get(p['id'], 'check not built yet (work in progress; DESIGN.md section 6 describes the plan)')}
          for p in props if p['id'] not in CHECKS]
    m = {
        'version': 1,
        'setup_cmd': './setup.sh',
        'hooks': {'guard': 'SKEPTICOIN_VERIF',
                  'enable': 'no source hooks: every check drives /repo from outside by run-time attribute patching; the guard name is reserved and unused',
                  'baseline_off_cmd': 'cd /repo && /venv/bin/python -m pytest -ra -q -p no:cacheprovider --timeout=900 --continue-on-collection-errors',
                  'source_commits': [], 'add_only': True},
        'engines': [{'name': 'coq+harness', 'path': '/verif/check',
                     'serves_properties': [c['property_id'] for c in checks],
                     'kind_free_text': 'Coq 8.16 development (model, proofs, property theorems) rebuilt against definitions regenerated from /repo; extracted OCaml model driven by a Python correspondence harness importing /repo'}],
        'checks': checks,
        'notes': 'see DESIGN.md; known_findings.json lists recorded findings and fixed defects',
        'not_applicable': na,
    }
    json.dump(m, open(os.path.join(HERE, 'MANIFEST.json'), 'w'), indent=1)
    print('checks:', [c['property_id'] for c in checks])

NA = {}
if __name__ == '__main__':
    main()
