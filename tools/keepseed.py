#!/usr/bin/env python3
"""Confirm a seeded change independently and keep it under /verif/seeded/<id>/.
usage: [SEED_SRC=/tmp/seed2/out SEED_PREFIX=r2] tools/keepseed.py C11 m1
Runs in a scratch worktree of /repo's HEAD: patch applies; full test-suite passes with it; demo exits 1 with it and 0
without it.  The worktree is removed afterwards."""
import json, os, shutil, subprocess, sys, tempfile
pid, mk = sys.argv[1], sys.argv[2]
src = os.path.join(os.environ.get('SEED_SRC', '/tmp/seed/out'), pid)
prefix = os.environ.get('SEED_PREFIX', '')
patch = os.path.join(src, mk + '.diff'); demo = os.path.join(src, mk + '_demo.py'); meta = os.path.join(src, mk + '.json')
wt = tempfile.mkdtemp(prefix='seedverify-')
os.rmdir(wt)
def sh(cmd, cwd=None, timeout=1200):
    p = subprocess.run(cmd, shell=True, cwd=cwd, stdout=subprocess.PIPE, stderr=subprocess.STDOUT, text=True, timeout=timeout)
    return p.returncode, p.stdout
res = {}
try:
    rc, out = sh('git -C /repo worktree add -q --detach %s HEAD' % wt); assert rc == 0, out
    rc, out = sh('/venv/bin/python %s %s' % (demo, wt)); res['demo_without_change_rc'] = rc
    rc, out = sh('git apply %s' % patch, cwd=wt); res['patch_applies'] = (rc == 0)
    if rc != 0: print(out)
    else:
        rc, out = sh('/venv/bin/python %s %s' % (demo, wt)); res['demo_with_change_rc'] = rc; res['demo_output_tail'] = out[-600:]
        for attempt in range(3):
            rc, out = sh("unshare -rn bash -c 'ip link set lo up 2>/dev/null; /venv/bin/python -m pytest -q -p no:cacheprovider --timeout=900 2>&1 | tail -3'", cwd=wt)
            res['tests_with_change'] = out.strip().split('\n')[-1]
            if ' passed' in out and 'failed' not in out: break
finally:
    sh('git -C /repo worktree remove --force %s' % wt); shutil.rmtree(wt, ignore_errors=True)
ok = res.get('patch_applies') and res.get('demo_without_change_rc') == 0 and res.get('demo_with_change_rc') == 1 and '64 passed' in res.get('tests_with_change', '')
print(json.dumps(res, indent=1)); print('CONFIRMED' if ok else 'NOT CONFIRMED')
if ok:
    dst = '/verif/seeded/%s-%s%s' % (pid, prefix, mk); os.makedirs(dst, exist_ok=True)
    shutil.copy(patch, os.path.join(dst, 'patch.diff')); shutil.copy(demo, os.path.join(dst, 'demo.py'))
    m = json.load(open(meta))
    m['confirmed'] = {'ran': ['git worktree of /repo HEAD (%s)' % subprocess.run('git -C /repo rev-parse --short HEAD', shell=True, stdout=subprocess.PIPE, text=True).stdout.strip(),
                             'demo.py <clean worktree> -> exit 0', 'git apply patch.diff', 'demo.py <patched worktree> -> exit 1',
                             'pytest (network namespace isolated) -> ' + res['tests_with_change']], **{k: v for k, v in res.items() if k != 'demo_output_tail'}}
    json.dump(m, open(os.path.join(dst, 'meta.json'), 'w'), indent=1)
sys.exit(0 if ok else 1)
