#!/usr/bin/env python3
"""usage: tools/seedtable.py <matrix log> -> markdown table (seed | check | result | summary) for DESIGN.md section 11.4"""
import json, os, sys
rows = []
for line in open(sys.argv[1]):
    parts = line.split(None, 2)
    if len(parts) < 3:
        continue
    name, pid, res = parts[0], parts[1], parts[2].strip()
    try:
        summ = json.load(open('/verif/seeded/%s/meta.json' % name))['summary']
    except Exception:
        summ = ''
    rows.append('| %s | %s | %s | %s |' % (name, pid, res, summ.replace('|', '/')[:150]))
print('| seed | check (quick) | result | change (abridged) |\n|---|---|---|---|')
print('\n'.join(rows))
