#!/bin/bash
# applies each behaviour-preserving patch to /repo and runs ALL quick checks; any VIOLATION is a false alarm
cd /verif
for patch in "$@"; do
  if ! git -C /repo diff --quiet; then echo "/repo dirty"; exit 2; fi
  if ! git -C /repo apply "$patch"; then echo "$(basename $patch) DOES-NOT-APPLY"; continue; fi
  out=$(for c in C01 C02 C03 C04 C05 C06 C07 C08 C09 C10 C11 C12 C13 C14 C15 C16 C17 C18 C19 C20; do echo $c; done | xargs -P 6 -I{} sh -c './check {} --tier quick 2>&1 | grep -E "VIOLATION|FAIL|Traceback" | sed "s/^/{}: /" | head -3')
  git -C /repo checkout -- . ; git -C /repo clean -fdq -- skepticoin
  if [ -z "$out" ]; then echo "$(basename $patch) silent"; else echo "$(basename $patch) ALARM"; echo "$out" | head -12; fi
done
