#!/usr/bin/env python3
"""Mechanical mutation sweep: operator-level mutants of the anchored source files, filtered by the repository's own test
suite, then run against the quick checks of the properties anchored in the mutated file (cheapest first, stop at the
first VIOLATION).  Complements the agent-written seeds of seeded/: no human or agent picks the sites.

usage: tools/mutsweep.py gen  <outdir> [--seed N] [--scale F]     # writes <outdir>/mutants.json + <outdir>/m/<id>.py
       tools/mutsweep.py run  <outdir> <lane> <nlanes>            # one lane; needs <outdir>/lane<lane>/{repo,verif}
       tools/mutsweep.py report <outdir>

Everything lives outside /repo and /verif (scratch worktrees), nothing is committed to /repo.
"""
import ast
import copy
import fcntl
import json
import os
import random
import subprocess
import sys
import time

REPO = "/repo"
VERIF = "/verif"

QUOTA = {   # sampled mutants per file (before the test-suite filter)
    "skepticoin/consensus.py": 44, "skepticoin/datatypes.py": 20, "skepticoin/coinstate.py": 20,
    "skepticoin/balances.py": 10, "skepticoin/serialization.py": 12, "skepticoin/merkletree.py": 10,
    "skepticoin/pow.py": 8, "skepticoin/hash.py": 3, "skepticoin/params.py": 6, "skepticoin/signing.py": 8,
    "skepticoin/blockstore.py": 14, "skepticoin/wallet.py": 24, "skepticoin/mining.py": 12,
    "skepticoin/networking/manager.py": 26, "skepticoin/networking/remote_peer.py": 36,
    "skepticoin/networking/local_peer.py": 20, "skepticoin/networking/messages.py": 14,
    "skepticoin/networking/disk_interface.py": 8, "skepticoin/networking/params.py": 4,
    "skepticoin/scripts/utils.py": 8, "skepticoin/scripts/receive.py": 2,
}

COST = {"C01": 52, "C02": 34, "C03": 11, "C04": 24, "C05": 23, "C06": 152, "C07": 12, "C08": 22, "C09": 11, "C10": 79,
        "C11": 5, "C12": 8, "C13": 8, "C14": 9, "C15": 3, "C16": 10, "C17": 4, "C18": 9, "C19": 3, "C20": 3}


def anchors():
    m = {}
    for line in open(os.path.join(VERIF, "properties.jsonl")):
        p = json.loads(line)
        a = p["anchors"]
        if isinstance(a, str):
            a = ast.literal_eval(a)
        for f in a["files"]:
            m.setdefault(f, []).append(p["id"])
    return m


SWAP_CMP = {ast.Lt: ast.LtE, ast.LtE: ast.Lt, ast.Gt: ast.GtE, ast.GtE: ast.Gt, ast.Eq: ast.NotEq, ast.NotEq: ast.Eq,
            ast.In: ast.NotIn, ast.NotIn: ast.In, ast.Is: ast.IsNot, ast.IsNot: ast.Is}


class Sites(ast.NodeVisitor):
    """enumerate mutation sites; apply(k) performs the k-th on a copy"""

    def __init__(self):
        self.sites = []     # (kind, lineno, path-to-node as list of (field, index))
        self.stack = []
        self.skip = 0

    def generic_visit(self, node):
        for field, value in ast.iter_fields(node):
            if field in ("annotation", "returns", "decorator_list"):
                continue
            if isinstance(value, list):
                for i, item in enumerate(value):
                    if isinstance(item, ast.AST):
                        self.stack.append((field, i))
                        self.visit(item)
                        self.stack.pop()
            elif isinstance(value, ast.AST):
                self.stack.append((field, None))
                self.visit(value)
                self.stack.pop()

    def add(self, kind, node):
        if not self.skip:
            self.sites.append((kind, getattr(node, "lineno", 0), list(self.stack)))

    def visit_FunctionDef(self, node):
        if node.name in ("__repr__", "__str__", "__format__"):
            return
        self.generic_visit(node)

    def visit_Call(self, node):
        f = node.func
        name = f.attr if isinstance(f, ast.Attribute) else getattr(f, "id", "")
        base = getattr(getattr(f, "value", None), "id", "")
        if name in ("print", "debug", "info", "warning", "error", "exception", "human", "show_stats") or \
                base in ("logger", "logging"):
            self.skip += 1
            self.generic_visit(node)
            self.skip -= 1
            return
        self.generic_visit(node)

    def visit_Raise(self, node):
        self.add("raise->pass", node)
        self.skip += 1      # not the message text
        self.generic_visit(node)
        self.skip -= 1

    def visit_Compare(self, node):
        if len(node.ops) == 1 and type(node.ops[0]) in SWAP_CMP:
            self.add("cmp", node)
        self.generic_visit(node)

    def visit_BoolOp(self, node):
        self.add("boolop", node)
        self.generic_visit(node)

    def visit_UnaryOp(self, node):
        if isinstance(node.op, ast.Not):
            self.add("not-drop", node)
        self.generic_visit(node)

    def visit_BinOp(self, node):
        strs = [x for x in (node.left, node.right) if isinstance(x, ast.Constant) and isinstance(x.value, (str, bytes))]
        if isinstance(node.op, (ast.Add, ast.Sub)) and not strs:
            self.add("addsub", node)
        self.generic_visit(node)

    def visit_Constant(self, node):
        if isinstance(node.value, bool):
            self.add("bool", node)
        elif isinstance(node.value, int):
            self.add("int+1", node)
            self.add("int-1", node)

    def visit_Expr(self, node):
        if isinstance(node.value, ast.Constant):
            return  # docstring
        if isinstance(node.value, ast.Call):
            self.add("call->pass", node)
        self.generic_visit(node)

    def visit_If(self, node):
        if not isinstance(node.test, (ast.Compare, ast.BoolOp, ast.UnaryOp)):
            self.add("if-negate", node)
        self.generic_visit(node)

    def visit_Break(self, node):
        self.add("break->continue", node)

    def visit_Continue(self, node):
        self.add("continue->break", node)

    def visit_Return(self, node):
        if node.value is not None and isinstance(node.value, ast.Constant) and isinstance(node.value.value, bool):
            return self.generic_visit(node)
        self.generic_visit(node)

    def visit_Assert(self, node):
        self.add("assert->pass", node)
        self.generic_visit(node)


def resolve(tree, path):
    parent, field, idx = None, None, None
    node = tree
    for field_, idx_ in path:
        parent, field, idx = node, field_, idx_
        node = getattr(node, field_)
        if idx_ is not None:
            node = node[idx_]
    return parent, field, idx, node


def put(parent, field, idx, new):
    if idx is None:
        setattr(parent, field, new)
    else:
        getattr(parent, field)[idx] = new


def mutate(src, k):
    tree = ast.parse(src)
    s = Sites()
    s.visit(tree)
    kind, lineno, path = s.sites[k]
    parent, field, idx, node = resolve(tree, path)
    if kind == "cmp":
        node.ops = [SWAP_CMP[type(node.ops[0])]()]
    elif kind == "boolop":
        node.op = ast.Or() if isinstance(node.op, ast.And) else ast.And()
    elif kind == "not-drop":
        put(parent, field, idx, node.operand)
    elif kind == "addsub":
        node.op = ast.Sub() if isinstance(node.op, ast.Add) else ast.Add()
    elif kind == "bool":
        node.value = not node.value
    elif kind == "int+1":
        node.value = node.value + 1
    elif kind == "int-1":
        node.value = node.value - 1
    elif kind in ("raise->pass", "call->pass", "assert->pass"):
        put(parent, field, idx, ast.copy_location(ast.Pass(), node))
    elif kind == "if-negate":
        node.test = ast.UnaryOp(op=ast.Not(), operand=node.test)
    elif kind == "break->continue":
        put(parent, field, idx, ast.copy_location(ast.Continue(), node))
    elif kind == "continue->break":
        put(parent, field, idx, ast.copy_location(ast.Break(), node))
    ast.fix_missing_locations(tree)
    return ast.unparse(tree) + "\n"


def enclosing_function(src, lineno):
    best = ""
    for node in ast.walk(ast.parse(src)):
        if isinstance(node, (ast.FunctionDef, ast.ClassDef)) and node.lineno <= lineno <= node.end_lineno:
            best = (best + "." if best else "") + node.name if isinstance(node, ast.ClassDef) else \
                (best + "." if best else "") + node.name
    return best


CORE = ["skepticoin/consensus.py", "skepticoin/coinstate.py", "skepticoin/balances.py", "skepticoin/datatypes.py",
        "skepticoin/serialization.py", "skepticoin/merkletree.py", "skepticoin/pow.py", "skepticoin/hash.py",
        "skepticoin/signing.py", "skepticoin/blockstore.py", "skepticoin/wallet.py", "skepticoin/networking/manager.py",
        "skepticoin/params.py"]


NET = ["skepticoin/networking/remote_peer.py", "skepticoin/networking/local_peer.py", "skepticoin/networking/messages.py",
       "skepticoin/networking/disk_interface.py", "skepticoin/mining.py"]


def gen(outdir, seed, scale):
    rng = random.Random(seed)
    if scale < 0:       # every site of the core files (-1) or of the networking files (-2)
        chosen = CORE if scale == -1 else NET
        for f in list(QUOTA):
            QUOTA[f] = 10 ** 6 if f in chosen else 0
        scale = 1
    os.makedirs(os.path.join(outdir, "m"), exist_ok=True)
    out = []
    for f, quota in QUOTA.items():
        src = open(os.path.join(REPO, f)).read()
        s = Sites()
        s.visit(ast.parse(src))
        n = len(s.sites)
        base = ast.unparse(ast.parse(src)) + "\n"
        picks = sorted(rng.sample(range(n), min(n, int(quota * abs(scale) + 0.5))))
        lines = src.split("\n")
        for k in picks:
            kind, lineno, _ = s.sites[k]
            try:
                text = mutate(src, k)
                compile(text, f, "exec")
            except Exception as e:  # noqa
                continue
            if text == base:
                continue
            mid = "%s-%04d" % (os.path.basename(f)[:-3], k)
            if "networking" in f:
                mid = "n_" + mid
            if "scripts" in f:
                mid = "s_" + mid
            open(os.path.join(outdir, "m", mid + ".py"), "w").write(text)
            out.append({"id": mid, "file": f, "kind": kind, "line": lineno, "function": enclosing_function(src, lineno),
                        "source_line": lines[lineno - 1].strip() if lineno else ""})
        print(f, "sites", n, "picked", len(picks))
    rng.shuffle(out)
    json.dump(out, open(os.path.join(outdir, "mutants.json"), "w"), indent=1)
    print("total", len(out))


def sh(cmd, timeout, env=None):
    t = time.time()
    try:
        p = subprocess.run(cmd, shell=True, stdout=subprocess.PIPE, stderr=subprocess.STDOUT, timeout=timeout,
                           env=env, text=True, errors="replace")
        return p.returncode, p.stdout, time.time() - t
    except subprocess.TimeoutExpired as e:
        return 124, (e.stdout or b"").decode(errors="replace") if isinstance(e.stdout, bytes) else (e.stdout or ""), \
            time.time() - t


def run(outdir, lane, nlanes):
    muts = json.load(open(os.path.join(outdir, "mutants.json")))
    anch = anchors()
    lrepo = os.path.join(outdir, "lane%d" % lane, "repo")
    lverif = os.path.join(outdir, "lane%d" % lane, "verif")
    resdir = os.path.join(outdir, "res")
    os.makedirs(resdir, exist_ok=True)
    env = dict(os.environ, SKV_REPO=lrepo, PYTHONHASHSEED="0", PYTHONDONTWRITEBYTECODE="1")
    for i, m in enumerate(muts):
        if i % nlanes != lane:
            continue
        rp = os.path.join(resdir, m["id"] + ".json")
        if os.path.exists(rp):
            continue
        sh("git -C %s checkout -q -- . && git -C %s clean -fdq" % (lrepo, lrepo), 60)
        open(os.path.join(lrepo, m["file"]), "w").write(open(os.path.join(outdir, "m", m["id"] + ".py")).read())
        res = dict(m)
        tenv = {k: v for k, v in env.items() if k != "SKV_REPO"}
        ok = lambda out: " passed" in out and "failed" not in out and "error" not in out.lower()  # noqa
        # the integration tests bind fixed ports: run them one lane at a time
        rc, out, dt = sh("cd %s && /venv/bin/python -m pytest -q -x -p no:cacheprovider --timeout=120 "
                         "--ignore=tests/networking 2>&1 | tail -3" % lrepo, 400, env=tenv)
        if ok(out):
            with open(os.path.join(outdir, "net.lock"), "w") as lk:
                fcntl.flock(lk, fcntl.LOCK_EX)
                rc, out, dt2 = sh("cd %s && /venv/bin/python -m pytest -q -x -p no:cacheprovider --timeout=120 "
                                  "tests/networking 2>&1 | tail -3" % lrepo, 400, env=tenv)
                dt += dt2
        res["tests"] = "pass" if ok(out) else "fail"
        res["tests_s"] = round(dt, 1)
        if res["tests"] == "pass":
            checks = sorted(anch.get(m["file"], []), key=lambda c: COST[c])
            res["checks_run"] = []
            res["caught_by"] = None
            for c in checks:
                rc, out, dt = sh("%s/check %s 2>&1 | grep -a 'VIOLATION\\|KNOWN-FINDING' | head -5" % (lverif, c), 1500,
                                 env=env)
                res["checks_run"].append([c, round(dt, 1)])
                if "VIOLATION" in out:
                    res["caught_by"] = c
                    res["violation"] = out.strip().split("\n")[0][:300]
                    res["concrete"] = "no-failing-input-found" not in out
                    break
        json.dump(res, open(rp, "w"), indent=1)
        print(lane, m["id"], res["tests"], res.get("caught_by"), flush=True)
    sh("git -C %s checkout -q -- . && git -C %s clean -fdq" % (lrepo, lrepo), 60)


def extra(outdir, lane, nlanes, fname, checks):
    """survivors of one file against further checks (properties not anchored in that file but exercising it)"""
    muts = json.load(open(os.path.join(outdir, "mutants.json")))
    lrepo = os.path.join(outdir, "lane%d" % lane, "repo")
    lverif = os.path.join(outdir, "lane%d" % lane, "verif")
    env = dict(os.environ, SKV_REPO=lrepo, PYTHONHASHSEED="0", PYTHONDONTWRITEBYTECODE="1")
    k = 0
    for m in muts:
        rp = os.path.join(outdir, "res", m["id"] + ".json")
        if not m["file"].endswith(fname) or not os.path.exists(rp):
            continue
        res = json.load(open(rp))
        if res["tests"] != "pass" or res.get("caught_by"):
            continue
        k += 1
        if k % nlanes != lane:
            continue
        sh("git -C %s checkout -q -- . && git -C %s clean -fdq" % (lrepo, lrepo), 60)
        open(os.path.join(lrepo, m["file"]), "w").write(open(os.path.join(outdir, "m", m["id"] + ".py")).read())
        for c in checks:
            if c in [x[0] for x in res["checks_run"]]:
                continue
            rc, out, dt = sh("%s/check %s 2>&1 | grep -a 'VIOLATION\\|KNOWN-FINDING' | head -5" % (lverif, c), 1500, env=env)
            res["checks_run"].append([c, round(dt, 1)])
            if "VIOLATION" in out:
                res["caught_by"] = c
                res["violation"] = out.strip().split("\n")[0][:300]
                res["concrete"] = "no-failing-input-found" not in out
                break
        json.dump(res, open(rp, "w"), indent=1)
        print(lane, m["id"], res.get("caught_by"), flush=True)
    sh("git -C %s checkout -q -- . && git -C %s clean -fdq" % (lrepo, lrepo), 60)


def report(outdir):
    muts = json.load(open(os.path.join(outdir, "mutants.json")))
    rows = []
    for m in muts:
        rp = os.path.join(outdir, "res", m["id"] + ".json")
        if os.path.exists(rp):
            rows.append(json.load(open(rp)))
    killed = [r for r in rows if r["tests"] == "fail"]
    passed = [r for r in rows if r["tests"] == "pass"]
    caught = [r for r in passed if r.get("caught_by")]
    surv = [r for r in passed if not r.get("caught_by")]
    print("mutants run %d of %d; killed by the test suite %d; pass the tests %d: caught by a check %d (%d with a "
          "concrete replay), survive %d" % (len(rows), len(muts), len(killed), len(passed), len(caught),
                                           sum(1 for r in caught if r.get("concrete")), len(surv)))
    byfile = {}
    for r in passed:
        b = byfile.setdefault(r["file"], [0, 0])
        b[0] += 1
        b[1] += 1 if r.get("caught_by") else 0
    for f, (n, c) in sorted(byfile.items()):
        print("  %-45s pass-tests %3d caught %3d" % (f, n, c))
    print("survivors:")
    for r in sorted(surv, key=lambda r: (r["file"], r["line"])):
        print("  %-28s %s:%d %-14s %-40s | %s" % (r["id"], r["file"].replace("skepticoin/", ""), r["line"], r["kind"],
                                                  r["function"][:40], r["source_line"][:90]))


if __name__ == "__main__":
    cmd = sys.argv[1]
    if cmd == "gen":
        seed = int(sys.argv[sys.argv.index("--seed") + 1]) if "--seed" in sys.argv else 0
        scale = float(sys.argv[sys.argv.index("--scale") + 1]) if "--scale" in sys.argv else 1.0
        gen(sys.argv[2], seed, scale)
    elif cmd == "run":
        run(sys.argv[2], int(sys.argv[3]), int(sys.argv[4]))
    elif cmd == "extra":
        extra(sys.argv[2], int(sys.argv[3]), int(sys.argv[4]), sys.argv[5], sys.argv[6].split(","))
    elif cmd == "report":
        report(sys.argv[2])
