#!/bin/bash
cd /verif
for d in /tmp/seed4/out/C*/; do
  p=$(basename $d)
  for pf in $d/m*.diff; do
    n=$(basename $pf .diff)
    if ! git -C /repo apply --check $pf 2>/dev/null; then echo "$p-$n DOES-NOT-APPLY"; continue; fi
    out=$(timeout 1200 tools/seedtest.sh $pf $p 2>&1)
    if echo "$out" | grep "VIOLATION" | grep -qv "no-failing-input-found"; then r="caught(concrete replay)";
    elif echo "$out" | grep -q "VIOLATION"; then r="caught(no-failing-input-found)";
    else r="MISSED"; fi
    echo "$p-$n $r"
  done
done
