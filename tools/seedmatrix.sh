#!/bin/bash
# runs every kept seeded change against the quick check of its property; prints one line per seed
cd /verif
for d in seeded/*/; do
  n=$(basename $d); p=${n%%-*}
  if ! git -C /repo apply --check /verif/$d/patch.diff 2>/dev/null; then echo "$n $p DOES-NOT-APPLY"; continue; fi
  out=$(timeout 1200 tools/seedtest.sh $d/patch.diff $p 2>&1)
  if echo "$out" | grep "VIOLATION" | grep -qv "no-failing-input-found"; then r="caught(concrete replay)";
  elif echo "$out" | grep -q "VIOLATION"; then r="caught(no-failing-input-found)";
  else r="MISSED"; fi
  echo "$n $p $r"
done
