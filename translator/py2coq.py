#!/venv/bin/python
"""Fail-closed translator from a tiny fragment of Python (module constants, single-purpose integer
functions) to Coq text.  Regenerates /verif/coq/gen/*.v from /repo on every run.

Constants are read by *parsing and evaluating* the module source in an empty namespace for the two
parameter modules (pure arithmetic; so `10 // 2` and `5` are the same thing), by import for the
checkpoint table and the genesis bytes.

Functions are translated from their AST.  Supported fragment (everything else raises Unsupported and
the caller records a translator_fallback for that function):
  statements:  x = e | if t: <stmts> [else: <stmts>] | return e | raise ... | docstring
  expressions: int literals, names (parameters, locals, module constants), + - * // % **, pow(a,b),
               comparisons (chains), and/or/not, min/max (2 args), <<, >>,
               int.from_bytes(x[a:b]|x, byteorder='big', signed=False), x.to_bytes(n, byteorder='big', ...)
Python ints are unbounded and // and % are floor division / modulo with the sign of the divisor, which is exactly
Coq's Z.div / Z.modulo; ** and pow are Z.pow (exponents are non-negative in the translated functions; a
negative exponent would produce a float in Python and 0 in Coq -- part of the trusted base of the translator).
Byte-string parameters are `list Z` in the generated text (big-endian, each element a byte).
"""
import ast
import os
import sys


class Unsupported(Exception):
    pass


BINOPS = {ast.Add: '+', ast.Sub: '-', ast.Mult: '*', ast.FloorDiv: '/', ast.Mod: 'mod', ast.Pow: '^'}
CMPOPS = {ast.Lt: '<?', ast.LtE: '<=?', ast.Gt: '>?', ast.GtE: '>=?', ast.Eq: '=?'}


class FunTranslator:
    """kind: 'int' (returns an integer), 'bytes' (returns a byte list), 'check' (validator: returns None or raises;
    translated to bool, true = no exception)."""

    def __init__(self, consts, byte_params=()):
        self.consts = consts
        self.byte_params = set(byte_params)
        self.used_consts = set()

    def expr(self, e):
        if isinstance(e, ast.Constant):
            if isinstance(e.value, bool) or not isinstance(e.value, int):
                raise Unsupported('constant %r' % (e.value,))
            return '(%d)' % e.value
        if isinstance(e, ast.Name):
            if e.id in self.locals:
                return e.id if e.id not in self.renames else self.renames[e.id]
            if e.id in self.consts:
                self.used_consts.add(e.id)
                if e.id in getattr(self, 'local_consts', {}) and e.id not in self.global_names:
                    return '(%d)' % self.local_consts[e.id]     # a constant of the function's own module: inlined
                return e.id
            raise Unsupported('name %s' % e.id)
        if isinstance(e, ast.BinOp):
            if type(e.op) in BINOPS:
                return '(%s %s %s)' % (self.expr(e.left), BINOPS[type(e.op)], self.expr(e.right))
            if isinstance(e.op, ast.LShift):
                return '(Z.shiftl %s %s)' % (self.expr(e.left), self.expr(e.right))
            if isinstance(e.op, ast.RShift):
                return '(Z.shiftr %s %s)' % (self.expr(e.left), self.expr(e.right))
            raise Unsupported('binop %s' % type(e.op).__name__)
        if isinstance(e, ast.UnaryOp):
            if isinstance(e.op, ast.USub):
                return '(- %s)' % self.expr(e.operand)
            if isinstance(e.op, ast.Not):
                return '(negb %s)' % self.bexpr(e.operand)
            raise Unsupported('unaryop')
        if isinstance(e, ast.Call):
            f = e.func
            if isinstance(f, ast.Name) and f.id == 'pow' and len(e.args) == 2 and not e.keywords:
                return '(%s ^ %s)' % (self.expr(e.args[0]), self.expr(e.args[1]))
            if isinstance(f, ast.Name) and f.id in ('min', 'max') and len(e.args) == 2 and not e.keywords:
                return '(Z.%s %s %s)' % (f.id, self.expr(e.args[0]), self.expr(e.args[1]))
            if (isinstance(f, ast.Attribute) and f.attr == 'from_bytes' and isinstance(f.value, ast.Name)
                    and f.value.id == 'int'):
                self.check_bytes_kw(e, 1)
                return '(be_decZ %s)' % self.bytes_expr(e.args[0])
            raise Unsupported('call')
        if isinstance(e, ast.IfExp):
            return '(if %s then %s else %s)' % (self.bexpr(e.test), self.expr(e.body), self.expr(e.orelse))
        raise Unsupported('expr %s' % type(e).__name__)

    def check_bytes_kw(self, call, npos):
        if len(call.args) != npos:
            raise Unsupported('from/to_bytes positional args')
        kws = {k.arg: k.value for k in call.keywords}
        bo = kws.pop('byteorder', None)
        if not (isinstance(bo, ast.Constant) and bo.value == 'big'):
            raise Unsupported('byteorder must be big')
        sg = kws.pop('signed', None)
        if sg is not None and not (isinstance(sg, ast.Constant) and sg.value is False):
            raise Unsupported('signed must be False')
        ln = kws.pop('length', None)
        if kws:
            raise Unsupported('unknown keyword')
        return ln

    def bytes_expr(self, e):
        if isinstance(e, ast.Name) and e.id in self.byte_params:
            return e.id
        if (isinstance(e, ast.Subscript) and isinstance(e.value, ast.Name) and e.value.id in self.byte_params
                and isinstance(e.slice, ast.Slice) and e.slice.step is None):
            lo = e.slice.lower
            hi = e.slice.upper
            lo_s = '0' if lo is None else self.expr(lo)
            if hi is None:
                raise Unsupported('open slice')
            return '(sliceZ %s %s %s)' % (e.value.id, lo_s, self.expr(hi))
        raise Unsupported('bytes expr')

    def bexpr(self, e):
        if isinstance(e, ast.Compare):
            parts = []
            left = e.left
            for op, right in zip(e.ops, e.comparators):
                if type(op) in CMPOPS:
                    parts.append('(%s %s %s)' % (self.expr(left), CMPOPS[type(op)], self.expr(right)))
                elif isinstance(op, ast.NotEq):
                    parts.append('(negb (%s =? %s))' % (self.expr(left), self.expr(right)))
                else:
                    raise Unsupported('cmpop')
                left = right
            out = parts[0]
            for p in parts[1:]:
                out = '(%s && %s)' % (out, p)
            return out
        if isinstance(e, ast.BoolOp):
            op = '&&' if isinstance(e.op, ast.And) else '||'
            out = self.bexpr(e.values[0])
            for v in e.values[1:]:
                out = '(%s %s %s)' % (out, op, self.bexpr(v))
            return out
        if isinstance(e, ast.UnaryOp) and isinstance(e.op, ast.Not):
            return '(negb %s)' % self.bexpr(e.operand)
        if isinstance(e, ast.Constant) and isinstance(e.value, bool):
            return 'true' if e.value else 'false'
        raise Unsupported('bool expr %s' % type(e).__name__)

    def ret(self, e):
        if self.kind == 'int':
            return self.expr(e)
        if self.kind == 'bytes':
            if (isinstance(e, ast.Call) and isinstance(e.func, ast.Attribute) and e.func.attr == 'to_bytes'):
                ln = self.check_bytes_kw(e, len(e.args))
                if ln is None:
                    if len(e.args) != 1:
                        raise Unsupported('to_bytes length')
                    ln = e.args[0]
                elif e.args:
                    raise Unsupported('to_bytes length twice')
                return '(be_encZ %s %s)' % (self.expr(ln), self.expr(e.func.value))
            raise Unsupported('bytes return')
        raise Unsupported('return with value in check')

    @staticmethod
    def terminates(stmts):
        if not stmts:
            return False
        last = stmts[-1]
        if isinstance(last, (ast.Return, ast.Raise)):
            return True
        if isinstance(last, ast.If):
            return FunTranslator.terminates(last.body) and FunTranslator.terminates(last.orelse)
        return False

    def block(self, stmts):
        if not stmts:
            if self.kind == 'check':
                return 'true'
            raise Unsupported('fall off the end')
        s, rest = stmts[0], stmts[1:]
        if isinstance(s, ast.Expr) and isinstance(s.value, ast.Constant) and isinstance(s.value.value, str):
            return self.block(rest)
        if isinstance(s, (ast.Assign, ast.AnnAssign)):
            tgt = s.targets[0] if isinstance(s, ast.Assign) else s.target
            if isinstance(s, ast.Assign) and len(s.targets) != 1:
                raise Unsupported('multi assign')
            if not isinstance(tgt, ast.Name):
                raise Unsupported('assign target')
            if tgt.id in self.byte_params:
                raise Unsupported('assign to bytes param')
            val = self.expr(s.value)
            self.locals.add(tgt.id)
            return 'let %s := %s in\n  %s' % (tgt.id, val, self.block(rest))
        if isinstance(s, ast.Return):
            if s.value is None:
                if self.kind == 'check':
                    return 'true'
                raise Unsupported('bare return')
            return self.ret(s.value)
        if isinstance(s, ast.Raise):
            if self.kind == 'check':
                return 'false'
            raise Unsupported('raise in non-check')
        if isinstance(s, ast.If):
            t = self.bexpr(s.test)
            if self.terminates(s.body):
                saved = set(self.locals)
                b = self.block(s.body)
                self.locals = set(saved)
                r = self.block(list(s.orelse) + rest)
                return '(if %s then %s\n  else %s)' % (t, b, r)
            if s.orelse and self.terminates(s.orelse):
                saved = set(self.locals)
                o = self.block(s.orelse)
                self.locals = set(saved)
                r = self.block(list(s.body) + rest)
                return '(if %s then %s\n  else %s)' % (t, r, o)
            # assignment-only conditional: x = e  (no else)  ==>  let x := if t then e else x
            if (not s.orelse and len(s.body) == 1 and isinstance(s.body[0], ast.Assign)
                    and len(s.body[0].targets) == 1 and isinstance(s.body[0].targets[0], ast.Name)
                    and s.body[0].targets[0].id in self.locals):
                x = s.body[0].targets[0].id
                return 'let %s := (if %s then %s else %s) in\n  %s' % (x, t, self.expr(s.body[0].value), x,
                                                                      self.block(rest))
            raise Unsupported('if shape')
        raise Unsupported('statement %s' % type(s).__name__)

    def function(self, fn, kind, coq_name=None):
        self.kind = kind
        self.fname = coq_name or fn.name
        self.global_names = getattr(self, 'global_names', set())
        self.renames = {}
        args = [a.arg for a in fn.args.args]
        if fn.args.vararg or fn.args.kwarg or fn.args.kwonlyargs or fn.args.defaults:
            raise Unsupported('signature')
        self.locals = set(args)
        body = self.block(list(fn.body))
        params = ' '.join('(%s : %s)' % (a, 'list Z' if a in self.byte_params else 'Z') for a in args)
        rty = {'int': 'Z', 'bytes': 'list Z', 'check': 'bool'}[kind]
        return 'Definition %s %s : %s :=\n  %s.\n' % (coq_name or fn.name, params, rty, body)


def module_ast(path):
    with open(path) as f:
        return ast.parse(f.read(), path)


def find_function(tree, name):
    for n in tree.body:
        if isinstance(n, ast.FunctionDef) and n.name == name:
            return n
    raise Unsupported('function %s not found' % name)


def eval_constants(path):
    """evaluate a parameter module in an empty namespace (they import nothing)"""
    ns = {}
    with open(path) as f:
        src = f.read()
    try:
        exec(compile(src, path, 'exec'), {'__builtins__': {'int': int, 'pow': pow, 'max': max, 'min': min}}, ns)
    except Exception:
        ns = {}
        exec(compile(src, path, 'exec'), {}, ns)   # full builtins (e.g. sum/range in a derived constant)
    return {k: v for k, v in ns.items() if k.isupper()}


def coq_bytes(b):
    return '[' + '; '.join(str(x) for x in b) + ']'


def write_if_changed(path, text):
    old = None
    if os.path.exists(path):
        with open(path) as f:
            old = f.read()
    if old != text:
        tmp = path + '.tmp%d' % os.getpid()
        with open(tmp, 'w') as f:
            f.write(text)
        os.replace(tmp, path)
        return True
    return False


HEADER = ('(* GENERATED by /verif/translator/py2coq.py from %s -- do not edit; regenerated on every run *)\n'
          'From Coq Require Import ZArith List Bool.\nImport ListNotations.\nOpen Scope Z_scope.\n')


def gen_params(repo, out):
    p1 = eval_constants(os.path.join(repo, 'skepticoin/params.py'))
    p2 = eval_constants(os.path.join(repo, 'skepticoin/networking/params.py'))
    lines = [HEADER % 'skepticoin/params.py, skepticoin/networking/params.py']
    for src, d in (('params.py', p1), ('networking/params.py', p2)):
        lines.append('(* %s *)' % src)
        for k, v in d.items():
            if isinstance(v, bool):
                continue
            if isinstance(v, int):
                lines.append('Definition %s : Z := %d.' % (k, v))
            elif isinstance(v, bytes):
                lines.append('Definition %s : list Z := %s.' % (k, coq_bytes(v)))
    text = '\n'.join(lines) + '\n'
    write_if_changed(os.path.join(out, 'Gen_Params.v'), text)
    consts = dict(p1)
    consts.update(p2)
    return consts


PRELUDE_FUNS = '''From SkV Require Import Gen_Params.
(* helpers for byte strings (big endian), used by translated int.from_bytes / to_bytes *)
Fixpoint be_decZ_aux (acc : Z) (bs : list Z) : Z :=
  match bs with [] => acc | b :: r => be_decZ_aux (acc * 256 + b) r end.
Definition be_decZ (bs : list Z) : Z := be_decZ_aux 0 bs.
Fixpoint be_encZ_nat (n : nat) (v : Z) : list Z :=
  match n with O => [] | S k => be_encZ_nat k (v / 256) ++ [v mod 256] end.
Definition be_encZ (n v : Z) : list Z := be_encZ_nat (Z.to_nat n) v.
Definition sliceZ (bs : list Z) (lo hi : Z) : list Z := firstn (Z.to_nat (hi - lo)) (skipn (Z.to_nat lo) bs).
'''

FUNCTIONS = [
    # (source file, python name, kind, byte params, coq name)
    ('skepticoin/consensus.py', 'get_block_subsidy', 'int', (), 'get_block_subsidy'),
    ('skepticoin/consensus.py', 'validate_sashimi_range', 'check', (), 'validate_sashimi_range'),
    ('skepticoin/consensus.py', 'calculate_new_target', 'bytes', ('previous_target',), 'calculate_new_target'),
    ('skepticoin/pow.py', 'select_block_height', 'int', ('input_hash',), 'select_block_height'),
]


def local_int_constants(tree, known):
    """module-level `NAME = <integer expression over literals and known constants>` of the function's own source file"""
    out = {}
    for n in tree.body:
        if isinstance(n, ast.Assign) and len(n.targets) == 1 and isinstance(n.targets[0], ast.Name):
            try:
                ns = dict(known)
                ns.update(out)
                v = eval(compile(ast.Expression(n.value), '<const>', 'eval'), {'__builtins__': {'pow': pow, 'min': min, 'max': max}}, ns)
            except Exception:
                continue
            if isinstance(v, int) and not isinstance(v, bool):
                out[n.targets[0].id] = v
    return out


# the translation of the four functions as of the pinned source: emitted (and flagged) when a function leaves the
# translatable fragment, so that the bridge lemmas still build; the tie for that function is then the behavioural
# correspondence only (recorded as translator_fallback in the evidence)
REFERENCE = {
    'get_block_subsidy': '''Definition get_block_subsidy (height : Z) : Z :=
  let halvings := (height / SUBSIDY_HALVING_INTERVAL) in
  (if (halvings >=? (64)) then (0)
  else (INITIAL_SUBSIDY / ((2) ^ halvings))).
''',
    'validate_sashimi_range': '''Definition validate_sashimi_range (value : Z) : bool :=
  (if (negb (((0) <? value) && (value <=? MAX_SASHIMI))) then false
  else true).
''',
    'calculate_new_target': '''Definition calculate_new_target (previous_target : list Z) (actual_time_passed : Z) : list Z :=
  let i_previous_target := (be_decZ previous_target) in
  let result := ((i_previous_target * actual_time_passed) / DESIRED_TARGET_READJUSTMENT_TIMESPAN) in
  let result := (if (result >? (((2) ^ ((32) * (8))) - (1))) then (((2) ^ ((32) * (8))) - (1)) else result) in
  (be_encZ (32) result).
''',
    'select_block_height': '''Definition select_block_height (input_hash : list Z) (current_height : Z) : Z :=
  let base := (be_decZ (sliceZ input_hash 0 (8))) in
  (base mod current_height).
''',
}


def gen_functions(repo, out, consts):
    lines = [HEADER % 'skepticoin/consensus.py, skepticoin/pow.py', PRELUDE_FUNS]
    status = {}
    int_consts = {k: v for k, v in consts.items() if isinstance(v, int) and not isinstance(v, bool)}
    for src, name, kind, bparams, cname in FUNCTIONS:
        try:
            tree = module_ast(os.path.join(repo, src))
            fn = find_function(tree, name)
            local = local_int_constants(tree, int_consts)
            tr = FunTranslator(dict(int_consts, **local), bparams)
            tr.local_consts = local
            tr.global_names = set(int_consts)
            text = tr.function(fn, kind, cname)
            lines.append('(* %s:%d %s *)' % (src, fn.lineno, name))
            lines.append(text)
            lines.append('Definition translated_%s : bool := true.\n' % cname)
            status[name] = 'translated'
        except (Unsupported, SyntaxError, OSError) as e:
            lines.append('(* %s %s: NOT TRANSLATED (%s): the reference translation is emitted so that the bridge lemmas build;\n'
                         '   this function is tied by behavioural correspondence only in this run *)' % (src, name, e))
            lines.append(REFERENCE[name])
            lines.append('Definition translated_%s : bool := false.\n' % cname)
            status[name] = 'fallback: %s' % e
    write_if_changed(os.path.join(out, 'Gen_Functions.v'), '\n'.join(lines) + '\n')
    return status


def gen_checkpoints(repo, out):
    """checkpoint table and genesis bytes: read by evaluating the module sources (they import only humans.computer)"""
    from binascii import unhexlify
    ns = {}
    with open(os.path.join(repo, 'skepticoin/cheating.py')) as f:
        exec(compile(f.read(), 'cheating.py', 'exec'), {'__builtins__': {'max': max}}, ns)
    table = ns['KNOWN_HASHES']
    mx = ns['MAX_KNOWN_HASH_HEIGHT']
    src = open(os.path.join(repo, 'skepticoin/genesis.py')).read()
    tree = ast.parse(src)
    gns = {'computer': lambda s: unhexlify(s.encode('utf-8'))}
    body = [n for n in tree.body if not isinstance(n, (ast.Import, ast.ImportFrom))]
    exec(compile(ast.Module(body=body, type_ignores=[]), 'genesis.py', 'exec'), gns)
    genesis = gns['genesis_block_data']
    lines = [HEADER.replace('Open Scope Z_scope.', 'From Coq Require Import NArith.\nOpen Scope N_scope.')
             % 'skepticoin/cheating.py, skepticoin/genesis.py']
    lines.append('Definition MAX_KNOWN_HASH_HEIGHT : Z := %d%%Z.' % mx)
    lines.append('Definition KNOWN_HASHES : list (N * list N) := [')
    rows = []
    for h in table:
        rows.append('  (%d, %s)' % (h, coq_bytes(unhexlify(table[h]))))
    lines.append(';\n'.join(rows))
    lines.append('].')
    lines.append('Definition genesis_block_data : list N := %s.' % coq_bytes(genesis))
    write_if_changed(os.path.join(out, 'Gen_Checkpoints.v'), '\n'.join(lines) + '\n')
    return {'checkpoints': len(table), 'max_known_hash_height': mx, 'genesis_len': len(genesis)}


def regenerate(repo='/repo', out='/verif/coq/gen'):
    os.makedirs(out, exist_ok=True)
    consts = gen_params(repo, out)
    status = gen_functions(repo, out, consts)
    info = gen_checkpoints(repo, out)
    return {'functions': status, 'constants': {k: (v if isinstance(v, int) else v.hex())
                                                 for k, v in consts.items() if isinstance(v, (int, bytes))},
            'tables': info}


if __name__ == '__main__':
    import json
    print(json.dumps(regenerate(*(sys.argv[1:3])), indent=1))
