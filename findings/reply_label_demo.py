"""Observation K: a block that breaks a ledger rule (here: the reward claims more than subsidy + fees) enters the chain
state of an IDLE node -- nothing requested, no bulk download going on -- when the sending peer writes a non-zero
in_response_to into the message header, at any height that is not a multiple of IBD_VALIDATION_SKIP, above the
checkpoint horizon; the next fully validated relayed block then flushes it to the block store.  The same block with
in_response_to = 0 is refused and leaves no trace.  Uses the harness's simulated network around the REAL LocalPeer /
handlers / BlockStore; consensus parameters patched from outside as in the checks (easy target, sha256 stand-in for
scrypt, horizon -1 so that every height is above the checkpoints).
usage: SKV_REPO=<skepticoin source tree> /venv/bin/python findings/reply_label_demo.py     exit 1 = the block enters"""
import os
import random
import sys

sys.path.insert(0, os.path.join(os.path.dirname(os.path.abspath(__file__)), '..', 'harness'))
import common            # noqa
_scratch = common.Scratch()
_scratch.__enter__()     # scratch working directory (the package creates ./chain.db on import)
common.repo_import_setup()   # SKV_REPO or /repo
import chaingen          # noqa
import mutators          # noqa
import nodeharness       # noqa
import simnet            # noqa
from skepticoin.networking import messages as M   # noqa

rng = random.Random(5)
keys = chaingen.Keys()
result = {}
for label_irt in (0, 9):
    with chaingen.Env(period=50) as env:
        tg = chaingen.TreeGen(env, keys, rng)
        n = tg.genesis
        for _ in range(3):
            n = tg.extend(n, txs=[], fees=0, dt=60)
        main = list(tg.nodes)
        bad = [c for c in mutators.mutants(tg, n, rng) if c['expect'] == 'reject' and c['label'] == 'reward-plus-one'][0]
        good = tg.extend(n, txs=[], fees=0, dt=60)
        with simnet.Net(seed=1, t0=max(bad['now'], good.view.time) + 5) as net:
            sn = nodeharness.SingleNode(net, chaingen.impl_state_from(main), [m.block for m in main[1:]], npeers=2)
            sn.new_messages()
            before = sn.observe()
            sn.deliver(0, M.DataMessage(M.DATA_BLOCK, bad['block']), irt=label_irt)
            mid = sn.observe()
            bid = bad['block'].hash()
            sn.deliver(1, M.DataMessage(M.DATA_BLOCK, good.block))
            after = sn.observe()
            result[label_irt] = (bid in mid['blocks'], mid['head'] == bid, bid in after['rows'])
            print('in_response_to=%d  mutant %-24s in chain state: %s   served head: %s   in the store after the next valid block: %s'
                  % (label_irt, bad['label'], *result[label_irt]))
rc = 1 if any(result[9]) else 0
_scratch.__exit__(None, None, None)
sys.exit(rc)
