"""Demonstration (unpatched constants, real scrypt not even needed): a block that DECLARES a height at or below the
checkpoint horizon (163,000) that is not a multiple of 500, attached to ANY stored block, skips all in-chain validation:
wrong height, arbitrary target, no proof-of-work evidence check, arbitrary reward, unchecked signatures.  It is accepted by
CoinState.add_block (the path used for relayed and mined blocks) and, extending the head, becomes the head.
usage: python declared_height_below_horizon_demo.py <skepticoin source tree>     exit 1 = the block is accepted"""
import os
import sys
import tempfile

src = os.path.abspath(sys.argv[1])
sys.path.insert(0, src)
os.chdir(tempfile.mkdtemp())

from skepticoin.coinstate import CoinState                                   # noqa
from skepticoin.datatypes import (Block, BlockHeader, BlockSummary, PowEvidence, Transaction, Input, Output,  # noqa
                                  OutputReference)
from skepticoin.signing import CoinbaseData, SECP256k1PublicKey             # noqa
from skepticoin.consensus import calc_merkle_root_hash                       # noqa
from skepticoin.genesis import genesis_block_data                            # noqa

cs = CoinState.empty().add_block_no_validation(Block.deserialize(genesis_block_data))
chain_dir = os.path.join(src, 'tests', 'testdata', 'chain')
for name in sorted(os.listdir(chain_dir)):
    with open(os.path.join(chain_dir, name), 'rb') as f:
        blk = Block.stream_deserialize(f)
    if blk.height == 0:
        continue
    cs = cs.add_block(blk, blk.timestamp + 1)        # the recorded real-network blocks, through full add_block
head = cs.head()
print('head before: height', head.height)

DECLARED = 1 if head.height != 0 else 2               # any height <= 163000 that is not a multiple of 500
reward = 10 ** 15                                     # 10,000,000 coin; the subsidy is 10 coin
cb = Transaction(inputs=[Input(OutputReference(b'\x00' * 32, 0), CoinbaseData(DECLARED, b'x'))],
                 outputs=[Output(reward, SECP256k1PublicKey(b'\x01' * 64))])
nonce = 0
while True:
    summary = BlockSummary(DECLARED, head.hash(), calc_merkle_root_hash([cb]), head.timestamp + 1, b'\xff' * 32, nonce)
    evil = Block(BlockHeader(summary, PowEvidence(b'\x00' * 32, b'\x00' * 32, b'\x00' * 32)), [cb])
    if evil.hash() < evil.target:
        break
    nonce += 1
try:
    new = cs.add_block(evil, head.timestamp + 2)
except Exception as e:
    print('rejected:', type(e).__name__, e)
    sys.exit(0)
u = new.unspent_transaction_outs_by_hash[evil.hash()]
print('ACCEPTED: parent height %d, declared height %d, zeroed proof-of-work evidence, target 2^256-1, reward %d'
      % (head.height, DECLARED, reward))
print('it is the new head:', new.head().hash() == evil.hash(), '; total unspent now', sum(o.value for o in u.values()))
sys.exit(1)
