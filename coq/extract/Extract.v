(* Extraction of the executable model to OCaml.  ExtrOcamlBasic only: bool, option, list, prod, unit, sumbool map to
   OCaml natives; N, Z, positive, nat, ascii, string stay as the extracted inductive types. *)
From Coq Require Import Extraction ExtrOcamlBasic.
From SkV Require Import Sx Entry EntryChain.
Extraction Language OCaml.
Extraction "extract/skmodel.ml" dispatch_all.
