(* Hand model of the monetary schedule (consensus.py get_block_subsidy, validate_sashimi_range),
   parametric in the halving interval and the initial subsidy. *)
From Coq Require Import ZArith List Bool.
Open Scope Z_scope.

Definition subsidy (interval initial h : Z) : Z :=
  if h / interval >=? 64 then 0 else initial / 2 ^ (h / interval).

Definition sashimi_in_range (maxv v : Z) : bool := (0 <? v) && (v <=? maxv).

(* sum of f over heights 0 .. n-1 *)
Fixpoint sum_upto (f : Z -> Z) (n : nat) : Z :=
  match n with O => 0 | S k => sum_upto f k + f (Z.of_nat k) end.
