(* Block synchronisation pieces: manager.py get_recent_block_heights / get_get_blocks_message (the locator) and
   remote_peer.py handle_get_blocks_message_received (the server side), over abstract block ids.
   The server's active chain is a list of ids indexed by height (genesis first); `height_of` gives the height of
   every block the server stores (on or off the active chain). *)
From Coq Require Import NArith ZArith List Bool Arith.
Import ListNotations.
Open Scope N_scope.

(* oldness = range(10) + [x^2 for x in range(4, 64)]; heights = [h - o for o in oldness if h - o >= 0] *)
Definition oldness : list N := map N.of_nat (seq 0 10) ++ map (fun x => N.of_nat x * N.of_nat x) (seq 4 60).
Definition recent_heights (h : N) : list N :=
  map (fun o => h - o) (filter (fun o => o <=? h) oldness).

Section Serve.
  Variable batch : N.                         (* GET_BLOCKS_INVENTORY_SIZE *)
  Variable main : list N.                     (* active chain: id at height i = nth i main; never empty *)
  Variable height_of : N -> option N.         (* every stored block (any fork) -> its height *)

  Definition head_height : N := N.of_nat (length main) - 1.
  Definition main_at (h : N) : option N := nth_error main (N.to_nat h).

  (* scan of potential_start_hashes: Some (Some start) = break at start; Some None = "no new info" reply;
     None = no break (for/else: start_height = 1) *)
  Fixpoint scan (starts : list N) : option (option N) :=
    match starts with
    | [] => None
    | s :: r =>
        match height_of s with
        | None => scan r
        | Some hs =>
            let start := hs + 1 in
            match main_at start with
            | None => Some None                                  (* start_height not in by_height_at_head *)
            | Some _ => if (match main_at hs with Some m => m =? s | None => false end)
                        then Some (Some start)                   (* parent of main[start] is s: s on active chain *)
                        else scan r
            end
        end
    end.

  Fixpoint range_ids (fuel : nat) (from upto : N) : list N :=
    match fuel with
    | O => []
    | S f => if from <? upto then match main_at from with
                                  | Some i => i :: range_ids f (from + 1) upto
                                  | None => [] end
             else []
    end.

  Definition serve (starts : list N) : list N :=
    match scan starts with
    | Some None => []
    | Some (Some start) => range_ids (N.to_nat batch) start (N.min (start + batch) (head_height + 1))
    | None => range_ids (N.to_nat batch) 1 (N.min (1 + batch) (head_height + 1))
    end.
End Serve.

(* One round of block download between a requester whose chain is `rc` (ids by height, genesis first) and a server:
   the requester announces the ids at its locator heights, the server replies, and the requester appends the ids
   whose parent it has as its tip (the linear / initial-download case; forked requesters are explored by the check). *)
Section Round.
  Variable batch : N.
  Variable main : list N.
  Variable height_of : N -> option N.
  Definition locator_ids (rc : list N) : list N :=
    flat_map (fun h => match nth_error rc (N.to_nat h) with Some i => [i] | None => [] end)
             (recent_heights (N.of_nat (length rc) - 1)).
  Definition round (rc : list N) : list N := rc ++ serve batch main height_of (locator_ids rc).
  Fixpoint rounds (n : nat) (rc : list N) : list N :=
    match n with O => rc | S k => rounds k (round rc) end.
End Round.

(* A requester whose chain `rc` may have FORKED from the server's active chain: the first request carries the locator of
   rc; every inventory reply is followed at once by a request whose only start hash is the LAST id of that reply
   (remote_peer.py handle_inventory_message_received: GetBlocksMessage([message.items[-1].hash])), until an empty
   reply arrives.  The result is the list of ids the requester was told about (and then fetches). *)
Section CatchUp.
  Variable batch : N.
  Variable main : list N.
  Variable height_of : N -> option N.
  Fixpoint follow (fuel : nat) (prev_reply : list N) (acc : list N) : list N :=
    match fuel with
    | O => acc
    | S k =>
        match rev prev_reply with
        | [] => acc
        | x :: _ => let r := serve batch main height_of [x] in
                    match r with [] => acc | _ => follow k r (acc ++ r) end
        end
    end.
  Definition catch_up (fuel : nat) (rc : list N) : list N :=
    let r := serve batch main height_of (locator_ids rc) in follow fuel r r.
End CatchUp.
