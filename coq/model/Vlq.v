(* serialization.py: stream_serialize_vlq / stream_deserialize_vlq.
   [vlq_dec_lenient] is the decoder as shipped before the fix recorded in known_findings.json (accepts leading 0x80
   bytes and the one-byte form of 64..127); [vlq_dec] is the decoder with the canonicity check. *)
From Coq Require Import NArith List Bool Arith.
From SkV Require Import Bytes.
Import ListNotations.
Open Scope N_scope.

Fixpoint digits (fuel : nat) (i : N) (last : bool) : bytes :=
  match fuel with
  | O => []
  | S f => digits f (i / 128) false ++ [ (i mod 128) + (if last then 0 else 128) ]
  end.
(* needed_bytes = i.bit_length() // 7 + 1 *)
Definition needed (i : N) : nat := N.to_nat (N.size i / 7 + 1).
Definition vlq_enc (i : N) : bytes := digits (needed i) i true.

Fixpoint vlq_dec_aux (acc : N) (bs : bytes) : option (N * bytes) :=
  match bs with
  | [] => None
  | b :: rest =>
      let acc' := acc + b mod 128 in
      if b <? 128 then Some (acc', rest) else vlq_dec_aux (acc' * 128) rest
  end.
Definition vlq_dec_lenient (bs : bytes) := vlq_dec_aux 0 bs.
Definition vlq_dec (bs : bytes) : option (N * bytes) :=
  match vlq_dec_lenient bs with
  | Some (v, rest) => if Nat.eqb (length bs - length rest) (needed v) then Some (v, rest) else None
  | None => None
  end.
