(* Node-level state machine over abstract ids (N): the block relay path (remote_peer.py handle_block_received, with the
   store write buffer of blockstore.py / disk_interface.py) and the pending-transaction pool (manager.py ChainManager:
   add_transaction_to_pool, set_coinstate / _cleanup_transaction_pool_for_coinstate, handle_transaction_received).
   What validation says about a block or transaction is an input (oracle record): the harness obtains it by calling
   the real validators on (object, prior state) outside the handler, so a handler that skips or reorders a call
   disagrees with this model.  Chain structure is abstract: a block is (id, parent id, height). *)
From Coq Require Import NArith List Bool Arith.
Import ListNotations.
Open Scope N_scope.

Record ablock := mkAB { ab_id : N; ab_prev : N; ab_height : N }.

Record nstate := mkNS {
  ns_blocks : list ablock;          (* chain state served to peers, arrival order (oldest first) *)
  ns_head : N;                      (* id of the active head *)
  ns_valid_blocks : list ablock;    (* last_known_valid_coinstate *)
  ns_valid_head : N;
  ns_pool : list N;                 (* pending transaction ids, in admission order *)
  ns_buffer : list N;               (* block store write buffer *)
  ns_rows : list N                  (* block ids committed to the store *)
}.

Definition has_block (l : list ablock) (i : N) : bool := existsb (fun b => ab_id b =? i) l.
Definition height_of (l : list ablock) (i : N) : N :=
  match find (fun b => ab_id b =? i) l with Some b => ab_height b | None => 0 end.

(* add_block_no_validation's head choice: extend the head, or strictly greater height *)
Definition new_head (l : list ablock) (head : N) (b : ablock) : N :=
  if ab_prev b =? head then ab_id b
  else if height_of l head <? ab_height b then ab_id b else head.

(* what the validators say about a delivered block against the prior state *)
Record bverdict := mkBV { bv_itself : bool; bv_apply : bool; bv_instate : bool }.

Inductive out :=
| ORelayBlock (id : N)       (* broadcast_block to all active peers *)
| ORelayTx (id : N).

Section Node.
  Variable skip : N.                               (* IBD_VALIDATION_SKIP *)
  (* transaction validity at a head: in-state validation against the ledger state of that head *)
  Variable tx_valid_at : N -> N -> bool.           (* head id -> tx id -> valid in coinstate *)
  Variable tx_conflict : N -> N -> bool.           (* two transactions spend a common output *)

  (* _cleanup_transaction_pool_for_coinstate *)
  Definition cleanup (head : N) (pool : list N) : list N := filter (tx_valid_at head) pool.

  (* ChainManager.set_coinstate(coinstate, validated) *)
  Definition set_state (s : nstate) (blocks : list ablock) (head : N) (validated : bool) : nstate :=
    mkNS blocks head
         (if validated then blocks else ns_valid_blocks s) (if validated then head else ns_valid_head s)
         (cleanup head (ns_pool s)) (ns_buffer s) (ns_rows s).

  (* handle_block_received(header, DataMessage(block)); irt0 = (header.in_response_to == 0) *)
  Definition handle_block (s : nstate) (b : ablock) (v : bverdict) (irt0 : bool) : nstate * list out :=
    if has_block (ns_blocks s) (ab_id b) then (s, [])                    (* already known: no effect *)
    else if negb (has_block (ns_blocks s) (ab_prev b)) then (s, [])       (* parent unknown: dropped *)
    else if negb (bv_itself v) then (s, [])                               (* structural defect *)
    else if negb (bv_apply v) then (s, [])                                (* error while applying it *)
    else
      let s1 := mkNS (ns_blocks s) (ns_head s) (ns_valid_blocks s) (ns_valid_head s) (ns_pool s)
                     (ns_buffer s ++ [ab_id b]) (ns_rows s) in            (* save_block: into the write buffer *)
      let blocks' := ns_blocks s ++ [b] in
      let head' := new_head (ns_blocks s) (ns_head s) b in
      if irt0 || (ab_height b mod skip =? 0) then
        if negb (bv_instate v) then
          (* rule violation: back to the last validated state, drop the write buffer *)
          let s2 := set_state s1 (ns_valid_blocks s1) (ns_valid_head s1) true in
          (mkNS (ns_blocks s2) (ns_head s2) (ns_valid_blocks s2) (ns_valid_head s2) (ns_pool s2) [] (ns_rows s2), [])
        else
          let s2 := set_state s1 blocks' head' true in
          let s3 := mkNS (ns_blocks s2) (ns_head s2) (ns_valid_blocks s2) (ns_valid_head s2) (ns_pool s2)
                         [] (ns_rows s2 ++ ns_buffer s2) in              (* flush_blocks *)
          (s3, if (head' =? ab_id b) && irt0 then [ORelayBlock (ab_id b)] else [])
      else
        (set_state s1 blocks' head' false, []).

  (* add_transaction_to_pool: by-itself, in-state at the head, no shared reference with the pool.
     itself_ok / instate_ok are the validators' verdicts; raises = the validator raised something that is not a
     ValidateTransactionError (it propagates: not admitted, and the offending peer is dropped) *)
  Definition admits (s : nstate) (t : N) (itself_ok : bool) : bool :=
    itself_ok && tx_valid_at (ns_head s) t && negb (existsb (tx_conflict t) (ns_pool s)).

  (* handle_transaction_received *)
  Definition handle_tx (s : nstate) (t : N) (itself_ok : bool) : nstate * list out :=
    if existsb (N.eqb t) (ns_pool s) then (s, [])
    else if admits s t itself_ok then
      (mkNS (ns_blocks s) (ns_head s) (ns_valid_blocks s) (ns_valid_head s) (ns_pool s ++ [t]) (ns_buffer s)
            (ns_rows s), [ORelayTx t])
    else (s, []).

  (* the miner's found-block handler (mining.py handle_scrypt_output_message, after the fix): the block is applied
     with full validation to the state the candidate was built on; the result is published, stored and broadcast *)
  Definition handle_mined (s : nstate) (b : ablock) (valid : bool) : nstate * list out :=
    if negb valid then (s, [])
    else
      let blocks' := ns_blocks s ++ [b] in
      let head' := new_head (ns_blocks s) (ns_head s) b in
      let s2 := set_state s blocks' head' true in
      (mkNS (ns_blocks s2) (ns_head s2) (ns_valid_blocks s2) (ns_valid_head s2) (ns_pool s2) []
            (ns_rows s2 ++ ns_buffer s2 ++ [ab_id b]), [ORelayBlock (ab_id b)]).

  Inductive event :=
  | EBlock (b : ablock) (v : bverdict) (irt0 : bool)
  | ETx (t : N) (itself_ok : bool)
  | EMined (b : ablock) (valid : bool).

  Definition step (s : nstate) (e : event) : nstate * list out :=
    match e with
    | EBlock b v irt0 => handle_block s b v irt0
    | ETx t ok => handle_tx s t ok
    | EMined b valid => handle_mined s b valid
    end.

  Fixpoint run (s : nstate) (es : list event) : nstate * list out :=
    match es with
    | [] => (s, [])
    | e :: r => let '(s1, o1) := step s e in let '(s2, o2) := run s1 r in (s2, o1 ++ o2)
    end.
End Node.
