(* merkletree.py: get_merkle_root (pair up, odd element promoted), get_merkle_tree, get_proof.
   Generic in the digest type D and the pairing function H2 (sha256d (a ++ b) in the implementation). *)
From Coq Require Import List Arith Lia.
Import ListNotations.

Section Merkle.
  Variable D : Type.                      (* digests *)
  Variable H2 : D -> D -> D.              (* sha256d (a ++ b) *)

  (* merkletree.py: pair up, odd element promoted *)
  Fixpoint level (l : list D) : list D :=
    match l with
    | a :: b :: r => H2 a b :: level r
    | _ => l
    end.
  Fixpoint root_fuel (fuel : nat) (l : list D) : option D :=
    match fuel with
    | O => None
    | S f => match l with
             | [] => None
             | [x] => Some x
             | _ => root_fuel f (level l)
             end
    end.
  Definition root (l : list D) : option D := root_fuel (length l) l.
End Merkle.
Arguments level {D}. Arguments root_fuel {D}. Arguments root {D}.

(* symbolic digests: the free algebra *)
Inductive tm (A : Type) := Atom (x : A) | Node (a b : tm A).
Arguments Atom {A}. Arguments Node {A}.
Fixpoint flatten {A} (t : tm A) : list A :=
  match t with Atom x => [x] | Node a b => flatten a ++ flatten b end.
Definition flat {A} (l : list (tm A)) : list A := concat (map flatten l).


(* ---- merkletree.py MerkleNode / get_merkle_tree / get_proof ---- *)
Inductive mtree (D : Type) := MLeaf (idx : nat) (v : D) | MNode (idx : nat) (l r : mtree D).
Arguments MLeaf {D}. Arguments MNode {D}.
Definition mt_index {D} (t : mtree D) : nat := match t with MLeaf i _ => i | MNode i _ _ => i end.
Section Tree.
  Variable D : Type.
  Variable H2 : D -> D -> D.
  Fixpoint mt_hash (t : mtree D) : D :=
    match t with MLeaf _ v => v | MNode _ l r => H2 (mt_hash l) (mt_hash r) end.
  Fixpoint level_t (l : list (mtree D)) : list (mtree D) :=
    match l with
    | a :: b :: r => MNode (mt_index a) a b :: level_t r
    | _ => l
    end.
  Fixpoint tree_fuel (fuel : nat) (l : list (mtree D)) : option (mtree D) :=
    match fuel with
    | O => None
    | S f => match l with
             | [] => None
             | [x] => Some x
             | _ => tree_fuel f (level_t l)
             end
    end.
  Fixpoint leaves_from (i : nat) (l : list D) : list (mtree D) :=
    match l with [] => [] | x :: r => MLeaf i x :: leaves_from (S i) r end.
  Definition tree (l : list D) : option (mtree D) := tree_fuel (length l) (leaves_from 0 l).
  (* get_proof: keep the path to leaf i, replace every sibling subtree by a leaf holding its hash *)
  Fixpoint get_proof (t : mtree D) (i : nat) : mtree D :=
    match t with
    | MLeaf _ _ => t
    | MNode idx l r =>
        if (mt_index r <=? i)%nat
        then MNode idx (MLeaf (mt_index l) (mt_hash l)) (get_proof r i)
        else MNode idx (get_proof l i) (MLeaf (mt_index r) (mt_hash r))
    end.
  Fixpoint mt_leaves (t : mtree D) : list (nat * D) :=
    match t with MLeaf i v => [(i, v)] | MNode _ l r => mt_leaves l ++ mt_leaves r end.
End Tree.
Arguments mt_hash {D}. Arguments level_t {D}. Arguments tree_fuel {D}. Arguments leaves_from {D}.
Arguments tree {D}. Arguments get_proof {D}. Arguments mt_leaves {D}.
