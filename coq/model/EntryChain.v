(* Entry points for the ledger / validation / chain-state model: a small script interpreter over a chain state. *)
From stdpp Require Import gmap.
From Coq Require Import NArith ZArith String.
Local Open Scope string_scope.
From SkV Require Import Bytes Vlq Codec Merkle Ledger ChainState Pow Validate Sx Entry EntryNode.
Open Scope N_scope.
Open Scope list_scope.

Definition params_of_sx (a : sx) : cparams :=
  mkParams (Z.of_N (get_N (nth_sx 0 a)) - 1)
           (map (fun e => (get_N (nth_sx 0 e), get_bytes (nth_sx 1 e))) (get_list (nth_sx 1 a)))
           (get_N (nth_sx 2 a)) (get_N (nth_sx 3 a)) (get_N (nth_sx 4 a)) (get_N (nth_sx 5 a))
           (get_N (nth_sx 6 a)) (get_N (nth_sx 7 a)) (get_N (nth_sx 8 a)) (get_N (nth_sx 9 a))
           (N.to_nat (get_N (nth_sx 10 a))) (N.to_nat (get_N (nth_sx 11 a))).

Definition sx_Z (z : Z) : sx := SL [SN (if (z <? 0)%Z then 1 else 0); SN (Z.abs_N z)].
Definition sx_utxo (u : utxo) : sx :=
  SL (map (fun kv => SL [SB (fst (fst kv)); SN (snd (fst kv)); SN (out_value (snd kv)); SB (out_pk (snd kv))])
          (map_to_list u)).
Definition sx_ekind (k : ekind) : sx := SN (match k with ETx => 1 | EValidation => 2 | EOther => 3 end).

Section Run.
  Variable tbl : sx.
  Let sha := oracle tbl "sha256d".
  Let scrypt := oracle tbl "scrypt".
  Let blake := oracle tbl "blake2".
  Let verify := fun pk sg msg : bytes =>
    match oracle tbl "verify" (pk ++ sg ++ msg)%list with [b] => b | _ => 9 end.
  Variable P : cparams.

  Definition sx_state (s : cstate) : sx :=
    SL [ SL (map (fun kv =>
               SL [SB (fst kv); SB (enc_block (snd kv));
                   sx_opt sx_utxo (cs_utxo s !! fst kv);
                   sx_opt (fun m => SL (map (fun hb => SL [SN (fst hb); SB (block_id sha (snd hb))]) (map_to_list m)))
                          (cs_byheight s !! fst kv)])
             (map_to_list (cs_blocks s)));
         SL (map (fun kv => SB (fst kv)) (map_to_list (cs_heads s)));
         sx_opt SB (cs_cur s) ].

  Definition sx_pkbal (p : pkbal) : sx :=
    SL (map (fun kv => SL [SB (fst kv); sx_Z (fst (snd kv));
                           SL (map (fun r => SL [SB (fst r); SN (snd r)]) (snd (snd kv)))]) (map_to_list p)).

  Definition dec_block_only (bs : bytes) : option block :=
    match dec_block bs with Some (b, []) => Some b | _ => None end.
  Definition dec_txs (l : list sx) : option (list tx) :=
    mapM (fun e => match dec_tx (get_bytes e) with Some (t, []) => Some t | _ => None end) l.

  Definition run_op (s : cstate) (op : sx) : cstate * sx :=
    let code := get_N (nth_sx 0 op) in
    if code =? 0 then
      match dec_block_only (get_bytes (nth_sx 1 op)) with
      | Some b => match add_nv sha s b with
                  | Some s' => (s', SN 1)
                  | None => (s, SN 0) end
      | None => (s, SN 8)
      end
    else if code =? 1 then
      match dec_block_only (get_bytes (nth_sx 1 op)) with
      | Some b => match add_block sha scrypt blake verify P s b (get_N (nth_sx 2 op)) with
                  | Ok s' => (s', SL [SN 1])
                  | Err k => (s, SL [SN 0; sx_ekind k]) end
      | None => (s, SN 8)
      end
    else if code =? 6 then
      match dec_block (get_bytes (nth_sx 1 op)) with
      | Some (b, _) => match add_block sha scrypt blake verify P s b (get_N (nth_sx 2 op)) with
                  | Ok s' => (s', SL [SN 1])
                  | Err k => (s, SL [SN 0; sx_ekind k]) end
      | None => (s, SN 8)
      end
    else if code =? 7 then
      (* in-state validation only (validate_block_in_coinstate), for the checkpoint rule *)
      match dec_block (get_bytes (nth_sx 1 op)) with
      | Some (b, _) => match v_block_in_state sha scrypt blake verify P b s with
                  | Ok _ => (s, SL [SN 1])
                  | Err k => (s, SL [SN 0; sx_ekind k]) end
      | None => (s, SN 8)
      end
    else if code =? 2 then
      (s, sx_opt sx_pkbal (balances_at sha s (get_bytes (nth_sx 1 op))))
    else if code =? 3 then
      match cs_cur s with
      | Some c =>
        match cs_byheight s !! c with
        | Some main =>
          (s, SL (map (fun kv => SL [SB (fst kv);
                                     sx_opt (fun b => SB (block_id sha b))
                                            (lca_with_main sha (S (size (cs_blocks s))) s main (snd kv))])
                      (map_to_list (cs_heads s))))
        | None => (s, SN 0) end
      | None => (s, SL [])
      end
    else if code =? 4 then
      match dec_txs (get_list (nth_sx 1 op)) with
      | Some others =>
        (s, sx_opt (fun b => SB (enc_block b))
                   (construct_block_for_mining sha scrypt blake P s others (get_bytes (nth_sx 2 op))
                      (get_N (nth_sx 3 op)) (get_bytes (nth_sx 4 op)) (get_N (nth_sx 5 op))))
      | None => (s, SN 8)
      end
    else if code =? 5 then
      (* by-itself / in-state validation of a single transaction at the head: [1] or [0 kind] for each *)
      match dec_tx (get_bytes (nth_sx 1 op)), cs_cur s with
      | Some (t, []), Some c =>
        match cs_utxo s !! c with
        | Some u =>
          (s, SL [match v_noncb_by_itself P t with Ok _ => SL [SN 1] | Err k => SL [SN 0; sx_ekind k] end;
                  match v_noncb_in_state verify u t with Ok _ => SL [SN 1] | Err k => SL [SN 0; sx_ekind k] end])
        | None => (s, SN 0) end
      | _, _ => (s, SN 8)
      end
    else (s, SN 777).

End Run.

(* an op may carry its own oracle entries (4th component), consulted before the request-wide table *)
Definition op_table (tbl : sx) (op : sx) : sx :=
  match nth_sx 3 op with
  | SL (e :: l) => SL ((e :: l) ++ get_list tbl)
  | _ => tbl
  end.
Fixpoint run_ops (tbl : sx) (P : cparams) (s : cstate) (ops : list sx) : cstate * list sx :=
  match ops with
  | [] => (s, [])
  | op :: r => let '(s1, o) := run_op (op_table tbl op) P s op in
               let '(s2, os) := run_ops tbl P s1 r in (s2, o :: os)
  end.

Definition dispatch_chain (tbl : sx) (name : bytes) (arg : sx) : sx :=
  let is := fun s => bytes_eqb name (name_bytes s) in
  if is "chain"%string then
    let P := params_of_sx (nth_sx 0 arg) in
    let '(s, outs) := run_ops tbl P cs_empty (get_list (nth_sx 1 arg)) in
    SL [SL outs; if get_N (nth_sx 2 arg) =? 1 then sx_state tbl s else SL []]
  else if is "new_target"%string then
    (* (params, previous target, elapsed seconds) -> the retargeted target: function-level correspondence *)
    SB (Pow.calculate_new_target (params_of_sx (nth_sx 0 arg)) (get_bytes (nth_sx 1 arg)) (get_N (nth_sx 2 arg)))
  else if is "select_height"%string then
    SN (Pow.select_block_height (get_bytes (nth_sx 0 arg)) (get_N (nth_sx 1 arg)))
  else SL [SN 777].

Definition dispatch_all (tbl : sx) (name : bytes) (arg : sx) : sx :=
  match dispatch tbl name arg with
  | SL [SN 777] => match dispatch_chain tbl name arg with
                   | SL [SN 777] => dispatch_node name arg
                   | r => r end
  | r => r
  end.
