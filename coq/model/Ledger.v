(* balances.py (uto_apply_*, pkb_apply_*, PublicKeyBalances) over std++ finite maps.
   A Python KeyError / IndexError is [None]. *)
From stdpp Require Import gmap.
From Coq Require Import NArith ZArith.
From SkV Require Import Bytes Codec.
Open Scope N_scope.

Definition refkey := (bytes * N)%type.
Definition ref_key (r : outref) : refkey := (or_hash r, or_index r).
Definition utxo := gmap refkey output.

(* for i, output in enumerate(outputs): u[(txid, i)] = output *)
Fixpoint add_outputs (id : bytes) (i : N) (outs : list output) (u : utxo) : utxo :=
  match outs with
  | [] => u
  | o :: r => add_outputs id (i + 1) r (<[ (id, i) := o ]> u)
  end.
(* for input in inputs: del u[ref]   (KeyError when absent, also when the same reference occurs twice) *)
Fixpoint spend_inputs (ins : list input) (u : utxo) : option utxo :=
  match ins with
  | [] => Some u
  | i :: r => match u !! ref_key (in_ref i) with
              | Some _ => spend_inputs r (delete (ref_key (in_ref i)) u)
              | None => None
              end
  end.

Section Ledger.
  Variable sha : bytes -> bytes.

  Definition uto_apply_tx (u : utxo) (t : tx) (is_coinbase : bool) : option utxo :=
    match (if is_coinbase then Some u else spend_inputs (tx_inputs t) u) with
    | Some u1 => Some (add_outputs (tx_id sha t) 0 (tx_outputs t) u1)
    | None => None
    end.

  Fixpoint uto_apply_txs (u : utxo) (ts : list tx) : option utxo :=
    match ts with
    | [] => Some u
    | t :: r => match uto_apply_tx u t false with
                | Some u1 => uto_apply_txs u1 r
                | None => None
                end
    end.

  Definition uto_apply_block (u : utxo) (b : block) : option utxo :=
    match b_txs b with
    | [] => None                                   (* block.transactions[0]: IndexError *)
    | cb :: rest => match uto_apply_tx u cb true with
                    | Some u1 => uto_apply_txs u1 rest
                    | None => None
                    end
    end.

  (* ---- per-key balances (PKBalance(value, output_references)) ---- *)
  Definition pkbal := gmap bytes (Z * list refkey).

  Fixpoint pkb_spend (u : utxo) (ins : list input) (p : pkbal) : option pkbal :=
    match ins with
    | [] => Some p
    | i :: r =>
      match u !! ref_key (in_ref i) with
      | Some o =>
        match p !! out_pk o with
        | Some (v, refs) =>
            pkb_spend u r (<[ out_pk o := ((v - Z.of_N (out_value o))%Z,
                                           filter (fun k => k <> ref_key (in_ref i)) refs) ]> p)
        | None => None
        end
      | None => None
      end
    end.
  Fixpoint pkb_add (id : bytes) (i : N) (outs : list output) (p : pkbal) : pkbal :=
    match outs with
    | [] => p
    | o :: r =>
      let '(v, refs) := default (0%Z, []) (p !! out_pk o) in
      pkb_add id (i + 1) r (<[ out_pk o := ((v + Z.of_N (out_value o))%Z, refs ++ [(id, i)]) ]> p)
    end.
  Definition pkb_apply_tx (u : utxo) (p : pkbal) (t : tx) (is_coinbase : bool) : option pkbal :=
    match (if is_coinbase then Some p else pkb_spend u (tx_inputs t) p) with
    | Some p1 => Some (pkb_add (tx_id sha t) 0 (tx_outputs t) p1)
    | None => None
    end.
  Fixpoint pkb_apply_txs (u : utxo) (p : pkbal) (ts : list tx) : option pkbal :=
    match ts with
    | [] => Some p
    | t :: r => match pkb_apply_tx u p t false with
                | Some p1 => pkb_apply_txs u p1 r
                | None => None
                end
    end.
  (* note: every transaction of the block looks its inputs up in the block-START unspent set *)
  Definition pkb_apply_block (u : utxo) (p : pkbal) (b : block) : option pkbal :=
    match b_txs b with
    | [] => None
    | cb :: rest => match pkb_apply_tx u p cb true with
                    | Some p1 => pkb_apply_txs u p1 rest
                    | None => None
                    end
    end.

  (* PublicKeyBalances.public_key_balances_by_hash: replay a chain (oldest first) from nothing *)
  Fixpoint replay (u : utxo) (p : pkbal) (chain : list block) : option (utxo * pkbal) :=
    match chain with
    | [] => Some (u, p)
    | b :: r => match pkb_apply_block u p b, uto_apply_block u b with
                | Some p1, Some u1 => replay u1 p1 r
                | _, _ => None
                end
    end.
  Fixpoint replay_utxo (u : utxo) (chain : list block) : option utxo :=
    match chain with
    | [] => Some u
    | b :: r => match uto_apply_block u b with
                | Some u1 => replay_utxo u1 r
                | None => None
                end
    end.

  Definition utxo_total (u : utxo) : N := map_fold (fun _ o acc => acc + out_value o) 0 u.
End Ledger.
