(* pow.py (chain sampling) and the evidence construction of consensus.py; calc_target / calculate_new_target. *)
From stdpp Require Import gmap.
From Coq Require Import NArith ZArith.
From SkV Require Import Bytes Vlq Codec Ledger ChainState.
Open Scope N_scope.

Record cparams := mkParams {
  p_hz : Z;                         (* MAX_KNOWN_HASH_HEIGHT *)
  p_known : list (N * bytes);       (* KNOWN_HASHES *)
  p_period : N;                     (* BLOCKS_BETWEEN_TARGET_READJUSTMENT *)
  p_span : N;                       (* DESIRED_TARGET_READJUSTMENT_TIMESPAN *)
  p_max_block : N;                  (* MAX_BLOCK_SIZE *)
  p_max_cbdata : N;                 (* MAX_COINBASE_RANDOM_DATA_SIZE *)
  p_max_future : N;                 (* MAX_FUTURE_BLOCK_TIME *)
  p_max_sashimi : N;                (* MAX_SASHIMI *)
  p_interval : N;                   (* SUBSIDY_HALVING_INTERVAL *)
  p_initial : N;                    (* INITIAL_SUBSIDY *)
  p_samples : nat;                  (* CHAIN_SAMPLE_COUNT *)
  p_sample_size : nat               (* CHAIN_SAMPLE_SIZE *)
}.

Definition select_block_height (h : bytes) (height : N) : N := be_dec (firstn 8 h) mod height.

(* while len(result) < length: result += ser[start:start+length-len(result)]; start = 0 *)
Fixpoint slice_loop (fuel : nat) (ser : bytes) (start : nat) (len : nat) (acc : bytes) : option bytes :=
  if (len <=? length acc)%nat then Some acc else
  match fuel with
  | O => None
  | S f => slice_loop f ser 0 len (acc ++ firstn (len - length acc) (skipn start ser))
  end.
Definition select_block_slice (h : bytes) (ser : bytes) (len : nat) : option bytes :=
  match ser with
  | [] => None                                   (* base % 0: ZeroDivisionError *)
  | _ => let base := be_dec (firstn 4 (skipn 8 h)) in
         slice_loop (S len) ser (N.to_nat (base mod N.of_nat (length ser))) len []
  end.

Section Pow.
  Variable sha : bytes -> bytes.
  Variable scrypt : bytes -> bytes.       (* scrypt(password ++ salt); salt = 8-byte big-endian height *)
  Variable blake : bytes -> bytes.
  Variable P : cparams.

  Fixpoint sample_loop (n : nat) (k : nat) (cur : bytes) (height : N) (index : gmap N block) : option bytes :=
    match n with
    | O => Some []
    | S m =>
      match index !! select_block_height cur height with
      | None => None
      | Some blk =>
        match select_block_slice cur (enc_block blk) k with
        | None => None
        | Some b =>
          match m with
          | O => Some b
          | _ => match sample_loop m k (sha (cur ++ b)) height index with
                 | Some r => Some (b ++ r)
                 | None => None end
          end
        end
      end
    end.

  Definition construct_evidence (s : cstate) (sm : summary) (height : N) (txs : list tx) : option evidence :=
    if 2 ^ 64 <=? height then None else        (* to_bytes(8): OverflowError *)
    let summary_hash := scrypt (enc_summary sm ++ be_enc 8 height) in
    match (if height =? 0 then Some (zeros (p_samples P * p_sample_size P))
           else if height =? 0 then None else
           match cs_byheight s !! s_prev sm with
           | None => None
           | Some index => sample_loop (p_samples P) (p_sample_size P) summary_hash height index
           end) with
    | None => None
    | Some sample =>
      Some (mkEvidence summary_hash sample (blake (summary_hash ++ sample ++ enc_list enc_tx txs)))
    end.

  Definition calculate_new_target (prev_target : bytes) (time_passed : N) : bytes :=
    let r := (be_dec prev_target * time_passed) / p_span P in
    be_enc 32 (if 2 ^ 256 - 1 <? r then 2 ^ 256 - 1 else r).

  (* calc_target(coinstate, height, current_timestamp, previous_block) *)
  Definition calc_target (s : cstate) (height : N) (ts : N) (prev : block) : option bytes :=
    if p_period P =? 0 then None else
    if height mod p_period P =? 0 then
      match cs_byheight s !! block_id sha prev with
      | None => None
      | Some index =>
        match index !! (height - p_period P) with
        | None => None
        | Some start => if ts <? b_time start then None          (* negative: to_bytes raises *)
                        else if height <? p_period P then None    (* negative height: KeyError *)
                        else Some (calculate_new_target (b_target prev) (ts - b_time start))
        end
      end
    else Some (b_target prev).
End Pow.
