(* Entry points for the node-level models (NodeModel, Store, PeerBook, WalletModel, Sync). *)
From Coq Require Import NArith List Bool Arith String.
From SkV Require Import Bytes Sx NodeModel Store PeerBook WalletModel Sync.
Import ListNotations.
Open Scope N_scope.


Definition gN (i : nat) (s : sx) : N := get_N (nth_sx i s).
Definition gB (i : nat) (s : sx) : bool := negb (get_N (nth_sx i s) =? 0).
Definition gL (i : nat) (s : sx) : list sx := get_list (nth_sx i s).
Definition sxN (l : list N) : sx := SL (map SN l).
Definition pair_in (l : list sx) (a b : N) : bool := existsb (fun e => (gN 0 e =? a) && (gN 1 e =? b)) l.

(* ---- NodeModel ---- *)
Definition ab_of (e : sx) (i : nat) : ablock := mkAB (gN i e) (gN (S i) e) (gN (S (S i)) e).
Definition ev_of (e : sx) : event :=
  let c := gN 0 e in
  if c =? 0 then EBlock (ab_of e 1) (mkBV (gB 4 e) (gB 5 e) (gB 6 e)) (gB 7 e)
  else if c =? 1 then ETx (gN 1 e) (gB 2 e)
  else EMined (ab_of e 1) (gB 4 e).
Definition sx_out (o : out) : sx := match o with ORelayBlock i => SL [SN 0; SN i] | ORelayTx i => SL [SN 1; SN i] end.
Definition sx_nstate (s : nstate) : sx :=
  SL [sxN (map ab_id (ns_blocks s)); SN (ns_head s); sxN (ns_pool s); sxN (ns_buffer s); sxN (ns_rows s);
      sxN (map ab_id (ns_valid_blocks s)); SN (ns_valid_head s)].
Definition node_run (arg : sx) : sx :=
  let skip := gN 0 arg in
  let valid := fun h t => pair_in (gL 1 arg) h t in
  let confl := fun a b => pair_in (gL 2 arg) a b || pair_in (gL 2 arg) b a in
  let st := nth_sx 3 arg in
  let blocks := map (fun e => ab_of e 0) (gL 0 st) in
  let s0 := mkNS blocks (gN 1 st) blocks (gN 1 st) (map get_N (gL 2 st)) [] (map get_N (gL 3 st)) in
  let fix go (s : nstate) (es : list sx) : list sx :=
      match es with
      | [] => []
      | e :: r => let (s1, o) := NodeModel.step skip valid confl s (ev_of e) in
                  SL [SL (map sx_out o); sx_nstate s1] :: go s1 r
      end in
  SL (go s0 (gL 4 arg)).

(* ---- Store ---- *)
Definition sb_of (e : sx) : sblock := mkSB (gN 0 e) (gN 1 e) (gN 2 e) (map get_N (gL 3 e)).
Definition sx_sb (b : sblock) : sx := SL [SN (sb_id b); SN (sb_prev b); SN (sb_height b); sxN (sb_txs b)].
Definition store_run (arg : sx) : sx :=
  let fix go (s : store) (ops : list sx) : list sx :=
      match ops with
      | [] => []
      | op :: r =>
        let c := gN 0 op in
        if c =? 0 then match write_blocks s (map sb_of (gL 1 op)) with
                       | Some s' => SN 1 :: go s' r
                       | None => SN 0 :: go s r end
        else if c =? 1 then SN 1 :: go (add_to_buffer s (sb_of (nth_sx 1 op))) r
        else if c =? 2 then match flush s with
                            | Some s' => SN 1 :: go s' r
                            | None => SN 0 :: go s r end
        else SL [SL (map sx_sb (read_blocks s)); sxN (map sb_id (st_buffer s))] :: go s r
      end in
  SL (go store_empty (get_list arg)).

(* ---- PeerBook ---- *)
Definition dir_of (n : N) : dir := if n =? 0 then Incoming else Outgoing.
Definition sx_key (k : pkey) : sx := SL [SN (k_host k); SN (k_port k); SN (match k_dir k with Incoming => 0 | Outgoing => 1 end)].
Definition sx_optN (o : option N) : sx := match o with Some n => SL [SN 1; SN n] | None => SL [SN 0] end.
Definition sx_book (b : book) : sx :=
  SL [SL (map (fun c => SL [sx_key (c_key c); sx_bool (c_hello c); SN (c_ban c); sx_optN (c_last c); SN (c_id c)]) (b_conn b));
      SL (map (fun d => SL [sx_key (d_key d); SN (d_ban d); sx_optN (d_last d)]) (b_disc b));
      SL (map (fun a => SL [SN (fst a); SN (snd a)]) (b_mine b));
      SL (map (fun a => SL [sx_key (fst a); SN (snd a)]) (b_attempts b));
      sx_bool (sane b)].
Definition book_run (arg : sx) : sx :=
  let fw := gN 0 arg in let mw := gN 1 arg in let ma := gN 2 arg in
  let fix go (b : book) (fresh : N) (es : list sx) : list sx :=
      match es with
      | [] => []
      | e :: r =>
        let c := gN 0 e in
        let '(b', fresh') :=
          if c =? 0 then (* step now: fresh ids advance by the number of entries considered *)
            (PeerBook.step fw mw ma b (gN 1 e) fresh, fresh + N.of_nat (List.length (b_disc b)) + 1)
          else if c =? 1 then (* accept host port *)
            (peer_connected b (mkConn (mkKey (gN 1 e) (gN 2 e) Incoming) fresh false 0 None), fresh + 1)
          else if c =? 2 then (* hello conn-index my_port mine : connection = entry with this key *)
            match find_conn (b_conn b) (mkKey (gN 1 e) (gN 2 e) (dir_of (gN 3 e))) with
            | Some cn => (hello b cn (gN 4 e) (gB 5 e), fresh)
            | None => (b, fresh) end
          else if c =? 3 then (peers_msg b (map (fun a => (gN 0 a, gN 1 a)) (gL 1 e)), fresh)
          else if c =? 4 then (* disconnect the entry with this key *)
            match find_conn (b_conn b) (mkKey (gN 1 e) (gN 2 e) (dir_of (gN 3 e))) with
            | Some cn => (peer_disconnected b cn, fresh)
            | None => (b, fresh) end
          else if c =? 5 then (* start_outgoing for a key (as start_outgoing_connection called directly) *)
            match find_disc (b_disc b) (mkKey (gN 1 e) (gN 2 e) Outgoing) with
            | Some d => (start_outgoing b d (gN 3 e) fresh, fresh + 1)
            | None => (start_outgoing b (mkD (mkKey (gN 1 e) (gN 2 e) Outgoing) 0 None) (gN 3 e) fresh, fresh + 1) end
          else (b, fresh) in
        sx_book b' :: go b' fresh' r
      end in
  SL (go book_empty 1 (gL 3 arg)).

(* ---- Wallet ---- *)
Definition holdings_of (l : list sx) : holdings :=
  map (fun kv => (gN 0 kv, map (fun rv => (gN 0 rv, gN 1 rv)) (gL 1 kv))) l.
Definition spend_run (arg : sx) : sx :=
  (* a sequence of requests [value fee] against fixed holdings, threading the used-set *)
  let h := holdings_of (gL 1 arg) in
  let fix go (used : list N) (reqs : list sx) : list sx :=
      match reqs with
      | [] => []
      | q :: r => match create_spend used h (gN 0 q) (gN 1 q) with
                  | Some (sp, used') => SL [SN 1; sxN (sp_inputs sp); SN (sp_pay sp); sx_optN (sp_change sp); sxN used'] :: go used' r
                  | None => SL [SN 0; sxN used] :: go used r
                  end
      end in
  SL (go (map get_N (gL 0 arg)) (gL 2 arg)).
Definition sx_wallet (w : wallet) : sx :=
  SL [sxN (w_keys w); sxN (w_unused w); SL (map (fun e => SL [SN (fst e); SN (snd e)]) (w_annot w))].
Definition wallet_run (arg : sx) : sx :=
  let w0 := mkW (map get_N (gL 0 arg)) (map get_N (gL 1 arg)) (map (fun e => (gN 0 e, gN 1 e)) (gL 2 arg)) in
  let fix go (w : wallet) (ops : list sx) : list sx :=
      match ops with
      | [] => []
      | op :: r =>
        let c := gN 0 op in
        if c =? 0 then let '(k, w') := hand_out w (gN 1 op) (N.to_nat (gN 2 op)) in
                       SL [sx_optN k; sx_wallet w'] :: go w' r
        else if c =? 1 then match restore w (gN 1 op) with
                            | Some w' => SL [SN 1; sx_wallet w'] :: go w' r
                            | None => SL [SN 0; sx_wallet w] :: go w r end
        else let w' := generate w (gN 1 op) in SL [SN 1; sx_wallet w'] :: go w' r
      end in
  SL (go w0 (gL 3 arg)).
Definition fs_prefixes (arg : sx) : sx :=
  (* [old-content-or-none side target chunks] -> content of target after every prefix of save_ops *)
  let side := 1 in let target := 2 in
  let f0 : fs := match nth_sx 0 arg with SL [SN 1; SB old] => [(target, old)] | _ => [] end in
  let ops := save_ops side target (map get_bytes (gL 1 arg)) in
  let fix go (f : fs) (os : list fsop) : list sx :=
      match os with
      | [] => []
      | o :: r => let f' := fs_apply f o in sx_opt SB (fs_get f' target) :: go f' r
      end in
  SL (sx_opt SB (fs_get f0 target) :: go f0 ops).

(* ---- Sync ---- *)
Definition serve_run (arg : sx) : sx :=
  let main := map get_N (gL 1 arg) in
  let hts := gL 2 arg in
  let height_of := fun i => match find (fun e => gN 0 e =? i) hts with Some e => Some (gN 1 e) | None => None end in
  sxN (serve (gN 0 arg) main height_of (map get_N (gL 3 arg))).

Definition dispatch_node (name : bytes) (arg : sx) : sx :=
  let is := fun s => bytes_eqb name (name_bytes s) in
  if is "node_run"%string then node_run arg
  else if is "store_run"%string then store_run arg
  else if is "book_run"%string then book_run arg
  else if is "spend_run"%string then spend_run arg
  else if is "wallet_run"%string then wallet_run arg
  else if is "fs_prefixes"%string then fs_prefixes arg
  else if is "recent_heights"%string then sxN (recent_heights (get_N arg))
  else if is "serve"%string then serve_run arg
  else SL [SN 777].
