(* Byte strings as lists of N (each element < 256: [bytes_wf]); fixed-width big-endian integers; safe_read. *)
From Coq Require Import NArith List Bool Arith.
Import ListNotations.
Open Scope N_scope.

Definition bytes := list N.
Definition bytes_wf (bs : bytes) : Prop := Forall (fun b => b < 256) bs.
Definition bytes_wfb (bs : bytes) : bool := forallb (fun b => b <? 256) bs.

(* serialization.py safe_read: exactly n bytes or failure *)
Definition take (n : nat) (bs : bytes) : option (bytes * bytes) :=
  if (n <=? length bs)%nat then Some (firstn n bs, skipn n bs) else None.

(* struct.pack(">I" / ">Q" / ">H" / "B"): big endian, fixed width; None when out of range (struct.error) *)
Fixpoint be_enc_nat (w : nat) (v : N) : bytes :=
  match w with O => [] | S k => be_enc_nat k (v / 256) ++ [v mod 256] end.
Definition be_enc (w : nat) (v : N) : bytes := be_enc_nat w v.
Fixpoint be_dec_aux (acc : N) (bs : bytes) : N :=
  match bs with [] => acc | b :: r => be_dec_aux (acc * 256 + b) r end.
Definition be_dec (bs : bytes) : N := be_dec_aux 0 bs.

Definition dec_be (w : nat) (bs : bytes) : option (N * bytes) :=
  match take w bs with Some (h, r) => Some (be_dec h, r) | None => None end.

Fixpoint bytes_eqb (a b : bytes) : bool :=
  match a, b with
  | [], [] => true
  | x :: a', y :: b' => (x =? y) && bytes_eqb a' b'
  | _, _ => false
  end.

(* Python's comparison of two byte strings (lexicographic; a proper prefix is smaller) *)
Fixpoint bytes_ltb (a b : bytes) : bool :=
  match a, b with
  | _, [] => false
  | [], _ :: _ => true
  | x :: a', y :: b' => if x <? y then true else if y <? x then false else bytes_ltb a' b'
  end.

Definition zeros (n : nat) : bytes := repeat 0 n.
