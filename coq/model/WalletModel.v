(* wallet.py over abstract ids.
   Spend builder (create_spend_transaction, after the fix recorded in known_findings.json: the used-set is updated only
   when the spend succeeds): greedy selection in wallet key order x per-key reference order.
   Keys (get_annotated_public_key / restore_annotated_public_key / generate / dump / load).
   File replacement (save_wallet, also disk_interface.write_peers): write side file, rename. *)
From Coq Require Import NArith List Bool Arith.
Import ListNotations.
Open Scope N_scope.

(* ---------- spend builder ---------- *)
(* balances at the head: for each wallet key (in wallet order) the references paying it with their values *)
Definition holdings := list (N * list (N * N)).       (* key -> [(reference, value)] *)

Fixpoint collect_refs (used : list N) (refs : list (N * N)) (need : N) (acc : list N) (got : N)
  : (list N * N * bool) :=                              (* selected (reversed), collected value, done? *)
  match refs with
  | [] => (acc, got, false)
  | (r, v) :: rest =>
      if existsb (N.eqb r) used then collect_refs used rest need acc got
      else let acc' := r :: acc in let got' := got + v in
           if need <=? got' then (acc', got', true) else collect_refs used rest need acc' got'
  end.
Fixpoint collect_keys (used : list N) (h : holdings) (need : N) (acc : list N) (got : N) : option (list N * N) :=
  match h with
  | [] => None                                           (* "Insufficient balance" *)
  | (_, refs) :: rest =>
      let '(acc', got', done) := collect_refs used refs need acc got in
      if done then Some (rev acc', got') else collect_keys used rest need acc' got'
  end.

Record spend := mkSpend { sp_inputs : list N; sp_pay : N; sp_change : option N }.

(* returns the transaction (inputs, amount to recipient, optional change) and the new used-set; None = insufficient,
   used-set unchanged *)
Definition create_spend (used : list N) (h : holdings) (value fee : N) : option (spend * list N) :=
  match collect_keys used h (value + fee) [] 0 with
  | None => None
  | Some (ins, got) =>
      Some (mkSpend ins value (if got =? value + fee then None else Some (got - (value + fee))), used ++ ins)
  end.

(* the shipped behaviour before the fix: every scanned reference is marked used even when the spend fails *)
Fixpoint scanned (used : list N) (h : holdings) : list N :=
  match h with
  | [] => []
  | (_, refs) :: rest => filter (fun r => negb (existsb (N.eqb r) used)) (map fst refs) ++ scanned used rest
  end.
Definition create_spend_prefix (used : list N) (h : holdings) (value fee : N) : option spend * list N :=
  match create_spend used h value fee with
  | Some (sp, used') => (Some sp, used')
  | None => (None, used ++ scanned used h)
  end.

(* ---------- keys ---------- *)
Record wallet := mkW { w_keys : list N; w_unused : list N; w_annot : list (N * N) }.   (* annotation ids abstract *)

(* get_annotated_public_key: pop from the END of unused; on an exhausted wallet a random existing key is returned
   (choice = index supplied by the caller) and nothing is recorded *)
Definition hand_out (w : wallet) (annotation : N) (choice : nat) : option N * wallet :=
  match rev (w_unused w) with
  | [] => (nth_error (w_keys w) choice, w)
  | k :: r => (Some k, mkW (w_keys w) (rev r) (filter (fun e => negb (fst e =? k)) (w_annot w) ++ [(k, annotation)]))
  end.
(* restore_annotated_public_key: del annotation (KeyError if absent -> None), push to unused *)
Definition restore (w : wallet) (k : N) : option wallet :=
  if existsb (fun e => fst e =? k) (w_annot w)
  then Some (mkW (w_keys w) (w_unused w ++ [k]) (filter (fun e => negb (fst e =? k)) (w_annot w)))
  else None.
Definition generate (w : wallet) (k : N) : wallet := mkW (w_keys w ++ [k]) (w_unused w ++ [k]) (w_annot w).

(* ---------- file replacement ---------- *)
Inductive fsop := OpenTrunc (name : N) | Write (name : N) (chunk : list N) | Close (name : N) | Rename (src dst : N).
Definition fs := list (N * list N).                      (* name -> content *)
Definition fs_get (f : fs) (n : N) : option (list N) :=
  match find (fun e => fst e =? n) f with Some e => Some (snd e) | None => None end.
Definition fs_set (f : fs) (n : N) (c : list N) : fs := (n, c) :: filter (fun e => negb (fst e =? n)) f.
Definition fs_del (f : fs) (n : N) : fs := filter (fun e => negb (fst e =? n)) f.
Definition fs_apply (f : fs) (o : fsop) : fs :=
  match o with
  | OpenTrunc n => fs_set f n []
  | Write n c => fs_set f n (match fs_get f n with Some old => old ++ c | None => c end)
  | Close _ => f
  | Rename s d => match fs_get f s with Some c => fs_set (fs_del f s) d c | None => f end
  end.
(* save_wallet / write_peers: open(side, 'w'); write chunks; close; os.replace(side, target) *)
Definition save_ops (side target : N) (chunks : list (list N)) : list fsop :=
  OpenTrunc side :: map (Write side) chunks ++ [Close side; Rename side target].
