(* blockstore.py over abstract ids: the `chain` table (one row per block id) and the `transaction_locator` table
   (PRIMARY KEY transaction hash -> ONE block), "insert or ignore", all-or-nothing batches with the foreign key
   chain.previous_block_hash -> chain, the write buffer, and read_blocks_from_disk (group locator rows by block in
   insertion order, blocks by height, a block without locator rows is not returned).
   The input/output tables are keyed by (transaction hash, seq) and hold the transaction's content: equal ids have
   equal content (C07), so they are represented by the transaction id itself. *)
From Coq Require Import NArith List Bool Arith.
Import ListNotations.
Open Scope N_scope.

Record sblock := mkSB { sb_id : N; sb_prev : N; sb_height : N; sb_txs : list N }.   (* prev = 0: the genesis *)

Record store := mkStore {
  st_chain : list sblock;            (* rows of `chain` in insertion order; sb_txs of a row is ignored *)
  st_locator : list (N * N);         (* (transaction id, block id) in insertion order; transaction ids unique *)
  st_buffer : list sblock
}.
Definition store_empty : store := mkStore [] [] [].

Definition has_row (c : list sblock) (i : N) : bool := existsb (fun b => sb_id b =? i) c.
Definition has_tx (l : list (N * N)) (t : N) : bool := existsb (fun e => fst e =? t) l.

(* insert or ignore into transaction_locator values (tx, block) *)
Fixpoint insert_locs (l : list (N * N)) (bid : N) (txs : list N) : list (N * N) :=
  match txs with
  | [] => l
  | t :: r => insert_locs (if has_tx l t then l else l ++ [(t, bid)]) bid r
  end.

(* one batch: chain rows first (foreign key on the parent, checked row by row), then locator rows.
   None = IntegrityError: the whole transaction is rolled back *)
Fixpoint insert_chain (c : list sblock) (bs : list sblock) : option (list sblock) :=
  match bs with
  | [] => Some c
  | b :: r =>
      if has_row c (sb_id b) then insert_chain c r
      else if (sb_prev b =? 0) || has_row c (sb_prev b) then insert_chain (c ++ [b]) r
      else None
  end.
Fixpoint insert_all_locs (l : list (N * N)) (bs : list sblock) : list (N * N) :=
  match bs with [] => l | b :: r => insert_all_locs (insert_locs l (sb_id b) (sb_txs b)) r end.

Definition write_blocks (s : store) (bs : list sblock) : option store :=
  match insert_chain (st_chain s) bs with
  | Some c => Some (mkStore c (insert_all_locs (st_locator s) bs) (st_buffer s))
  | None => None
  end.

Definition add_to_buffer (s : store) (b : sblock) : store := mkStore (st_chain s) (st_locator s) (st_buffer s ++ [b]).
(* flush_blocks_to_disk: on failure the exception propagates and the buffer is NOT cleared *)
Definition flush (s : store) : option store :=
  match st_buffer s with
  | [] => Some s
  | _ => match write_blocks s (st_buffer s) with
         | Some s' => Some (mkStore (st_chain s') (st_locator s') [])
         | None => None
         end
  end.

(* read_blocks_from_disk: rows by height (stable w.r.t. insertion order among equal heights is NOT guaranteed by SQL;
   the model returns them in (height, insertion) order and the harness compares as a height-sorted multiset) *)
Fixpoint insert_sorted (b : sblock) (l : list sblock) : list sblock :=
  match l with
  | [] => [b]
  | x :: r => if sb_height b <? sb_height x then b :: x :: r else x :: insert_sorted b r
  end.
Definition sort_by_height (l : list sblock) : list sblock := fold_right insert_sorted [] (rev l).
Definition txs_of (l : list (N * N)) (bid : N) : list N := map fst (filter (fun e => snd e =? bid) l).
Definition read_blocks (s : store) : list sblock :=
  map (fun b => mkSB (sb_id b) (sb_prev b) (sb_height b) (txs_of (st_locator s) (sb_id b)))
      (filter (fun b => negb (match txs_of (st_locator s) (sb_id b) with [] => true | _ => false end))
              (sort_by_height (st_chain s))).
