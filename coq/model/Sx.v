(* S-expressions: the wire format between the Python harness and the extracted model (the OCaml driver only parses
   and prints this type and calls Entry.dispatch). *)
From Coq Require Import NArith List Bool Arith String Ascii.
From SkV Require Import Bytes.
Import ListNotations.
Open Scope N_scope.

Inductive sx := SN (n : N) | SB (b : bytes) | SL (l : list sx).

Definition name_bytes (s : string) : bytes := map (fun a => N_of_ascii a) (list_ascii_of_string s).

(* oracle tables: SL [SL [SB name; SB input; SB output]; ...]; a query that is absent returns a non-byte sentinel so
   that it surfaces in every result computed from it *)
Definition missing : bytes := [999; 999].
Fixpoint oracle_lookup (tbl : list sx) (name input : bytes) : bytes :=
  match tbl with
  | SL [SB n; SB i; SB o] :: r => if bytes_eqb n name && bytes_eqb i input then o else oracle_lookup r name input
  | _ :: r => oracle_lookup r name input
  | [] => missing
  end.
Definition oracle (tbl : sx) (name : string) (input : bytes) : bytes :=
  match tbl with SL l => oracle_lookup l (name_bytes name) input | _ => missing end.

Definition sx_opt {A} (f : A -> sx) (o : option A) : sx :=
  match o with Some x => SL [SN 1; f x] | None => SL [SN 0] end.
Definition sx_list {A} (f : A -> sx) (l : list A) : sx := SL (map f l).
Definition sx_bool (b : bool) : sx := SN (if b then 1 else 0).
Definition sx_nat (n : nat) : sx := SN (N.of_nat n).

Definition get_bytes (s : sx) : bytes := match s with SB b => b | _ => [] end.
Definition get_N (s : sx) : N := match s with SN n => n | _ => 0 end.
Definition get_list (s : sx) : list sx := match s with SL l => l | _ => [] end.
Definition nth_sx (i : nat) (s : sx) : sx := nth i (get_list s) (SL []).
