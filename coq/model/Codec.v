(* Values and byte-level codecs of the consensus types: datatypes.py, signing.py, serialization.py (lists).
   Every decoder has the shape bytes -> option (value * unconsumed rest); None = the Python decoder raises. *)
From Coq Require Import NArith List Bool Arith.
From SkV Require Import Bytes Vlq.
Import ListNotations.
Open Scope N_scope.

(* ---- values ---- *)
Record outref := mkOutref { or_hash : bytes; or_index : N }.
Inductive sigv :=
| SigEquiv                                   (* SignableEquivalent, tag 0 *)
| SigCoinbase (height : N) (data : bytes)     (* CoinbaseData, tag 1 *)
| SigSecp (s : bytes).                        (* SECP256k1Signature, tag 2 *)
Record input := mkInput { in_ref : outref; in_sig : sigv }.
Record output := mkOutput { out_value : N; out_pk : bytes }.   (* SECP256k1PublicKey: tag 2 + 64 bytes *)
Record tx := mkTx { tx_inputs : list input; tx_outputs : list output }.
Record evidence := mkEvidence { ev_summary_hash : bytes; ev_chain_sample : bytes; ev_block_hash : bytes }.
Record summary := mkSummary { s_height : N; s_prev : bytes; s_merkle : bytes; s_time : N; s_target : bytes;
                              s_nonce : N }.
Record header := mkHeader { h_summary : summary; h_evidence : evidence }.
Record block := mkBlock { b_header : header; b_txs : list tx }.

(* ---- lists: stream_serialize_list / stream_deserialize_list ---- *)
Section ListCodec.
  Context {A : Type} (enc : A -> bytes) (dec : bytes -> option (A * bytes)).
  Definition enc_list (l : list A) : bytes := vlq_enc (N.of_nat (length l)) ++ concat (map enc l).
  (* `for _ in range(length)`: fuel is the number of bytes left (every element consumes at least one byte, so a
     count larger than the remaining input fails with truncation exactly like the Python loop) *)
  Fixpoint dec_elems (fuel : nat) (count : N) (bs : bytes) : option (list A * bytes) :=
    if count =? 0 then Some ([], bs) else
    match fuel with
    | O => None
    | S f => match dec bs with
             | Some (x, r) => match dec_elems f (count - 1) r with
                              | Some (xs, r') => Some (x :: xs, r')
                              | None => None
                              end
             | None => None
             end
    end.
  Definition dec_list (bs : bytes) : option (list A * bytes) :=
    match vlq_dec bs with
    | Some (n, r) => dec_elems (length r) n r
    | None => None
    end.
End ListCodec.

(* ---- parts ---- *)
Definition enc_outref (r : outref) : bytes := or_hash r ++ be_enc 4 (or_index r).
Definition dec_outref (bs : bytes) : option (outref * bytes) :=
  match take 32 bs with
  | Some (h, r) => match dec_be 4 r with
                   | Some (i, r') => Some (mkOutref h i, r')
                   | None => None end
  | None => None end.

Definition enc_sig (s : sigv) : bytes :=
  match s with
  | SigEquiv => [0]
  | SigCoinbase h d => [1] ++ be_enc 4 h ++ be_enc 1 (N.of_nat (length d)) ++ d
  | SigSecp b => [2] ++ b
  end.
Definition dec_sig (bs : bytes) : option (sigv * bytes) :=
  match bs with
  | 0 :: r => Some (SigEquiv, r)
  | 1 :: r => match dec_be 4 r with
              | Some (h, r1) => match dec_be 1 r1 with
                                | Some (n, r2) => match take (N.to_nat n) r2 with
                                                  | Some (d, r3) => Some (SigCoinbase h d, r3)
                                                  | None => None end
                                | None => None end
              | None => None end
  | 2 :: r => match take 64 r with
              | Some (s, r1) => Some (SigSecp s, r1)
              | None => None end
  | _ => None
  end.

Definition enc_pk (pk : bytes) : bytes := [2] ++ pk.
Definition dec_pk (bs : bytes) : option (bytes * bytes) :=
  match bs with
  | 2 :: r => take 64 r
  | _ => None
  end.

Definition enc_input (i : input) : bytes := enc_outref (in_ref i) ++ enc_sig (in_sig i).
Definition dec_input (bs : bytes) : option (input * bytes) :=
  match dec_outref bs with
  | Some (r, bs1) => match dec_sig bs1 with
                     | Some (s, bs2) => Some (mkInput r s, bs2)
                     | None => None end
  | None => None end.

Definition enc_output (o : output) : bytes := be_enc 8 (out_value o) ++ enc_pk (out_pk o).
Definition dec_output (bs : bytes) : option (output * bytes) :=
  match dec_be 8 bs with
  | Some (v, bs1) => match dec_pk bs1 with
                     | Some (pk, bs2) => Some (mkOutput v pk, bs2)
                     | None => None end
  | None => None end.

Definition enc_tx (t : tx) : bytes :=
  [0] ++ enc_list enc_input (tx_inputs t) ++ enc_list enc_output (tx_outputs t).
Definition dec_tx (bs : bytes) : option (tx * bytes) :=
  match bs with
  | 0 :: r => match dec_list dec_input r with
              | Some (ins, r1) => match dec_list dec_output r1 with
                                  | Some (outs, r2) => Some (mkTx ins outs, r2)
                                  | None => None end
              | None => None end
  | _ => None
  end.

Definition enc_evidence (e : evidence) : bytes := ev_summary_hash e ++ ev_chain_sample e ++ ev_block_hash e.
Definition dec_evidence (bs : bytes) : option (evidence * bytes) :=
  match take 32 bs with
  | Some (a, r) => match take 32 r with
                   | Some (b, r1) => match take 32 r1 with
                                     | Some (c, r2) => Some (mkEvidence a b c, r2)
                                     | None => None end
                   | None => None end
  | None => None end.

Definition enc_summary (s : summary) : bytes :=
  vlq_enc (s_height s) ++ s_prev s ++ s_merkle s ++ be_enc 4 (s_time s) ++ s_target s ++ be_enc 4 (s_nonce s).
Definition dec_summary (bs : bytes) : option (summary * bytes) :=
  match vlq_dec bs with
  | Some (h, r) =>
    match take 32 r with
    | Some (p, r1) =>
      match take 32 r1 with
      | Some (m, r2) =>
        match dec_be 4 r2 with
        | Some (t, r3) =>
          match take 32 r3 with
          | Some (tg, r4) =>
            match dec_be 4 r4 with
            | Some (n, r5) => Some (mkSummary h p m t tg n, r5)
            | None => None end
          | None => None end
        | None => None end
      | None => None end
    | None => None end
  | None => None end.

Definition enc_header (h : header) : bytes := [0] ++ enc_summary (h_summary h) ++ enc_evidence (h_evidence h).
Definition dec_header (bs : bytes) : option (header * bytes) :=
  match bs with
  | 0 :: r => match dec_summary r with
              | Some (s, r1) => match dec_evidence r1 with
                                | Some (e, r2) => Some (mkHeader s e, r2)
                                | None => None end
              | None => None end
  | _ => None
  end.

Definition enc_block (b : block) : bytes := enc_header (b_header b) ++ enc_list enc_tx (b_txs b).
Definition dec_block (bs : bytes) : option (block * bytes) :=
  match dec_header bs with
  | Some (h, r) => match dec_list dec_tx r with
                   | Some (ts, r1) => Some (mkBlock h ts, r1)
                   | None => None end
  | None => None end.

(* ---- well-formedness of values = what struct.pack / the constructors accept ---- *)
Definition len_is (n : nat) (b : bytes) : bool := Nat.eqb (length b) n && bytes_wfb b.
Definition wf_outref (r : outref) : bool := len_is 32 (or_hash r) && (or_index r <? 2 ^ 32).
Definition wf_sig (s : sigv) : bool :=
  match s with
  | SigEquiv => true
  | SigCoinbase h d => (h <? 2 ^ 32) && (N.of_nat (length d) <? 256) && bytes_wfb d
  | SigSecp b => len_is 64 b
  end.
Definition wf_input (i : input) : bool := wf_outref (in_ref i) && wf_sig (in_sig i).
Definition wf_output (o : output) : bool := (out_value o <? 2 ^ 64) && len_is 64 (out_pk o).
Definition wf_tx (t : tx) : bool := forallb wf_input (tx_inputs t) && forallb wf_output (tx_outputs t).
Definition wf_evidence (e : evidence) : bool :=
  len_is 32 (ev_summary_hash e) && len_is 32 (ev_chain_sample e) && len_is 32 (ev_block_hash e).
Definition wf_summary (s : summary) : bool :=
  len_is 32 (s_prev s) && len_is 32 (s_merkle s) && (s_time s <? 2 ^ 32) && len_is 32 (s_target s)
  && (s_nonce s <? 2 ^ 32).
Definition wf_header (h : header) : bool := wf_summary (h_summary h) && wf_evidence (h_evidence h).
Definition wf_block (b : block) : bool := wf_header (b_header b) && forallb wf_tx (b_txs b).

(* ---- identities (hash.py sha256d is a parameter) ---- *)
Section Ids.
  Variable sha256d : bytes -> bytes.
  Definition tx_id (t : tx) : bytes := sha256d (enc_tx t).
  Definition header_id (h : header) : bytes := sha256d (enc_header h).
  Definition block_id (b : block) : bytes := header_id (b_header b).
  Definition summary_id (s : summary) : bytes := sha256d (enc_summary s).
  (* ids as the decoders cache them: hash of the bytes that were consumed *)
  Definition consumed (bs rest : bytes) : bytes := firstn (length bs - length rest) bs.
  Definition dec_tx_id (bs : bytes) : option (tx * bytes * bytes) :=
    match dec_tx bs with
    | Some (t, r) => Some (t, sha256d (consumed bs r), r)
    | None => None end.
  Definition dec_block_id (bs : bytes) : option (block * bytes * bytes) :=
    match dec_header bs with
    | Some (h, r) => match dec_list dec_tx r with
                     | Some (ts, r1) => Some (mkBlock h ts, sha256d (consumed bs r), r1)
                     | None => None end
    | None => None end.
End Ids.

Definition signable_input (i : input) : input := mkInput (in_ref i) SigEquiv.
Definition signable (t : tx) : tx := mkTx (map signable_input (tx_inputs t)) (tx_outputs t).
Definition thin_air (r : outref) : bool := bytes_eqb (or_hash r) (zeros 32) && (or_index r =? 0).
Definition is_real_sig (s : sigv) : bool := match s with SigSecp _ => true | _ => false end.
