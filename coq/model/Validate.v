(* consensus.py: validation "by itself" and "in coinstate", get_block_subsidy, fees, coinbase construction,
   block assembly; CoinState.add_block.  Result type distinguishes the exception classes the code distinguishes. *)
From stdpp Require Import gmap.
From Coq Require Import NArith ZArith.
From SkV Require Import Bytes Vlq Codec Merkle Ledger ChainState Pow.
Open Scope N_scope.

Inductive ekind :=
| ETx          (* ValidateTransactionError *)
| EValidation  (* any other ValidationError (base class, POW, header, block) *)
| EOther.      (* not a ValidationError: KeyError, IndexError, OverflowError, ecdsa errors, ... *)
Inductive res (A : Type) := Ok (a : A) | Err (k : ekind).
Arguments Ok {A}. Arguments Err {A}.
Definition bind {A B} (r : res A) (f : A -> res B) : res B := match r with Ok a => f a | Err k => Err k end.
Notation "'do' x <- r ; c" := (bind r (fun x => c)) (at level 60, x name, r at level 50, right associativity).
Definition check (b : bool) (k : ekind) : res unit := if b then Ok tt else Err k.
Definition of_opt {A} (o : option A) : res A := match o with Some a => Ok a | None => Err EOther end.
Fixpoint forM {A} (f : A -> res unit) (l : list A) : res unit :=
  match l with [] => Ok tt | x :: r => do _ <- f x; forM f r end.

Definition sum_outputs (outs : list output) : N := fold_right (fun o acc => out_value o + acc) 0 outs.
Fixpoint nodup_keys (seen : list refkey) (l : list refkey) : bool :=
  match l with
  | [] => true
  | k :: r => if bool_decide (k ∈ seen) then false else nodup_keys (k :: seen) r
  end.
Fixpoint nodup_bytes (seen : list bytes) (l : list bytes) : bool :=
  match l with
  | [] => true
  | k :: r => if bool_decide (k ∈ seen) then false else nodup_bytes (k :: seen) r
  end.
Definition tx_refs (t : tx) : list refkey := map (fun i => ref_key (in_ref i)) (tx_inputs t).

Section Validate.
  Variable sha : bytes -> bytes.
  Variable scrypt : bytes -> bytes.
  Variable blake : bytes -> bytes.
  (* SECP256k1PublicKey.validate(signature, message): 1 = verifies, 0 = BadSignatureError, anything else = the
     ecdsa library raised something else (e.g. malformed point) *)
  Variable verify : bytes -> bytes -> bytes -> N.    (* public key, signature, message *)
  Variable P : cparams.

  Definition get_block_subsidy (height : N) : N :=
    if p_interval P =? 0 then 0 else
    let halvings := height / p_interval P in
    if 64 <=? halvings then 0 else p_initial P / 2 ^ halvings.

  Definition sashimi_range (v : N) : res unit := check ((0 <? v) && (v <=? p_max_sashimi P)) EValidation.

  Definition merkle_root_of (txs : list tx) : option bytes :=
    root (fun a b => sha (a ++ b)) (map (tx_id sha) txs).

  (* ---- by itself ---- *)
  Fixpoint check_output_values (outs : list output) (acc : N) : res N :=
    match outs with
    | [] => Ok acc
    | o :: r => do _ <- sashimi_range (out_value o); check_output_values r (acc + out_value o)
    end.

  Definition v_noncb_by_itself (t : tx) : res unit :=
    do _ <- check (negb (Nat.eqb (length (tx_inputs t)) 0)) ETx;
    do _ <- check (negb (Nat.eqb (length (tx_outputs t)) 0)) ETx;
    do _ <- check (N.of_nat (length (enc_tx t)) <=? p_max_block P) ETx;
    do total <- check_output_values (tx_outputs t) 0;
    do _ <- sashimi_range total;
    do _ <- check (nodup_keys [] (tx_refs t)) ETx;
    forM (fun i => do _ <- check (negb (thin_air (in_ref i))) ETx; check (is_real_sig (in_sig i)) ETx) (tx_inputs t).

  Definition v_cb_by_itself (t : tx) : res unit :=
    match tx_inputs t with
    | [i] =>
      do _ <- check (thin_air (in_ref i)) ETx;
      match in_sig i with
      | SigCoinbase _ d => check (N.of_nat (length d) <=? p_max_cbdata P) ETx
      | _ => Err ETx
      end
    | _ => Err ETx
    end.

  Definition v_header_by_itself (h : header) (now : N) : res unit :=
    do _ <- check (bytes_ltb (header_id sha h) (s_target (h_summary h))) EValidation;
    check (s_time (h_summary h) <=? now + p_max_future P) EValidation.

  Definition cb_height (t : tx) : option N :=
    match tx_inputs t with
    | i :: _ => match in_sig i with SigCoinbase h _ => Some h | _ => None end
    | [] => None
    end.

  Definition v_block_by_itself (b : block) (now : N) : res unit :=
    do _ <- v_header_by_itself (b_header b) now;
    match b_txs b with
    | [] => Err EValidation
    | cb :: rest =>
      do _ <- check (N.of_nat (length (enc_block b)) <=? p_max_block P) EValidation;
      do _ <- v_cb_by_itself cb;
      do _ <- check (match cb_height cb with Some h => h =? b_height b | None => false end) EValidation;
      do _ <- forM v_noncb_by_itself rest;
      do _ <- check (nodup_bytes [] (map (tx_id sha) rest)) ETx;
      do _ <- check (nodup_keys [] (concat (map tx_refs rest))) ETx;
      match merkle_root_of (b_txs b) with
      | Some r => check (bytes_eqb (s_merkle (h_summary (b_header b))) r) EValidation
      | None => Err EOther
      end
    end.

  (* ---- in coinstate ---- *)
  Definition v_sig_for_spend (i : input) (prev_out : output) (t : tx) : res unit :=
    match in_sig i with
    | SigSecp sg =>
        let r := verify (out_pk prev_out) sg (enc_tx (signable t)) in
        if r =? 1 then Ok tt else if r =? 0 then Err ETx else Err EOther
    | _ => Err EOther   (* SignableEquivalent / CoinbaseData: Signature.validate raises NotImplementedError;
                           unreachable after the by-itself check *)
    end.

  Fixpoint v_inputs_in_state (u : utxo) (t : tx) (ins : list input) (acc : N) : res N :=
    match ins with
    | [] => Ok acc
    | i :: r =>
      match u !! ref_key (in_ref i) with
      | None => Err ETx
      | Some o => do _ <- v_sig_for_spend i o t; v_inputs_in_state u t r (acc + out_value o)
      end
    end.

  Definition v_noncb_in_state (u : utxo) (t : tx) : res unit :=
    do total_in <- v_inputs_in_state u t (tx_inputs t) 0;
    check (sum_outputs (tx_outputs t) <=? total_in) ETx.

  (* get_transaction_fee / get_block_fees: KeyError on a missing reference; may be negative *)
  Fixpoint inputs_value (u : utxo) (ins : list input) : option N :=
    match ins with
    | [] => Some 0
    | i :: r => match u !! ref_key (in_ref i), inputs_value u r with
                | Some o, Some v => Some (out_value o + v)
                | _, _ => None end
    end.
  Definition tx_fee (u : utxo) (t : tx) : option Z :=
    match inputs_value u (tx_inputs t) with
    | Some v => Some (Z.of_N v - Z.of_N (sum_outputs (tx_outputs t)))%Z
    | None => None end.
  Fixpoint block_fees (u : utxo) (ts : list tx) : option Z :=
    match ts with
    | [] => Some 0%Z
    | t :: r => match tx_fee u t, block_fees u r with
                | Some a, Some b => Some (a + b)%Z
                | _, _ => None end
    end.

  Definition v_cb_in_state (cb : tx) (b : block) (s : cstate) : res unit :=
    do prev <- of_opt (cs_blocks s !! b_prev b);
    do _ <- check (b_height b =? b_height prev + 1) EValidation;
    do u <- of_opt (cs_utxo s !! b_prev b);
    do fees <- of_opt (block_fees u (tl (b_txs b)));
    check (Z.of_N (sum_outputs (tx_outputs cb)) <=? fees + Z.of_N (get_block_subsidy (b_height b)))%Z ETx.

  Definition v_summary_in_state (sm : summary) (s : cstate) : res unit :=
    match cs_blocks s !! s_prev sm with
    | None => Err EValidation
    | Some prev =>
      do _ <- check (b_time prev <? s_time sm) EValidation;
      do tg <- of_opt (calc_target sha P s (b_height prev + 1) (s_time sm) prev);
      check (bytes_eqb (s_target sm) tg) EValidation
    end.

  Definition evidence_eqb (a b : evidence) : bool :=
    bytes_eqb (ev_summary_hash a) (ev_summary_hash b) && bytes_eqb (ev_chain_sample a) (ev_chain_sample b)
    && bytes_eqb (ev_block_hash a) (ev_block_hash b).

  Fixpoint known_hash (tbl : list (N * bytes)) (h : N) : option bytes :=
    match tbl with [] => None | (k, v) :: r => if k =? h then Some v else known_hash r h end.

  Definition v_block_in_state (b : block) (s : cstate) : res unit :=
    if (Z.of_N (b_height b) <=? p_hz P)%Z then
      (* the checkpoint shortcut applies to a block AT that height in the chain: a declared height that is not the
         parent's plus one is rejected first (fix recorded in known_findings.json) *)
      do _ <- match cs_blocks s !! b_prev b with
              | Some prev => check (b_height b =? b_height prev + 1) EValidation
              | None => check (b_height b =? 0) EValidation          (* only a genesis block has no previous block *)
              end;
      match known_hash (p_known P) (b_height b) with
      | Some kh => check (bytes_eqb (block_id sha b) kh) EValidation
      | None => Ok tt
      end
    else
      do _ <- v_summary_in_state (h_summary (b_header b)) s;
      do ev <- of_opt (construct_evidence sha scrypt blake P s (h_summary (b_header b)) (b_height b) (b_txs b));
      do _ <- check (evidence_eqb (h_evidence (b_header b)) ev) EValidation;
      match b_txs b with
      | [] => Err EOther
      | cb :: rest =>
        do _ <- v_cb_in_state cb b s;
        do u <- of_opt (cs_utxo s !! b_prev b);
        forM (v_noncb_in_state u) rest
      end.

  (* CoinState.add_block *)
  Definition add_block (s : cstate) (b : block) (now : N) : res cstate :=
    do _ <- v_block_by_itself b now;
    do _ <- v_block_in_state b s;
    of_opt (add_nv sha s b).

  (* ---- construction (mining) ---- *)
  Definition construct_coinbase (height : N) (others : list tx) (u : utxo) (data : bytes) (pk : bytes) : option tx :=
    match block_fees u others with
    | Some fees =>
      let v := (Z.of_N (get_block_subsidy height) + fees)%Z in
      if (v <? 0)%Z then None else
      Some (mkTx [mkInput (mkOutref (zeros 32) 0) (SigCoinbase height data)] [mkOutput (Z.to_N v) pk])
    | None => None
    end.

  Definition construct_block_for_mining (s : cstate) (others : list tx) (pk : bytes) (ts : N) (data : bytes)
             (nonce : N) : option block :=
    match cs_cur s, cs_head s with
    | Some cur, Some prev =>
      let height := b_height prev + 1 in
      match cs_utxo s !! cur with
      | None => None
      | Some u =>
        match construct_coinbase height others u data pk with
        | None => None
        | Some cb =>
          let txs := cb :: others in
          match merkle_root_of txs, calc_target sha P s height ts prev with
          | Some mr, Some tg =>
            let sm := mkSummary height cur mr ts tg nonce in
            match construct_evidence sha scrypt blake P s sm height txs with
            | Some ev => Some (mkBlock (mkHeader sm ev) txs)
            | None => None end
          | _, _ => None
          end
        end
      end
    | _, _ => None
    end.
End Validate.
