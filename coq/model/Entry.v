(* Entry points of the executable model: one adapter per modelled function, all reached through [dispatch]. *)
From Coq Require Import NArith List Bool Arith String.
From SkV Require Import Bytes Vlq Codec Wire Merkle Framing Sx.
Import ListNotations.
Open Scope N_scope.
Open Scope string_scope.

(* ---- rendering of values (the Python side renders its objects the same way) ---- *)
Definition sx_outref (r : outref) : sx := SL [SB (or_hash r); SN (or_index r)].
Definition sx_sig (s : sigv) : sx :=
  match s with
  | SigEquiv => SL [SN 0]
  | SigCoinbase h d => SL [SN 1; SN h; SB d]
  | SigSecp b => SL [SN 2; SB b]
  end.
Definition sx_input (i : input) : sx := SL [sx_outref (in_ref i); sx_sig (in_sig i)].
Definition sx_output (o : output) : sx := SL [SN (out_value o); SB (out_pk o)].
Definition sx_tx (t : tx) : sx := SL [sx_list sx_input (tx_inputs t); sx_list sx_output (tx_outputs t)].
Definition sx_evidence (e : evidence) : sx :=
  SL [SB (ev_summary_hash e); SB (ev_chain_sample e); SB (ev_block_hash e)].
Definition sx_summary (s : summary) : sx :=
  SL [SN (s_height s); SB (s_prev s); SB (s_merkle s); SN (s_time s); SB (s_target s); SN (s_nonce s)].
Definition sx_header (h : header) : sx := SL [sx_summary (h_summary h); sx_evidence (h_evidence h)].
Definition sx_block (b : block) : sx := SL [sx_header (b_header b); sx_list sx_tx (b_txs b)].

Definition sx_msg_header (h : msg_header) : sx := SL [SN (mh_time h); SN (mh_id h); SN (mh_irt h); SN (mh_ctx h)].
Definition sx_payload (p : payload) : sx :=
  match p with DBlock b => SL [SN 0; sx_block b] | DHeader h => SL [SN 1; sx_header h] | DTx t => SL [SN 2; sx_tx t] end.
Definition sx_msg (m : msg) : sx :=
  match m with
  | MHello h => SL [SN 0; SB (hl_your_ip h); SN (hl_your_port h); SB (hl_my_ip h); SN (hl_my_port h); SN (hl_nonce h);
                    SB (hl_agent h); sx_list SN (hl_versions h)]
  | MGetBlocks starts stop => SL [SN 1; sx_list SB starts; SB stop]
  | MInventory items => SL [SN 2; sx_list (fun it => SL [SB (fst it); SB (snd it)]) items]
  | MGetData dt h => SL [SN 3; SB dt; SB h]
  | MData p => SL [SN 4; sx_payload p]
  | MGetPeers => SL [SN 5]
  | MPeers ps => SL [SN 6; sx_list (fun p => SL [SN (pr_seen p); SB (pr_ip p); SN (pr_port p)]) ps]
  end.

(* decode / render / re-encode: [1; value; enc value; rest] or [0] *)
Definition run_codec {A} (dec : bytes -> option (A * bytes)) (enc : A -> bytes) (render : A -> sx) (bs : bytes) : sx :=
  match dec bs with
  | Some (x, r) => SL [SN 1; render x; SB (enc x); SB r]
  | None => SL [SN 0]
  end.

Fixpoint sx_mtree (t : mtree bytes) : sx :=
  match t with
  | MLeaf i v => SL [sx_nat i; SB v]
  | MNode i l r => SL [sx_nat i; sx_mtree l; sx_mtree r]
  end.

Definition sx_rerr (e : option rerr) : sx :=
  match e with None => SN 0 | Some BadMagic => SN 1 | Some TooLong => SN 2 end.

Definition dispatch (tbl : sx) (name : bytes) (arg : sx) : sx :=
  let sha := oracle tbl "sha256d" in
  let h2 := fun a b : bytes => sha (a ++ b)%list in
  let is := fun s => bytes_eqb name (name_bytes s) in
  if is "vlq" then run_codec vlq_dec vlq_enc SN (get_bytes arg)
  else if is "outref" then run_codec dec_outref enc_outref sx_outref (get_bytes arg)
  else if is "sig" then run_codec dec_sig enc_sig sx_sig (get_bytes arg)
  else if is "pk" then run_codec dec_pk enc_pk SB (get_bytes arg)
  else if is "input" then run_codec dec_input enc_input sx_input (get_bytes arg)
  else if is "output" then run_codec dec_output enc_output sx_output (get_bytes arg)
  else if is "tx" then
    match dec_tx_id sha (get_bytes arg) with
    | Some (t, id, r) => SL [SN 1; sx_tx t; SB (enc_tx t); SB r; SB id; SB (tx_id sha t)]
    | None => SL [SN 0] end
  else if is "evidence" then run_codec dec_evidence enc_evidence sx_evidence (get_bytes arg)
  else if is "summary" then run_codec dec_summary enc_summary sx_summary (get_bytes arg)
  else if is "header" then
    match dec_header (get_bytes arg) with
    | Some (h, r) => SL [SN 1; sx_header h; SB (enc_header h); SB r; SB (header_id sha h)]
    | None => SL [SN 0] end
  else if is "block" then
    match dec_block_id sha (get_bytes arg) with
    | Some (b, id, r) => SL [SN 1; sx_block b; SB (enc_block b); SB r; SB id; SB (block_id sha b)]
    | None => SL [SN 0] end
  else if is "msg_header" then run_codec dec_msg_header enc_msg_header sx_msg_header (get_bytes arg)
  else if is "msg" then run_codec dec_msg enc_msg sx_msg (get_bytes arg)
  else if is "frame" then
    match dec_frame (get_bytes arg) with
    | Some (h, m) => SL [SN 1; sx_msg_header h; sx_msg m]
    | None => SL [SN 0] end
  else if is "merkle_root" then
    sx_opt SB (root h2 (map get_bytes (get_list arg)))
  else if is "merkle_proof" then
    let l := map get_bytes (get_list (nth_sx 0 arg)) in
    let i := N.to_nat (get_N (nth_sx 1 arg)) in
    match tree l with
    | Some t => SL [SN 1; sx_mtree t; sx_mtree (get_proof h2 t i); SB (mt_hash h2 (get_proof h2 t i))]
    | None => SL [SN 0] end
  else if is "feed" then
    let mx := get_N (nth_sx 0 arg) in
    let chunks := map get_bytes (get_list (nth_sx 1 arg)) in
    let '(fs, e, st) := feed mx r_init chunks in
    SL [sx_list SB fs; sx_rerr e; SB (r_buf st); sx_bool (r_magic st); sx_opt SN (r_len st)]
  else if is "send_stream" then
    SB (send_stream (map get_bytes (get_list arg)))
  else if is "sender_run" then
    let ops := map (fun o => if N.eqb (get_N (nth_sx 0 o)) 0 then OSend (get_bytes (nth_sx 1 o))
                             else OCanSend (N.to_nat (get_N (nth_sx 1 o)))) (get_list arg) in
    let st := s_run ops in
    SL [SB (s_written st); SB (s_buf st); sx_list SB (s_backlog st); sx_bool (s_writing st)]
  else SL [SN 777].
