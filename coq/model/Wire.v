(* networking/messages.py: message header and the seven protocol messages.
   Decoders ignore the version byte of the header and of Hello and the reserved padding (as the code does), so only
   the round trip holds for wire messages, not canonicity. *)
From Coq Require Import NArith List Bool Arith.
From SkV Require Import Bytes Vlq Codec.
Import ListNotations.
Open Scope N_scope.

Record msg_header := mkMH { mh_time : N; mh_id : N; mh_irt : N; mh_ctx : N }.
Definition enc_msg_header (h : msg_header) : bytes :=
  [0] ++ be_enc 4 (mh_time h) ++ be_enc 4 (mh_id h) ++ be_enc 4 (mh_irt h) ++ be_enc 8 (mh_ctx h) ++ zeros 32.
Definition dec_msg_header (bs : bytes) : option (msg_header * bytes) :=
  match take 1 bs with
  | Some (_, r0) =>
    match dec_be 4 r0 with
    | Some (t, r1) =>
      match dec_be 4 r1 with
      | Some (i, r2) =>
        match dec_be 4 r2 with
        | Some (q, r3) =>
          match dec_be 8 r3 with
          | Some (c, r4) =>
            match take 32 r4 with
            | Some (_, r5) => Some (mkMH t i q c, r5)
            | None => None end
          | None => None end
        | None => None end
      | None => None end
    | None => None end
  | None => None end.

Record hello := mkHello { hl_your_ip : bytes; hl_your_port : N; hl_my_ip : bytes; hl_my_port : N; hl_nonce : N;
                          hl_agent : bytes; hl_versions : list N }.
Record peer_rec := mkPeer { pr_seen : N; pr_ip : bytes; pr_port : N }.
Inductive payload := DBlock (b : block) | DHeader (h : header) | DTx (t : tx).
Inductive msg :=
| MHello (h : hello)
| MGetBlocks (starts : list bytes) (stop : bytes)
| MInventory (items : list (bytes * bytes))          (* (data_type, hash) *)
| MGetData (dt : bytes) (h : bytes)
| MData (p : payload)
| MGetPeers
| MPeers (ps : list peer_rec).

Definition enc_version (v : N) : bytes := be_enc 1 v.
Definition dec_version (bs : bytes) : option (N * bytes) := dec_be 1 bs.
Definition enc_hash32 (h : bytes) : bytes := h.
Definition dec_hash32 (bs : bytes) : option (bytes * bytes) := take 32 bs.
Definition enc_item (it : bytes * bytes) : bytes := fst it ++ snd it.
Definition dec_item (bs : bytes) : option ((bytes * bytes) * bytes) :=
  match take 2 bs with
  | Some (dt, r) => match take 32 r with
                    | Some (h, r1) => Some ((dt, h), r1)
                    | None => None end
  | None => None end.
Definition enc_peer (p : peer_rec) : bytes := be_enc 4 (pr_seen p) ++ pr_ip p ++ be_enc 2 (pr_port p).
Definition dec_peer (bs : bytes) : option (peer_rec * bytes) :=
  match dec_be 4 bs with
  | Some (s, r) => match take 16 r with
                   | Some (ip, r1) => match dec_be 2 r1 with
                                      | Some (p, r2) => Some (mkPeer s ip p, r2)
                                      | None => None end
                   | None => None end
  | None => None end.

Definition enc_hello (h : hello) : bytes :=
  [0] ++ hl_your_ip h ++ be_enc 2 (hl_your_port h) ++ hl_my_ip h ++ be_enc 2 (hl_my_port h) ++
  be_enc 4 (hl_nonce h) ++ be_enc 1 (N.of_nat (length (hl_agent h))) ++ hl_agent h ++
  enc_list enc_version (hl_versions h) ++ zeros 256.
Definition dec_hello (bs : bytes) : option (hello * bytes) :=
  match take 1 bs with
  | Some (_, r0) =>
    match take 16 r0 with
    | Some (yip, r1) =>
      match dec_be 2 r1 with
      | Some (yp, r2) =>
        match take 16 r2 with
        | Some (mip, r3) =>
          match dec_be 2 r3 with
          | Some (mp, r4) =>
            match dec_be 4 r4 with
            | Some (nonce, r5) =>
              match dec_be 1 r5 with
              | Some (ual, r6) =>
                match take (N.to_nat ual) r6 with
                | Some (ua, r7) =>
                  match dec_list dec_version r7 with
                  | Some (vs, r8) =>
                    match take 256 r8 with
                    | Some (_, r9) => Some (mkHello yip yp mip mp nonce ua vs, r9)
                    | None => None end
                  | None => None end
                | None => None end
              | None => None end
            | None => None end
          | None => None end
        | None => None end
      | None => None end
    | None => None end
  | None => None end.

Definition enc_payload (p : payload) : bytes :=
  match p with
  | DBlock b => [0; 0] ++ enc_block b
  | DHeader h => [0; 1] ++ enc_header h
  | DTx t => [0; 2] ++ enc_tx t
  end.
Definition dec_payload (bs : bytes) : option (payload * bytes) :=
  match bs with
  | 0 :: 0 :: r => match dec_block r with Some (b, r1) => Some (DBlock b, r1) | None => None end
  | 0 :: 1 :: r => match dec_header r with Some (h, r1) => Some (DHeader h, r1) | None => None end
  | 0 :: 2 :: r => match dec_tx r with Some (t, r1) => Some (DTx t, r1) | None => None end
  | _ => None
  end.

Definition enc_msg (m : msg) : bytes :=
  match m with
  | MHello h => [0; 0] ++ enc_hello h
  | MGetBlocks starts stop => [0; 1] ++ [0] ++ enc_list enc_hash32 starts ++ stop
  | MInventory items => [0; 2] ++ [0] ++ enc_list enc_item items
  | MGetData dt h => [0; 3] ++ [0] ++ dt ++ h
  | MData p => [0; 4] ++ [0] ++ enc_payload p
  | MGetPeers => [0; 5] ++ [0]
  | MPeers ps => [0; 6] ++ [0] ++ enc_list enc_peer ps
  end.
Definition dec_msg (bs : bytes) : option (msg * bytes) :=
  match bs with
  | 0 :: 0 :: r => match dec_hello r with Some (h, r1) => Some (MHello h, r1) | None => None end
  | 0 :: 1 :: 0 :: r =>
      match dec_list dec_hash32 r with
      | Some (starts, r1) => match take 32 r1 with
                             | Some (stop, r2) => Some (MGetBlocks starts stop, r2)
                             | None => None end
      | None => None end
  | 0 :: 2 :: 0 :: r => match dec_list dec_item r with Some (its, r1) => Some (MInventory its, r1) | None => None end
  | 0 :: 3 :: 0 :: r =>
      match take 2 r with
      | Some (dt, r1) => match take 32 r1 with
                         | Some (h, r2) => Some (MGetData dt h, r2)
                         | None => None end
      | None => None end
  | 0 :: 4 :: 0 :: r => match dec_payload r with Some (p, r1) => Some (MData p, r1) | None => None end
  | 0 :: 5 :: 0 :: r => Some (MGetPeers, r)
  | 0 :: 6 :: 0 :: r => match dec_list dec_peer r with Some (ps, r1) => Some (MPeers ps, r1) | None => None end
  | _ => None
  end.

(* a whole frame payload: header then message (handle_message_data); trailing bytes are ignored by the code *)
Definition dec_frame (bs : bytes) : option (msg_header * msg) :=
  match dec_msg_header bs with
  | Some (h, r) => match dec_msg r with Some (m, _) => Some (h, m) | None => None end
  | None => None end.

Definition wf_msg_header (h : msg_header) : bool :=
  (mh_time h <? 2 ^ 32) && (mh_id h <? 2 ^ 32) && (mh_irt h <? 2 ^ 32) && (mh_ctx h <? 2 ^ 64).
Definition wf_hello (h : hello) : bool :=
  len_is 16 (hl_your_ip h) && (hl_your_port h <? 2 ^ 16) && len_is 16 (hl_my_ip h) && (hl_my_port h <? 2 ^ 16)
  && (hl_nonce h <? 2 ^ 32) && (N.of_nat (length (hl_agent h)) <? 256) && bytes_wfb (hl_agent h)
  && forallb (fun v => v <? 256) (hl_versions h).
Definition wf_peer (p : peer_rec) : bool := (pr_seen p <? 2 ^ 32) && len_is 16 (pr_ip p) && (pr_port p <? 2 ^ 16).
Definition wf_payload (p : payload) : bool :=
  match p with DBlock b => wf_block b | DHeader h => wf_header h | DTx t => wf_tx t end.
Definition wf_msg (m : msg) : bool :=
  match m with
  | MHello h => wf_hello h
  | MGetBlocks starts stop => forallb (len_is 32) starts && len_is 32 stop
  | MInventory items => forallb (fun it => len_is 2 (fst it) && len_is 32 (snd it)) items
  | MGetData dt h => len_is 2 dt && len_is 32 h
  | MData p => wf_payload p
  | MGetPeers => true
  | MPeers ps => forallb wf_peer ps
  end.
