(* local_peer.py handle_remote_peer_selector_event (the catch-all) around remote_peer.py handle_receive_data ->
   MessageReceiver.receive -> handle_message_data -> handle_message_received, for ONE read of bytes from one peer.
   The per-message handlers are a parameter (they are modelled elsewhere: NodeModel for blocks and transactions,
   PeerBook for hello/peers, Sync for get-blocks); this file models what happens around them: framing, decoding,
   protocol order, and the containment of every failure to the offending connection. *)
From Coq Require Import NArith List Bool Arith.
From SkV Require Import Bytes Vlq Codec Wire Framing.
Import ListNotations.
Open Scope N_scope.

Section Dispatch.
  Variable max_size : N.
  Variable shared : Type.        (* chain state, pending pool, block store, peer book, other connections *)
  (* a message handler: new shared state, or failure (any exception) *)
  Variable handle : shared -> msg_header -> msg -> bool (* hello already received on this connection *) -> option shared.

  Record cstate := mkC { c_recv : rstate; c_hello : bool }.
  Inductive outcome := Keep (c : cstate) (s : shared) | Dropped (s : shared).   (* Dropped: this connection is closed *)

  Definition is_hello (m : msg) : bool := match m with MHello _ => true | _ => false end.

  (* handle_message_data + handle_message_received for the frames of one read, in order; the first failure stops
     everything (the exception propagates to the catch-all) *)
  Fixpoint frames (c_hello0 : bool) (s : shared) (fs : list bytes) : option (bool * shared) :=
    match fs with
    | [] => Some (c_hello0, s)
    | f :: r =>
        match dec_frame f with
        | None => None                                        (* undecodable payload / unknown message or data type *)
        | Some (h, m) =>
            if negb (is_hello m) && negb c_hello0 then None   (* "First message must be Hello" *)
            else match handle s h m c_hello0 with
                 | None => None
                 | Some s' => frames (c_hello0 || is_hello m) s' r
                 end
        end
    end.

  (* one READ event on connection c with data: whatever goes wrong, only this connection is dropped and the shared
     state is the one reached by the frames handled BEFORE the failure *)
  Fixpoint frames_partial (c_hello0 : bool) (s : shared) (fs : list bytes) : shared :=
    match fs with
    | [] => s
    | f :: r =>
        match dec_frame f with
        | None => s
        | Some (h, m) =>
            if negb (is_hello m) && negb c_hello0 then s
            else match handle s h m c_hello0 with
                 | None => s
                 | Some s' => frames_partial (c_hello0 || is_hello m) s' r
                 end
        end
    end.

  Definition on_read (c : cstate) (s : shared) (data : bytes) : outcome :=
    let '(r', fs, e) := receive max_size (c_recv c) data in
    match frames (c_hello c) s fs, e with
    | Some (hl, s'), None => Keep (mkC r' hl) s'
    | Some (_, s'), Some _ => Dropped s'                       (* framing refused after the frames were handled *)
    | None, _ => Dropped (frames_partial (c_hello c) s fs)
    end.
End Dispatch.
