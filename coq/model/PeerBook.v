(* networking/manager.py NetworkManager (connected / disconnected peer book, my_addresses), remote_peer.py
   (is_time_to_connect, hello and peers handling), local_peer.py (disconnect, start_outgoing_connection),
   disk_interface.py write_peers -- over abstract addresses.  A peer key is (host, port, direction). *)
From Coq Require Import NArith List Bool Arith.
Import ListNotations.
Open Scope N_scope.

Inductive dir := Incoming | Outgoing.
Definition dir_eqb (a b : dir) : bool := match a, b with Incoming, Incoming | Outgoing, Outgoing => true | _, _ => false end.
Record pkey := mkKey { k_host : N; k_port : N; k_dir : dir }.
Definition key_eqb (a b : pkey) : bool := (k_host a =? k_host b) && (k_port a =? k_port b) && dir_eqb (k_dir a) (k_dir b).

Record conn := mkConn { c_key : pkey; c_id : N;          (* c_id: identity of the connection object *)
                        c_hello : bool; c_ban : N; c_last : option N }.
Record dpeer := mkD { d_key : pkey; d_ban : N; d_last : option N }.

Record book := mkBook {
  b_conn : list conn;              (* connected_peers: at most one entry per key *)
  b_disc : list dpeer;             (* disconnected_peers: at most one entry per key *)
  b_mine : list (N * N);           (* my_addresses *)
  b_attempts : list (pkey * N)     (* log of start_outgoing_connection calls (key, time), newest last *)
}.
Definition book_empty : book := mkBook [] [] [] [].

Definition find_conn (l : list conn) (k : pkey) : option conn := find (fun c => key_eqb (c_key c) k) l.
Definition find_disc (l : list dpeer) (k : pkey) : option dpeer := find (fun d => key_eqb (d_key d) k) l.
Definition del_conn (l : list conn) (k : pkey) : list conn := filter (fun c => negb (key_eqb (c_key c) k)) l.
Definition del_disc (l : list dpeer) (k : pkey) : list dpeer := filter (fun d => negb (key_eqb (d_key d) k)) l.
Definition set_disc (l : list dpeer) (d : dpeer) : list dpeer := del_disc l (d_key d) ++ [d].
Definition set_conn (l : list conn) (c : conn) : list conn := del_conn l (c_key c) ++ [c].

Section Book.
  Variables first_wait max_wait max_attempts : N.   (* TIME_TO_SECOND_CONNECTION_ATTEMPT, MAX_TIME_BETWEEN_..., MAX_CONNECTION_ATTEMPTS *)

  (* DisconnectedRemotePeer.is_time_to_connect *)
  Definition wait_for (ban : N) : N := N.min (first_wait * 2 ^ ban) max_wait.
  Definition is_time_to_connect (d : dpeer) (now : N) : bool :=
    if max_attempts <? d_ban d then false
    else match d_last d with
         | None => true
         | Some t => wait_for (d_ban d) <=? now - t      (* Python ints: now >= t in every run *)
         end.

  (* NetworkManager.handle_peer_disconnected (called through LocalPeer.disconnect, which swallows the KeyError of a
     key that is not connected) *)
  Definition peer_disconnected (b : book) (c : conn) : book :=
    match find_conn (b_conn b) (c_key c) with
    | None => b                                   (* del raises KeyError: swallowed, nothing else happens *)
    | Some _ =>
      let conn' := del_conn (b_conn b) (c_key c) in
      match k_dir (c_key c) with
      | Outgoing =>
          let ban := if c_hello c then c_ban c else c_ban c + 1 in
          mkBook conn' (set_disc (b_disc b) (mkD (c_key c) ban (c_last c))) (b_mine b) (b_attempts b)
      | Incoming => mkBook conn' (b_disc b) (b_mine b) (b_attempts b)
      end
    end.

  (* NetworkManager.handle_peer_connected *)
  Definition peer_connected (b : book) (c : conn) : book :=
    let b1 := match find_conn (b_conn b) (c_key c) with
              | Some old => peer_disconnected b old            (* "duplicate": drop the existing one *)
              | None => b end in
    mkBook (set_conn (b_conn b1) c) (del_disc (b_disc b1) (c_key c)) (b_mine b1) (b_attempts b1).

  (* NetworkManager.step, disconnected part: every OUTGOING entry that is due and not one of my own addresses *)
  Definition due (b : book) (now : N) (d : dpeer) : bool :=
    dir_eqb (k_dir (d_key d)) Outgoing &&
    negb (existsb (fun a => (fst a =? k_host (d_key d)) && (snd a =? k_port (d_key d))) (b_mine b)) &&
    is_time_to_connect d now.
  (* start_outgoing_connection(d) at time now; fresh = id of the new connection object *)
  Definition start_outgoing (b : book) (d : dpeer) (now fresh : N) : book :=
    let b1 := peer_connected b (mkConn (d_key d) fresh false (d_ban d) (Some now)) in
    mkBook (b_conn b1) (b_disc b1) (b_mine b1) (b_attempts b1 ++ [(d_key d, now)]).
  Fixpoint step_disc (b : book) (ds : list dpeer) (now fresh : N) : book :=
    match ds with
    | [] => b
    | d :: r => if due b now d then step_disc (start_outgoing b d now fresh) r now (fresh + 1)
                else step_disc b r now fresh
    end.
  Definition step (b : book) (now fresh : N) : book := step_disc b (b_disc b) now fresh.

  (* add a peer learnt from a hello (reverse direction) or a peers announcement: never overwrites *)
  Definition learn (b : book) (k : pkey) : book :=
    match find_disc (b_disc b) k, find_conn (b_conn b) k with
    | None, None => mkBook (b_conn b) (b_disc b ++ [mkD k 0 None]) (b_mine b) (b_attempts b)
    | _, _ => b
    end.

  (* handle_hello_message_received on connection object cid (looked up by identity) *)
  Definition hello (b : book) (c : conn) (my_port : N) (nonce_is_mine : bool) : book :=
    let c' := mkConn (c_key c) (c_id c) true 0 (c_last c) in
    let upd := map (fun x => if (c_id x =? c_id c) then c' else x) (b_conn b) in
    let b0 := mkBook upd (b_disc b) (b_mine b) (b_attempts b) in
    match k_dir (c_key c) with
    | Incoming => learn b0 (mkKey (k_host (c_key c)) my_port Outgoing)
    | Outgoing =>
        if nonce_is_mine
        then peer_disconnected (mkBook (b_conn b0) (b_disc b0) (b_mine b0 ++ [(k_host (c_key c), k_port (c_key c))])
                                       (b_attempts b0)) c'
        else b0
    end.

  Definition peers_msg (b : book) (announced : list (N * N)) : book :=
    fold_left (fun acc a => learn acc (mkKey (fst a) (snd a) Outgoing)) announced b.

  Definition sane (b : book) : bool :=
    forallb (fun c => match find_disc (b_disc b) (c_key c) with None => true | Some _ => false end) (b_conn b).
End Book.

(* disk_interface.write_peers: newest first, no duplicate key, at most `cap` entries *)
Definition write_peers (cap : nat) (db : list pkey) (p : pkey) : list pkey :=
  firstn cap (p :: filter (fun k => negb (key_eqb k p)) db).
