(* coinstate.py: the five persistent maps and add_block_no_validation, forks().  None = Python exception. *)
From stdpp Require Import gmap.
From Coq Require Import NArith.
From SkV Require Import Bytes Codec Ledger.
Open Scope N_scope.

Record cstate := mkCS {
  cs_blocks : gmap bytes block;                 (* block_by_hash *)
  cs_utxo : gmap bytes utxo;                    (* unspent_transaction_outs_by_hash *)
  cs_byheight : gmap bytes (gmap N block);      (* block_by_height_by_hash *)
  cs_heads : gmap bytes block;                  (* heads *)
  cs_cur : option bytes                         (* current_chain_hash *)
}.
Definition cs_empty : cstate := mkCS ∅ ∅ ∅ ∅ None.

Definition b_prev (b : block) : bytes := s_prev (h_summary (b_header b)).
Definition b_height (b : block) : N := s_height (h_summary (b_header b)).
Definition b_time (b : block) : N := s_time (h_summary (b_header b)).
Definition b_target (b : block) : bytes := s_target (h_summary (b_header b)).
Definition is_zero32 (h : bytes) : bool := bytes_eqb h (zeros 32).

Section CS.
  Variable sha : bytes -> bytes.
  Notation bid := (block_id sha).

  Definition add_nv (s : cstate) (b : block) : option cstate :=
    let id := bid b in
    match (if is_zero32 (b_prev b) then Some ∅ else cs_utxo s !! b_prev b) with
    | None => None
    | Some u0 =>
      match uto_apply_block sha u0 b with
      | None => None
      | Some u1 =>
        match (if is_zero32 (b_prev b) then Some {[ 0 := b ]}
               else match cs_byheight s !! b_prev b with
                    | Some m => Some (<[ b_height b := b ]> m)
                    | None => None end) with
        | None => None
        | Some bh =>
          let byheight := if is_zero32 (b_prev b) then {[ id := bh ]} else <[ id := bh ]> (cs_byheight s) in
          let heads := <[ id := b ]> (delete (b_prev b) (cs_heads s)) in
          match (match cs_cur s with
                 | None => Some id
                 | Some c =>
                   if bytes_eqb c (b_prev b) then Some id
                   else match cs_blocks s !! c with
                        | Some cb => Some (if b_height cb <? b_height b then id else c)
                        | None => None
                        end
                 end) with
          | None => None
          | Some cur =>
            Some (mkCS (<[ id := b ]> (cs_blocks s)) (<[ id := u1 ]> (cs_utxo s)) byheight heads (Some cur))
          end
        end
      end
    end.

  Definition cs_head (s : cstate) : option block :=
    match cs_cur s with Some c => cs_blocks s !! c | None => None end.

  (* chain of a stored block, oldest first (PublicKeyBalances.chain_at_hash); fuel bounds the walk *)
  Fixpoint chain_rev (fuel : nat) (s : cstate) (h : bytes) : option (list block) :=
    match fuel with
    | O => None
    | S f => match cs_blocks s !! h with
             | None => None
             | Some b => if is_zero32 (b_prev b) then Some [b]
                         else match chain_rev f s (b_prev b) with
                              | Some l => Some (b :: l)
                              | None => None end
             end
    end.
  Definition chain_to (s : cstate) (h : bytes) : option (list block) :=
    option_map (@rev block) (chain_rev (S (size (cs_blocks s))) s h).
  Definition balances_at (s : cstate) (h : bytes) : option (pkbal) :=
    match chain_to s h with
    | Some ch => option_map snd (replay sha ∅ ∅ ch)
    | None => None
    end.

  (* forks(): for a tip, walk down until the block is on the active chain *)
  Fixpoint lca_with_main (fuel : nat) (s : cstate) (main : gmap N block) (b : block) : option block :=
    match fuel with
    | O => None
    | S f =>
      match main !! b_height b with
      | Some mb => if bytes_eqb (bid mb) (bid b) then Some b
                   else match cs_blocks s !! b_prev b with
                        | Some p => lca_with_main f s main p
                        | None => None end
      | None => match cs_blocks s !! b_prev b with
                | Some p => lca_with_main f s main p
                | None => None end
      end
    end.
End CS.
