(* networking/remote_peer.py MessageReceiver.receive: MAGIC, 4-byte big-endian length (<= MAX_MESSAGE_SIZE), payload.
   The model returns the frames handed to handle_message_data by one call, the new receiver state, and the error the
   call raises (if any).  [parse] is the declarative grammar of a whole stream. *)
From Coq Require Import NArith List Bool Arith.
From SkV Require Import Bytes.
Import ListNotations.
Open Scope N_scope.

Definition MAGIC : bytes := [77; 65; 74; 73].   (* b'MAJI' *)

Inductive rerr := BadMagic | TooLong.
Record rstate := mkR { r_buf : bytes; r_magic : bool; r_len : option N }.
Definition r_init : rstate := mkR [] false None.

Section Recv.
  Variable max_size : N.    (* networking/params.py MAX_MESSAGE_SIZE *)

  Fixpoint recv_loop (fuel : nat) (st : rstate) : rstate * list bytes * option rerr :=
    match fuel with
    | O => (st, [], None)
    | S f =>
      (* step 1: magic *)
      let check1 :=
        if negb (r_magic st) && (4 <=? length (r_buf st))%nat then
          if bytes_eqb (firstn 4 (r_buf st)) MAGIC
          then inl (mkR (skipn 4 (r_buf st)) true (r_len st))
          else inr BadMagic
        else inl st in
      match check1 with
      | inr e => (st, [], Some e)
      | inl st1 =>
        (* step 2: length (stored before it is checked) *)
        let check2 :=
          match r_len st1 with
          | None =>
            if (4 <=? length (r_buf st1))%nat then
              let n := be_dec (firstn 4 (r_buf st1)) in
              if max_size <? n then inr (mkR (r_buf st1) (r_magic st1) (Some n))
              else inl (mkR (skipn 4 (r_buf st1)) (r_magic st1) (Some n))
            else inl st1
          | Some _ => inl st1
          end in
        match check2 with
        | inr st_bad => (st_bad, [], Some TooLong)
        | inl st2 =>
          (* step 3: complete payload -> deliver, reset, repeat *)
          match r_len st2 with
          | Some n =>
            if (N.to_nat n <=? length (r_buf st2))%nat then
              let frame := firstn (N.to_nat n) (r_buf st2) in
              let '(st', fs, e) := recv_loop f (mkR (skipn (N.to_nat n) (r_buf st2)) false None) in
              (st', frame :: fs, e)
            else (st2, [], None)
          | None => (st2, [], None)
          end
        end
      end
    end.

  (* receive(data): self.buffer += data, then the loop *)
  Definition receive (st : rstate) (data : bytes) : rstate * list bytes * option rerr :=
    let st0 := mkR (r_buf st ++ data) (r_magic st) (r_len st) in
    recv_loop (S (length (r_buf st0))) st0.

  (* a connection: feed chunks until one raises (the connection is then closed) *)
  Fixpoint feed (st : rstate) (chunks : list bytes) : list bytes * option rerr * rstate :=
    match chunks with
    | [] => ([], None, st)
    | c :: cs =>
      let '(st1, fs, e) := receive st c in
      match e with
      | Some err => (fs, Some err, st1)
      | None => let '(fs', e', st') := feed st1 cs in (fs ++ fs', e', st')
      end
    end.

  (* the grammar of the whole stream: frames, the refusal (if any), and the unconsumed tail *)
  Fixpoint parse (fuel : nat) (bs : bytes) : list bytes * option rerr * bytes :=
    match fuel with
    | O => ([], None, bs)
    | S f =>
      if (length bs <? 4)%nat then ([], None, bs)
      else if negb (bytes_eqb (firstn 4 bs) MAGIC) then ([], Some BadMagic, bs)
      else let r := skipn 4 bs in
        if (length r <? 4)%nat then ([], None, bs)
        else let n := be_dec (firstn 4 r) in
          if max_size <? n then ([], Some TooLong, bs)
          else let p := skipn 4 r in
            if (length p <? N.to_nat n)%nat then ([], None, bs)
            else let '(fs, e, rest) := parse f (skipn (N.to_nat n) p) in
                 (firstn (N.to_nat n) p :: fs, e, rest)
    end.
  Definition parse_stream (bs : bytes) := parse (S (length bs)) bs.

  (* the bytes a receiver state still stands for *)
  Definition pending (st : rstate) : bytes :=
    (if r_magic st then MAGIC else []) ++
    (match r_len st with Some n => be_enc 4 n | None => [] end) ++ r_buf st.
End Recv.

(* the sending side: networking/remote_peer.py ConnectedRemotePeer.send_message appends
   MAGIC + struct.pack(">I", len(data)) + data to the connection's backlog; handle_can_send writes backlog entries out
   in order, in whatever pieces the socket accepts.  [send_stream] is the byte stream a list of payloads becomes. *)
Definition send_frame (p : bytes) : bytes := MAGIC ++ be_enc 4 (N.of_nat (length p)) ++ p.
Definition send_stream (ps : list bytes) : bytes := concat (map send_frame ps).

(* the sender's state machine: send_buffer, send_backlog, whether the socket is registered for writability
   (start_sending / stop_sending), and the bytes the socket has taken so far.  One [OCanSend n] is ONE sock.send()
   call that accepts min n |buffer| bytes; the immediate recursion of handle_can_send after a refill is the next
   [OCanSend] of the trace. *)
Record sstate := mkS { s_buf : bytes; s_backlog : list bytes; s_writing : bool; s_written : bytes }.
Definition s_init : sstate := mkS [] [] false [].
Inductive sop := OSend (p : bytes) | OCanSend (n : nat).

Definition s_send (st : sstate) (p : bytes) : sstate :=
  let bl := s_backlog st ++ [send_frame p] in
  match s_buf st with
  | [] => match bl with
          | x :: rest => mkS x rest true (s_written st)
          | [] => st
          end
  | _ :: _ => mkS (s_buf st) bl (s_writing st) (s_written st)
  end.

Definition s_can_send (st : sstate) (n : nat) : sstate :=
  let k := Nat.min n (length (s_buf st)) in
  let w := s_written st ++ firstn k (s_buf st) in
  match skipn k (s_buf st) with
  | [] => match s_backlog st with
          | [] => mkS [] [] false w
          | x :: rest => mkS x rest (s_writing st) w
          end
  | b => mkS b (s_backlog st) (s_writing st) w
  end.

Definition s_step (st : sstate) (o : sop) : sstate :=
  match o with OSend p => s_send st p | OCanSend n => s_can_send st n end.
Definition s_run (ops : list sop) : sstate := fold_left s_step ops s_init.
Fixpoint sent_of (ops : list sop) : list bytes :=
  match ops with [] => [] | OSend p :: r => p :: sent_of r | OCanSend _ :: r => sent_of r end.
