(* C07 -- canonical identity: one encoding per value, id is the hash of it.
   Consensus objects: round trip for every well-formed value (wf = what struct.pack and the constructors accept) and
   canonicity for every byte string; ids cached at decode time equal the hash of the canonical encoding.
   Wire messages (header + the seven messages): round trip for every well-formed message, decoded messages are well
   formed and re-encodable; their decoders ignore the version byte and reserved padding by design, so canonicity holds
   only outside header/hello (recorded: C07_wire_header_not_canonical). *)
From Coq Require Import NArith List.
From SkV Require Import Bytes Vlq VlqProofs Codec CodecProofs Wire WireProofs.
Import ListNotations.
Open Scope N_scope.

Theorem C07_vlq_roundtrip : forall i rest, vlq_dec (vlq_enc i ++ rest) = Some (i, rest).
Proof. exact vlq_roundtrip. Qed.
Theorem C07_vlq_canonical : forall bs v rest, bytes_wf bs -> vlq_dec bs = Some (v, rest) -> vlq_enc v ++ rest = bs.
Proof. exact vlq_canonical. Qed.
(* the decoder as shipped before the fix (no canonicity check) violates the property: the finding, as a theorem *)
Theorem C07_vlq_lenient_refuted :
  exists bs v rest, bytes_wf bs /\ vlq_dec_lenient bs = Some (v, rest) /\ vlq_enc v ++ rest <> bs.
Proof. exact vlq_canonical_refuted. Qed.

Theorem C07_roundtrip_tx : forall t r, wf_tx t = true -> dec_tx (enc_tx t ++ r) = Some (t, r).
Proof. exact dec_tx_roundtrip. Qed.
Theorem C07_roundtrip_header : forall h r, wf_header h = true -> dec_header (enc_header h ++ r) = Some (h, r).
Proof. exact dec_header_roundtrip. Qed.
Theorem C07_roundtrip_block : forall b r, wf_block b = true -> dec_block (enc_block b ++ r) = Some (b, r).
Proof. exact dec_block_roundtrip. Qed.
Theorem C07_roundtrip_parts :
  (forall x r, wf_outref x = true -> dec_outref (enc_outref x ++ r) = Some (x, r)) /\
  (forall x r, wf_sig x = true -> dec_sig (enc_sig x ++ r) = Some (x, r)) /\
  (forall x r, len_is 64 x = true -> dec_pk (enc_pk x ++ r) = Some (x, r)) /\
  (forall x r, wf_input x = true -> dec_input (enc_input x ++ r) = Some (x, r)) /\
  (forall x r, wf_output x = true -> dec_output (enc_output x ++ r) = Some (x, r)) /\
  (forall x r, wf_evidence x = true -> dec_evidence (enc_evidence x ++ r) = Some (x, r)) /\
  (forall x r, wf_summary x = true -> dec_summary (enc_summary x ++ r) = Some (x, r)).
Proof.
  repeat split; [exact dec_outref_roundtrip | exact dec_sig_roundtrip | exact dec_pk_roundtrip
    | exact dec_input_roundtrip | exact dec_output_roundtrip | exact dec_evidence_roundtrip
    | exact dec_summary_roundtrip].
Qed.

Theorem C07_canonical_tx : forall bs t r, bytes_wf bs -> dec_tx bs = Some (t, r) -> enc_tx t ++ r = bs.
Proof. exact dec_tx_canonical. Qed.
Theorem C07_canonical_header : forall bs h r, bytes_wf bs -> dec_header bs = Some (h, r) -> enc_header h ++ r = bs.
Proof. exact dec_header_canonical. Qed.
Theorem C07_canonical_block : forall bs b r, bytes_wf bs -> dec_block bs = Some (b, r) -> enc_block b ++ r = bs.
Proof. exact dec_block_canonical. Qed.
Theorem C07_canonical_parts :
  (forall bs x r, bytes_wf bs -> dec_outref bs = Some (x, r) -> enc_outref x ++ r = bs) /\
  (forall bs x r, bytes_wf bs -> dec_sig bs = Some (x, r) -> enc_sig x ++ r = bs) /\
  (forall bs x r, bytes_wf bs -> dec_pk bs = Some (x, r) -> enc_pk x ++ r = bs) /\
  (forall bs x r, bytes_wf bs -> dec_input bs = Some (x, r) -> enc_input x ++ r = bs) /\
  (forall bs x r, bytes_wf bs -> dec_output bs = Some (x, r) -> enc_output x ++ r = bs) /\
  (forall bs x r, bytes_wf bs -> dec_evidence bs = Some (x, r) -> enc_evidence x ++ r = bs) /\
  (forall bs x r, bytes_wf bs -> dec_summary bs = Some (x, r) -> enc_summary x ++ r = bs).
Proof.
  repeat split; [exact dec_outref_canonical | exact dec_sig_canonical | exact dec_pk_canonical
    | exact dec_input_canonical | exact dec_output_canonical | exact dec_evidence_canonical
    | exact dec_summary_canonical].
Qed.
(* whatever a decoder returns is a value the encoder accepts *)
Theorem C07_decoded_wf_block : forall bs b r, bytes_wf bs -> dec_block bs = Some (b, r) -> wf_block b = true /\ bytes_wf r.
Proof. exact dec_block_wf. Qed.
Theorem C07_decoded_wf_tx : forall bs t r, bytes_wf bs -> dec_tx bs = Some (t, r) -> wf_tx t = true /\ bytes_wf r.
Proof. exact dec_tx_wf. Qed.

(* ids: the id cached from the consumed bytes IS the hash of the canonical encoding, for any hash function *)
Theorem C07_id_tx : forall sha bs t id r, bytes_wf bs -> dec_tx_id sha bs = Some (t, id, r) -> id = tx_id sha t.
Proof. exact dec_tx_id_canonical. Qed.
Theorem C07_id_block : forall sha bs b id r, bytes_wf bs -> dec_block_id sha bs = Some (b, id, r) -> id = block_id sha b.
Proof. exact dec_block_id_canonical. Qed.
(* one value, one encoding: encoders are injective on well-formed values *)
Theorem C07_enc_injective :
  (forall a b, wf_tx a = true -> wf_tx b = true -> enc_tx a = enc_tx b -> a = b) /\
  (forall a b, wf_header a = true -> wf_header b = true -> enc_header a = enc_header b -> a = b) /\
  (forall a b, wf_block a = true -> wf_block b = true -> enc_block a = enc_block b -> a = b).
Proof. repeat split; [exact enc_tx_inj | exact enc_header_inj | exact enc_block_inj]. Qed.

Theorem C07_roundtrip_wire_msg : forall m r, wf_msg m = true -> dec_msg (enc_msg m ++ r) = Some (m, r).
Proof. exact dec_msg_roundtrip. Qed.
Theorem C07_roundtrip_wire_header : forall h r, wf_msg_header h = true -> dec_msg_header (enc_msg_header h ++ r) = Some (h, r).
Proof. exact dec_msg_header_roundtrip. Qed.
Theorem C07_roundtrip_frame : forall h m trailing, wf_msg_header h = true -> wf_msg m = true ->
  dec_frame (enc_msg_header h ++ enc_msg m ++ trailing) = Some (h, m).
Proof. exact dec_frame_roundtrip. Qed.
Theorem C07_wire_decoded_wf : forall bs m r, bytes_wf bs -> dec_msg bs = Some (m, r) -> wf_msg m = true /\ bytes_wf r.
Proof. exact dec_msg_wf. Qed.
Theorem C07_wire_header_not_canonical : exists bs h r, bytes_wf bs /\ dec_msg_header bs = Some (h, r) /\ enc_msg_header h ++ r <> bs.
Proof. exact dec_msg_header_ignores_version. Qed.

Print Assumptions C07_roundtrip_wire_msg.
Print Assumptions C07_roundtrip_wire_header.
Print Assumptions C07_roundtrip_frame.
Print Assumptions C07_wire_decoded_wf.
Print Assumptions C07_vlq_roundtrip.
Print Assumptions C07_vlq_canonical.
Print Assumptions C07_vlq_lenient_refuted.
Print Assumptions C07_roundtrip_tx.
Print Assumptions C07_roundtrip_header.
Print Assumptions C07_roundtrip_block.
Print Assumptions C07_roundtrip_parts.
Print Assumptions C07_canonical_tx.
Print Assumptions C07_canonical_header.
Print Assumptions C07_canonical_block.
Print Assumptions C07_canonical_parts.
Print Assumptions C07_decoded_wf_block.
Print Assumptions C07_decoded_wf_tx.
Print Assumptions C07_id_tx.
Print Assumptions C07_id_block.
Print Assumptions C07_enc_injective.
