(* C13 -- pending-transaction pool.  PoolInv: every pending transaction is valid at the current head, no two share an
   output, none occurs twice.  It is preserved by EVERY step of the node model (transaction submissions of any kind,
   block deliveries that extend or reorganise the head, mined blocks), for every interleaving (C13_invariant_run);
   admission requires by-itself validity, validity at the head and no conflict with the pool; after a head change the
   pool is EXACTLY the sub-list of transactions still valid at the new head. *)
From Coq Require Import NArith List.
From SkV Require Import NodeModel NodeProofs.
From SkV Require Bytes Codec Ledger Validate PoolLink.
Import ListNotations.

Theorem C13_invariant_step : forall skip tx_valid_at tx_conflict,
  (forall a b, tx_conflict a b = tx_conflict b a) ->
  forall s e s' o, PoolInv tx_valid_at tx_conflict s -> step skip tx_valid_at tx_conflict s e = (s', o) ->
  PoolInv tx_valid_at tx_conflict s'.
Proof. exact pool_inv_step_strong. Qed.

Theorem C13_invariant_run : forall skip tx_valid_at tx_conflict,
  (forall a b, tx_conflict a b = tx_conflict b a) ->
  forall s0 es s o, Quiescent s0 -> PoolInv tx_valid_at tx_conflict s0 -> ok_run skip tx_valid_at tx_conflict s0 es ->
  run skip tx_valid_at tx_conflict s0 es = (s, o) -> Quiescent s /\ PoolInv tx_valid_at tx_conflict s.
Proof. exact invariants_run. Qed.

Theorem C13_admission : forall tx_valid_at tx_conflict s t ok s' o,
  handle_tx tx_valid_at tx_conflict s t ok = (s', o) -> In t (ns_pool s') -> ~ In t (ns_pool s) ->
  ok = true /\ tx_valid_at (ns_head s) t = true /\ Forall (fun x => tx_conflict t x = false) (ns_pool s) /\
  o = [ORelayTx t].
Proof. exact pool_admission. Qed.

Theorem C13_eviction_exact : forall skip tx_valid_at tx_conflict s b v s' o,
  Quiescent s -> PoolInv tx_valid_at tx_conflict s ->
  has_block (ns_blocks s) (ab_id b) = false -> has_block (ns_blocks s) (ab_prev b) = true ->
  bv_itself v = true -> bv_apply v = true -> bv_instate v = true ->
  handle_block skip tx_valid_at s b v true = (s', o) ->
  ns_pool s' = filter (tx_valid_at (ns_head s')) (ns_pool s) /\
  (forall t, In t (ns_pool s') <-> In t (ns_pool s) /\ tx_valid_at (ns_head s') t = true).
Proof. exact pool_eviction_exact. Qed.

Theorem C13_tx_relayed_only_on_admission : forall tx_valid_at tx_conflict s t ok s' o,
  handle_tx tx_valid_at tx_conflict s t ok = (s', o) -> o <> [] ->
  ~ In t (ns_pool s) /\ ns_pool s' = ns_pool s ++ [t] /\ o = [ORelayTx t].
Proof. exact tx_relay_only_on_admission. Qed.

(* the abstract pool instantiated with concrete transactions (validity = in-state validation against the head's unspent set,
   conflict = shared reference): the invariant is preserved by every step, and it yields exactly the pool premises of the
   block-assembly theorem C12_assembly_valid *)
Theorem C13_invariant_step_concrete : forall skip verify tx_of utxo_at s e s' o,
  PoolInv (PoolLink.valid_at_real verify tx_of utxo_at) (PoolLink.conflict_real tx_of) s ->
  step skip (PoolLink.valid_at_real verify tx_of utxo_at) (PoolLink.conflict_real tx_of) s e = (s', o) ->
  PoolInv (PoolLink.valid_at_real verify tx_of utxo_at) (PoolLink.conflict_real tx_of) s'.
Proof. exact PoolLink.pool_inv_step_real. Qed.

Print Assumptions C13_invariant_step_concrete.
Print Assumptions C13_invariant_step.
Print Assumptions C13_invariant_run.
Print Assumptions C13_admission.
Print Assumptions C13_eviction_exact.
Print Assumptions C13_tx_relayed_only_on_admission.
