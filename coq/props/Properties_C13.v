(* C13 -- pending-transaction pool.  PoolInv: every pending transaction is valid at the current head, no two share an
   output, none occurs twice.  It is preserved by EVERY step of the node model (transaction submissions of any kind,
   block deliveries that extend or reorganise the head, mined blocks), for every interleaving (C13_invariant_run);
   admission requires by-itself validity, validity at the head and no conflict with the pool; after a head change the
   pool is EXACTLY the sub-list of transactions still valid at the new head. *)
From Coq Require Import NArith List.
From SkV Require Import NodeModel NodeProofs.
From SkV Require Bytes Codec Ledger Validate PoolLink.
From SkV Require ConcurrencyProofs.
Import ListNotations.

Theorem C13_invariant_step : forall skip tx_valid_at tx_conflict,
  (forall a b, tx_conflict a b = tx_conflict b a) ->
  forall s e s' o, PoolInv tx_valid_at tx_conflict s -> step skip tx_valid_at tx_conflict s e = (s', o) ->
  PoolInv tx_valid_at tx_conflict s'.
Proof. exact pool_inv_step_strong. Qed.

Theorem C13_invariant_run : forall skip tx_valid_at tx_conflict,
  (forall a b, tx_conflict a b = tx_conflict b a) ->
  forall s0 es s o, Quiescent s0 -> PoolInv tx_valid_at tx_conflict s0 -> ok_run skip tx_valid_at tx_conflict s0 es ->
  run skip tx_valid_at tx_conflict s0 es = (s, o) -> Quiescent s /\ PoolInv tx_valid_at tx_conflict s.
Proof. exact invariants_run. Qed.

Theorem C13_admission : forall tx_valid_at tx_conflict s t ok s' o,
  handle_tx tx_valid_at tx_conflict s t ok = (s', o) -> In t (ns_pool s') -> ~ In t (ns_pool s) ->
  ok = true /\ tx_valid_at (ns_head s) t = true /\ Forall (fun x => tx_conflict t x = false) (ns_pool s) /\
  o = [ORelayTx t].
Proof. exact pool_admission. Qed.

Theorem C13_eviction_exact : forall skip tx_valid_at tx_conflict s b v s' o,
  Quiescent s -> PoolInv tx_valid_at tx_conflict s ->
  has_block (ns_blocks s) (ab_id b) = false -> has_block (ns_blocks s) (ab_prev b) = true ->
  bv_itself v = true -> bv_apply v = true -> bv_instate v = true ->
  handle_block skip tx_valid_at s b v true = (s', o) ->
  ns_pool s' = filter (tx_valid_at (ns_head s')) (ns_pool s) /\
  (forall t, In t (ns_pool s') <-> In t (ns_pool s) /\ tx_valid_at (ns_head s') t = true).
Proof. exact pool_eviction_exact. Qed.

Theorem C13_tx_relayed_only_on_admission : forall tx_valid_at tx_conflict s t ok s' o,
  handle_tx tx_valid_at tx_conflict s t ok = (s', o) -> o <> [] ->
  ~ In t (ns_pool s) /\ ns_pool s' = ns_pool s ++ [t] /\ o = [ORelayTx t].
Proof. exact tx_relay_only_on_admission. Qed.

(* the abstract pool instantiated with concrete transactions (validity = in-state validation against the head's unspent set,
   conflict = shared reference): the invariant is preserved by every step, and it yields exactly the pool premises of the
   block-assembly theorem C12_assembly_valid *)
Theorem C13_invariant_step_concrete : forall skip verify tx_of utxo_at s e s' o,
  PoolInv (PoolLink.valid_at_real verify tx_of utxo_at) (PoolLink.conflict_real tx_of) s ->
  step skip (PoolLink.valid_at_real verify tx_of utxo_at) (PoolLink.conflict_real tx_of) s e = (s', o) ->
  PoolInv (PoolLink.valid_at_real verify tx_of utxo_at) (PoolLink.conflict_real tx_of) s'.
Proof. exact PoolLink.pool_inv_step_real. Qed.

(* two threads (network thread admitting transactions, miner thread installing heads) over the shared state and one lock,
   small-step interleaving semantics: when every admission and every head installation is a critical section, every
   complete interleaving equals running SOME merge of the two threads' sections through the sequential handlers, hence
   keeps the invariant; with the validation hoisted out of the critical section an interleaving breaks it *)
Theorem C13_locked_threads_linearise : forall tx_valid_at tx_conflict s f0 f1 l0 l1 c,
  ConcurrencyProofs.csteps tx_valid_at tx_conflict
    (s, None, (f0, ConcurrencyProofs.prog_of l0), (f1, ConcurrencyProofs.prog_of l1)) c ->
  ConcurrencyProofs.finished c ->
  exists l, ConcurrencyProofs.merge l0 l1 l /\
            ConcurrencyProofs.shared c = ConcurrencyProofs.run_secs tx_valid_at tx_conflict s l.
Proof. exact ConcurrencyProofs.locked_threads_linearise. Qed.

Theorem C13_locked_threads_preserve_invariant : forall tx_valid_at tx_conflict,
  (forall a b, tx_conflict a b = tx_conflict b a) ->
  forall s f0 f1 l0 l1 c, PoolInv tx_valid_at tx_conflict s ->
  ConcurrencyProofs.csteps tx_valid_at tx_conflict
    (s, None, (f0, ConcurrencyProofs.prog_of l0), (f1, ConcurrencyProofs.prog_of l1)) c ->
  ConcurrencyProofs.finished c -> PoolInv tx_valid_at tx_conflict (ConcurrencyProofs.shared c).
Proof. exact ConcurrencyProofs.locked_threads_preserve_PoolInv. Qed.

Theorem C13_unlocked_admission_refuted :
  exists (tx_valid_at tx_conflict : N -> N -> bool),
    (forall a b, tx_conflict a b = tx_conflict b a) /\
    exists s t ok blocks head v c,
      PoolInv tx_valid_at tx_conflict s /\
      ConcurrencyProofs.csteps tx_valid_at tx_conflict
             (s, None, (false, ConcurrencyProofs.prog_admit_unlocked t ok), (false, ConcurrencyProofs.prog_set blocks head v)) c /\
      ConcurrencyProofs.finished c /\
      ~ PoolInv tx_valid_at tx_conflict (ConcurrencyProofs.shared c).
Proof. exact ConcurrencyProofs.unlocked_admission_refuted. Qed.

Print Assumptions C13_invariant_step_concrete.
Print Assumptions C13_invariant_step.
Print Assumptions C13_invariant_run.
Print Assumptions C13_admission.
Print Assumptions C13_eviction_exact.
Print Assumptions C13_tx_relayed_only_on_admission.
Print Assumptions C13_locked_threads_linearise.
Print Assumptions C13_locked_threads_preserve_invariant.
Print Assumptions C13_unlocked_admission_refuted.
