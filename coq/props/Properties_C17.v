(* C17 -- the merkle commitment binds the ordered transaction list; inclusion proofs verify.
   Idealisations are explicit premises: H2 (= sha256d of the concatenation) injective, and leaf values are not H2
   outputs (domain separation); that the second premise is necessary is recorded as C17_collision_without_separation. *)
From Coq Require Import List Arith.
From SkV Require Import Merkle MerkleProofs MerkleProofSound.
Import ListNotations.

(* symbolic (free) hash: no premise at all *)
Theorem C17_sym_injective : forall (A : Type) (xs ys : list A) t,
  root Node (map Atom xs) = Some t -> root Node (map Atom ys) = Some t -> xs = ys.
Proof. exact @root_sym_injective. Qed.

Theorem C17_injective : forall (D : Type) (H2 : D -> D -> D),
  (forall a b a' b', H2 a b = H2 a' b' -> a = a' /\ b = b') ->
  forall (xs ys : list D) d,
  (forall x, In x (xs ++ ys) -> forall a b, x <> H2 a b) ->
  root H2 xs = Some d -> root H2 ys = Some d -> xs = ys.
Proof. exact root_injective. Qed.

Theorem C17_collision_without_separation : forall (H : nat -> nat -> nat) a b c,
  root H [H a b; c] = root H [a; b; c].
Proof. exact collision_without_separation. Qed.

Theorem C17_proof_sound : forall (D : Type) (H2 : D -> D -> D) (l : list D) (t : mtree D) (i : nat) (d : D),
  tree l = Some t -> i < length l ->
  root H2 l = Some (mt_hash H2 (get_proof H2 t i)) /\ In (i, nth i l d) (mt_leaves (get_proof H2 t i)).
Proof. exact proof_sound. Qed.
Theorem C17_tree_exists : forall (D : Type) (l : list D), l <> [] -> exists t, tree l = Some t.
Proof. exact tree_exists. Qed.

Print Assumptions C17_sym_injective.
Print Assumptions C17_injective.
Print Assumptions C17_collision_without_separation.
Print Assumptions C17_proof_sound.
Print Assumptions C17_tree_exists.
