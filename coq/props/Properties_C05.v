(* C05 -- header rules.  C05_header_rules: what acceptance by full validation implies (id below target, prescribed
   target, height, reward height, time window, evidence = recomputed evidence).  C05_pow_numeric: the byte comparison is
   the numeric one.  C05_retarget_spec: the prescribed target is the parent's off a boundary and
   min(2^256-1, T_parent * elapsed / span) integer-exact at a boundary.  Bridges: the regenerated source text of
   calculate_new_target / select_block_height equals the model, and the shipped constants are 10,080 / 1,209,600 / 30. *)
From stdpp Require Import gmap.
From Coq Require Import NArith ZArith.
From SkV Require Import Bytes Codec Ledger ChainState Pow Validate ChainDefs HeaderProofs.
From SkV Require Gen_Params Gen_Functions PositionProofs MiscProofs.

Theorem C05_header_rules : forall sha scrypt blake verify P s b now s',
  add_block sha scrypt blake verify P s b now = Ok s' -> FV P b ->
  bytes_ltb (block_id sha b) (b_target b) = true /\
  exists prev cb rest ev,
    cs_blocks s !! b_prev b = Some prev /\ b_txs b = cb :: rest /\
    calc_target sha P s (b_height prev + 1) (b_time b) prev = Some (b_target b) /\
    b_height b = (b_height prev + 1)%N /\ cb_height cb = Some (b_height b) /\
    (b_time prev < b_time b)%N /\ (b_time b <= now + p_max_future P)%N /\
    construct_evidence sha scrypt blake P s (h_summary (b_header b)) (b_height b) (b_txs b) = Some ev /\
    h_evidence (b_header b) = ev.
Proof. exact accept_sound_header. Qed.

(* positioned above the horizon, whatever height is declared; and on EITHER side of the horizon an accepted block's
   height is its parent's plus one *)
Theorem C05_header_rules_by_position : forall sha scrypt blake verify P s b now s',
  add_block sha scrypt blake verify P s b now = Ok s' -> PositionProofs.FVpos P s b ->
  bytes_ltb (block_id sha b) (b_target b) = true /\
  exists prev cb rest ev,
    cs_blocks s !! b_prev b = Some prev /\ b_txs b = cb :: rest /\
    calc_target sha P s (b_height prev + 1) (b_time b) prev = Some (b_target b) /\
    b_height b = (b_height prev + 1)%N /\ cb_height cb = Some (b_height b) /\
    (b_time prev < b_time b)%N /\ (b_time b <= now + p_max_future P)%N /\
    construct_evidence sha scrypt blake P s (h_summary (b_header b)) (b_height b) (b_txs b) = Some ev /\
    h_evidence (b_header b) = ev.
Proof.
  intros sha scrypt blake verify P s b now s' H Hp.
  exact (accept_sound_header sha scrypt blake verify P s b now s' H
           (PositionProofs.accepted_position_is_FV sha scrypt blake verify P s b now s' H Hp)).
Qed.

Theorem C05_height_is_position_everywhere : forall sha scrypt blake verify P s b now s' prev,
  add_block sha scrypt blake verify P s b now = Ok s' -> cs_blocks s !! b_prev b = Some prev ->
  b_height b = (b_height prev + 1)%N.
Proof.
  intros sha scrypt blake verify P s b now s' prev H Hprev.
  exact (MiscProofs.accepted_height_is_position sha scrypt blake verify P b s prev
           (PositionProofs.add_block_in_state_ok sha scrypt blake verify P s b now s' H) Hprev).
Qed.

Theorem C05_pow_numeric : forall id tg, length id = 32%nat -> length tg = 32%nat -> bytes_wf id -> bytes_wf tg ->
  (bytes_ltb id tg = true <-> (be_dec id < be_dec tg)%N).
Proof. exact pow_check_numeric. Qed.

Theorem C05_retarget_spec : forall sha P s height ts prev tg,
  calc_target sha P s height ts prev = Some tg ->
  ((height mod p_period P)%N <> 0%N -> tg = b_target prev) /\
  ((height mod p_period P)%N = 0%N -> exists idx start,
     cs_byheight s !! block_id sha prev = Some idx /\ idx !! (height - p_period P)%N = Some start /\
     (b_time start <= ts)%N /\ (p_period P <= height)%N /\
     tg = be_enc 32 (N.min (2 ^ 256 - 1) (be_dec (b_target prev) * (ts - b_time start) / p_span P))).
Proof. exact calc_target_spec. Qed.

Theorem C05_bridge_new_target : forall P t dt, bytes_wf t ->
  Z.of_N (p_span P) = Gen_Params.DESIRED_TARGET_READJUSTMENT_TIMESPAN ->
  Gen_Functions.calculate_new_target (map Z.of_N t) (Z.of_N dt) = map Z.of_N (Pow.calculate_new_target P t dt).
Proof. exact bridge_new_target. Qed.
Theorem C05_bridge_select_height : forall h height, bytes_wf h -> (0 < height)%N ->
  Gen_Functions.select_block_height (map Z.of_N h) (Z.of_N height) = Z.of_N (Pow.select_block_height h height).
Proof. exact bridge_select_height. Qed.
Theorem C05_constants : Gen_Params.BLOCKS_BETWEEN_TARGET_READJUSTMENT = 10080%Z /\
  Gen_Params.DESIRED_TARGET_READJUSTMENT_TIMESPAN = 1209600%Z /\ Gen_Params.MAX_FUTURE_BLOCK_TIME = 30%Z.
Proof. exact gen_constants. Qed.
Theorem C05_sampler_total : forall h ser len, ser <> [] ->
  exists r, select_block_slice h ser len = Some r /\ length r = len.
Proof. exact slice_total. Qed.

Print Assumptions C05_header_rules.
Print Assumptions C05_header_rules_by_position.
Print Assumptions C05_height_is_position_everywhere.
Print Assumptions C05_pow_numeric.
Print Assumptions C05_retarget_spec.
Print Assumptions C05_bridge_new_target.
Print Assumptions C05_bridge_select_height.
Print Assumptions C05_constants.
Print Assumptions C05_sampler_total.
