(* C09 -- relay path.  Over the node model (NodeModel.handle_block: dedupe, orphan drop, by-itself validation, apply,
   write buffer, in-state validation, rollback, flush, relay; the validators' verdicts are inputs tied to the real
   validators by the harness).  For every state between deliveries outside bulk download (Quiescent) and every
   delivery: only fully valid blocks enter; an accepted block is stored, and relayed exactly when it becomes the head;
   a repeated delivery is a no-op; a rejected block (unknown parent, structural defect, error while applying it, rule
   violation) changes NOTHING -- chain state, store rows, write buffer, pool; over any sequence of deliveries each block
   is relayed at most once. *)
From Coq Require Import NArith List.
From SkV Require Import NodeModel NodeProofs ReplyLabelProofs.
From SkV Require Bytes Codec ChainState Pow Validate VerdictLink.
Import ListNotations.

Theorem C09_only_valid_enter : forall skip tx_valid_at s b v irt0 s' o i,
  Quiescent s -> handle_block skip tx_valid_at s b v irt0 = (s', o) -> In i (block_ids s') ->
  In i (block_ids s) \/
  (i = ab_id b /\ bv_itself v = true /\ bv_apply v = true /\ (irt0 = true -> bv_instate v = true)).
Proof. exact relay_only_valid_enter. Qed.

Theorem C09_accepted_stored_and_relayed_once : forall skip tx_valid_at tx_conflict s b v s' o,
  Quiescent s -> PoolInv tx_valid_at tx_conflict s ->
  has_block (ns_blocks s) (ab_id b) = false -> has_block (ns_blocks s) (ab_prev b) = true ->
  bv_itself v = true -> bv_apply v = true -> bv_instate v = true ->
  handle_block skip tx_valid_at s b v true = (s', o) ->
  ns_blocks s' = ns_blocks s ++ [b] /\ ns_rows s' = ns_rows s ++ [ab_id b] /\ ns_buffer s' = [] /\ Quiescent s' /\
  ns_pool s' = cleanup tx_valid_at (ns_head s') (ns_pool s) /\
  (o = [ORelayBlock (ab_id b)] /\ ns_head s' = ab_id b \/ o = [] /\ ns_head s' = ns_head s /\ ns_head s' <> ab_id b).
Proof. exact relay_accept. Qed.

Theorem C09_duplicate_noop : forall skip tx_valid_at s b v irt0,
  has_block (ns_blocks s) (ab_id b) = true -> handle_block skip tx_valid_at s b v irt0 = (s, []).
Proof. exact relay_duplicate_noop. Qed.

Theorem C09_rejected_leaves_no_trace : forall skip tx_valid_at tx_conflict s b v,
  Quiescent s -> PoolInv tx_valid_at tx_conflict s ->
  (has_block (ns_blocks s) (ab_prev b) = false \/ bv_itself v = false \/ bv_apply v = false \/ bv_instate v = false) ->
  has_block (ns_blocks s) (ab_id b) = false ->
  handle_block skip tx_valid_at s b v true = (s, []).
Proof. exact relay_reject_no_trace. Qed.

Theorem C09_relay_at_most_once : forall skip tx_valid_at tx_conflict,
  (forall a b, tx_conflict a b = tx_conflict b a) ->
  forall s0 es s o, Quiescent s0 -> PoolInv tx_valid_at tx_conflict s0 -> NoDup (block_ids s0) ->
  ok_run skip tx_valid_at tx_conflict s0 es -> run skip tx_valid_at tx_conflict s0 es = (s, o) ->
  (forall i, (count_occ N.eq_dec (relayed_blocks o) i <= 1)%nat) /\
  (forall i, In i (relayed_blocks o) -> ~ In i (block_ids s0) /\ In i (block_ids s)) /\
  Quiescent s /\ PoolInv tx_valid_at tx_conflict s /\ NoDup (block_ids s) /\ incl (block_ids s0) (block_ids s).
Proof. exact relay_at_most_once. Qed.

(* what "the three verdicts are positive" means in terms of the consensus model: full validation succeeds *)
Theorem C09_verdicts_are_full_validation : forall sha scrypt blake verify P s b now,
  (bv_itself (VerdictLink.verdicts sha scrypt blake verify P s b now) = true /\
   bv_apply (VerdictLink.verdicts sha scrypt blake verify P s b now) = true /\
   bv_instate (VerdictLink.verdicts sha scrypt blake verify P s b now) = true)
  <-> exists s', Validate.add_block sha scrypt blake verify P s b now = Validate.Ok s'.
Proof. exact VerdictLink.verdicts_full_validation. Qed.

(* Scope of the statement ("outside bulk download"), made explicit: the proviso is decided by the header field
   in_response_to, which the SENDER writes.  With the label set, in-state validation has no say off the skip heights,
   for every state and block; the closed witnesses show a rule-breaking block becoming the served head of an idle node
   and reaching the store with the next validated block, while the same block without the label leaves no trace.
   (Observation K of DESIGN 11.10 -- outside the statement as read here, therefore not a KNOWN-FINDING.) *)
Theorem C09_scope_reply_label_bypasses_in_state_validation : forall skip tx_valid_at s b v,
  has_block (ns_blocks s) (ab_id b) = false -> has_block (ns_blocks s) (ab_prev b) = true ->
  bv_itself v = true -> bv_apply v = true -> (ab_height b mod skip =? 0)%N = false ->
  has_block (ns_blocks (fst (handle_block skip tx_valid_at s b v false))) (ab_id b) = true.
Proof. exact reply_label_bypasses_in_state_validation. Qed.

Theorem C09_scope_reply_labelled_invalid_block_enters :
  let '(s', o) := handle_block k_skip k_valid k_s0 k_bad k_bad_verdict false in
  bv_instate k_bad_verdict = false /\ has_block (ns_blocks s') (ab_id k_bad) = true /\ ns_head s' = ab_id k_bad /\ o = [].
Proof. exact reply_labelled_invalid_block_enters. Qed.

Theorem C09_scope_same_block_unlabelled_is_refused :
  handle_block k_skip k_valid k_s0 k_bad k_bad_verdict true = (k_s0, []).
Proof. exact same_block_unlabelled_is_refused. Qed.

Theorem C09_scope_reply_labelled_invalid_block_reaches_the_store :
  let '(s', _) := run k_skip k_valid k_conflict k_s0
                      [EBlock k_bad k_bad_verdict false; EBlock k_good k_good_verdict true] in
  In (ab_id k_bad) (ns_rows s') /\ has_block (ns_valid_blocks s') (ab_id k_bad) = true.
Proof. exact reply_labelled_invalid_block_reaches_the_store. Qed.

Print Assumptions C09_verdicts_are_full_validation.
Print Assumptions C09_only_valid_enter.
Print Assumptions C09_accepted_stored_and_relayed_once.
Print Assumptions C09_duplicate_noop.
Print Assumptions C09_rejected_leaves_no_trace.
Print Assumptions C09_relay_at_most_once.
Print Assumptions C09_scope_reply_label_bypasses_in_state_validation.
Print Assumptions C09_scope_reply_labelled_invalid_block_enters.
Print Assumptions C09_scope_same_block_unlabelled_is_refused.
Print Assumptions C09_scope_reply_labelled_invalid_block_reaches_the_store.
