(* C18 -- checkpoints are enforced (theorems over the table and horizon REGENERATED from cheating.py on every run);
   the genesis bytes regenerated from genesis.py decode canonically to a height-0 block paying the initial subsidy.
   That the recorded real blocks keep their ids and pass full validation with the real scrypt is a statement about
   SHA-256 / scrypt / BLAKE2b outputs on six concrete byte strings: decided by executing the unpatched implementation
   (check C18, part a), not by a theorem -- no Gallina scrypt exists here (DESIGN.md section 8). *)
From stdpp Require Import gmap.
From Coq Require Import NArith ZArith.
From SkV Require Import Bytes Codec Ledger ChainState Pow Validate ChainDefs MiscProofs.
From SkV Require Gen_Checkpoints Gen_Functions.

(* at every checkpointed height the only block that passes in-state validation is the one with the listed id; and a
   block at that POSITION (height = parent's + 1 whenever the parent is stored) with the listed id passes *)
Theorem C18_checkpoint : forall sha scrypt blake verify P b s id,
  p_known P = Gen_Checkpoints.KNOWN_HASHES -> p_hz P = Gen_Checkpoints.MAX_KNOWN_HASH_HEIGHT ->
  (b_height b, id) ∈ Gen_Checkpoints.KNOWN_HASHES ->
  (v_block_in_state sha scrypt blake verify P b s = Ok tt -> block_id sha b = id) /\
  (position_ok b s -> block_id sha b = id -> v_block_in_state sha scrypt blake verify P b s = Ok tt).
Proof. exact real_checkpoint_enforced. Qed.

(* no block escapes validation by DECLARING a height at or below the horizon: on either side of the horizon an accepted
   block's height is its parent's plus one, so the shortcut only ever applies to blocks positioned below the last
   checkpoint (the fix recorded in known_findings.json; C18_declared_height_shortcut_refuted is the shipped behaviour) *)
Theorem C18_accepted_height_is_position : forall sha scrypt blake verify P b s prev,
  v_block_in_state sha scrypt blake verify P b s = Ok tt ->
  cs_blocks s !! b_prev b = Some prev -> b_height b = (b_height prev + 1)%N.
Proof. exact accepted_height_is_position. Qed.

Theorem C18_declared_height_off_position_rejected : forall sha scrypt blake verify P b s prev,
  cs_blocks s !! b_prev b = Some prev -> b_height b <> (b_height prev + 1)%N ->
  (Z.of_N (b_height b) <= p_hz P)%Z ->
  v_block_in_state sha scrypt blake verify P b s = Err EValidation.
Proof. exact declared_height_off_position_rejected. Qed.

(* a block without a stored parent is accepted only as a genesis block (height 0), on either side of the horizon *)
Theorem C18_parentless_nonzero_height_rejected : forall sha scrypt blake verify P b s,
  cs_blocks s !! b_prev b = None -> b_height b <> 0%N ->
  v_block_in_state sha scrypt blake verify P b s = Err EValidation.
Proof. exact parentless_nonzero_height_rejected. Qed.

Theorem C18_declared_height_shortcut_refuted : forall sha scrypt blake verify P b s,
  p_known P = Gen_Checkpoints.KNOWN_HASHES -> p_hz P = Gen_Checkpoints.MAX_KNOWN_HASH_HEIGHT ->
  b_height b = 1%N ->
  v_block_in_state_declared sha scrypt blake verify P b s = Ok tt.
Proof. exact declared_height_shortcut_refuted. Qed.

Theorem C18_checkpoint_generic : forall sha scrypt blake verify P b s kh,
  v_block_in_state sha scrypt blake verify P b s = Ok tt -> (Z.of_N (b_height b) <= p_hz P)%Z ->
  known_hash (p_known P) (b_height b) = Some kh -> block_id sha b = kh.
Proof. exact checkpoint_enforced. Qed.

Theorem C18_table_wf :
  NoDup (map fst Gen_Checkpoints.KNOWN_HASHES) /\
  Forall (fun e => length (snd e) = 32%nat /\ bytes_wf (snd e)) Gen_Checkpoints.KNOWN_HASHES /\
  ((0 <= Gen_Checkpoints.MAX_KNOWN_HASH_HEIGHT)%Z /\
   Forall (fun e => (Z.of_N (fst e) <= Gen_Checkpoints.MAX_KNOWN_HASH_HEIGHT)%Z) Gen_Checkpoints.KNOWN_HASHES /\
   Z.to_N Gen_Checkpoints.MAX_KNOWN_HASH_HEIGHT ∈ map fst Gen_Checkpoints.KNOWN_HASHES).
Proof. split; [exact table_heights_distinct | split; [exact table_ids_wf | exact table_max]]. Qed.

Theorem C18_genesis_codec :
  exists g, dec_block Gen_Checkpoints.genesis_block_data = Some (g, []) /\
            enc_block g = Gen_Checkpoints.genesis_block_data /\ b_height g = 0%N /\ is_zero32 (b_prev g) = true /\
            (exists cb, b_txs g = [cb] /\ sum_outputs (tx_outputs cb) = 1000000000%N).
Proof. exact genesis_decodes. Qed.

Print Assumptions C18_checkpoint.
Print Assumptions C18_accepted_height_is_position.
Print Assumptions C18_declared_height_off_position_rejected.
Print Assumptions C18_declared_height_shortcut_refuted.
Print Assumptions C18_parentless_nonzero_height_rejected.
Print Assumptions C18_checkpoint_generic.
Print Assumptions C18_table_wf.
Print Assumptions C18_genesis_codec.
