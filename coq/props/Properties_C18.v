(* C18 -- placeholder while the proofs are being developed: states only that acceptance implies the by-itself checks. *)
From stdpp Require Import gmap.
From Coq Require Import NArith ZArith.
From SkV Require Import Bytes Codec Ledger ChainState Pow Validate.
Theorem C18_accept_passes_by_itself : forall sha scrypt blake verify P s b now s',
  add_block sha scrypt blake verify P s b now = Ok s' -> v_block_by_itself sha P b now = Ok tt.
Proof.
  intros sha scrypt blake verify P s b now s' H. unfold add_block, bind in H.
  destruct (v_block_by_itself sha P b now) as [[]|k] eqn:E; [reflexivity | discriminate].
Qed.
Print Assumptions C18_accept_passes_by_itself.
