(* C14 -- wallet spend builder, over the model of create_spend_transaction (greedy selection in wallet-key order x
   per-key reference order, used-set committed only on success = the code after the fix in known_findings.json).
   For any used-set, holdings with each reference listed once, amount and fee: on success the recipient gets exactly
   the amount, change is exactly inputs - amount - fee and is present iff non-zero, inputs are distinct, owned
   (listed in the holdings) and not previously used, selected greedily and minimally; insufficient funds is reported
   exactly when the unused holdings total less than amount + fee (amount + fee > 0), and then nothing changes, so a
   later affordable spend succeeds; across any sequence of spends no reference is selected twice.
   The behaviour shipped before the fix violates the failure frame: C14_prefix_poisons_refuted.
   Validity of the signed transaction under consensus rules (signatures verify, size limit) is tied by the check, not
   proved here: it needs verify(sign(m)) = true (ecdsa) and the size premise, see known finding "too many inputs". *)
From Coq Require Import NArith List.
From SkV Require Import WalletModel WalletProofs.
From SkV Require WalletReorgProofs.
Import ListNotations.
Open Scope N_scope.

Theorem C14_success : forall used h value fee sp used',
  NoDup (map fst (all_refs h)) -> create_spend used h value fee = Some (sp, used') ->
  sp_pay sp = value /\ NoDup (sp_inputs sp) /\
  (forall r, In r (sp_inputs sp) -> In r (map fst (all_refs h)) /\ ~ In r used) /\
  (let got := sum_values h (sp_inputs sp) in
   value + fee <= got /\ (sp_change sp = None <-> got = value + fee) /\
   (forall c, sp_change sp = Some c -> c = got - (value + fee) /\ 0 < c) /\
   used' = used ++ sp_inputs sp /\
   (exists rest, map fst (avail used h) = sp_inputs sp ++ rest) /\ sp_inputs sp <> []).
Proof. exact spend_success. Qed.

Theorem C14_minimal : forall used h value fee sp used',
  NoDup (map fst (all_refs h)) -> create_spend used h value fee = Some (sp, used') ->
  0 < value + fee \/ removelast (sp_inputs sp) <> [] ->
  sum_values h (removelast (sp_inputs sp)) < value + fee.
Proof. exact spend_minimal_partial. Qed.

Theorem C14_failure_frame : forall used h value fee, 0 < value + fee ->
  (create_spend used h value fee = None <-> total (avail used h) < value + fee).
Proof. exact spend_failure_frame_partial. Qed.

Theorem C14_affordable_after_failed_attempt : forall used h v1 f1 v2 f2,
  create_spend used h v1 f1 = None -> 0 < v2 + f2 -> total (avail used h) >= v2 + f2 ->
  exists r, create_spend used h v2 f2 = Some r.
Proof. exact affordable_after_failed_attempt_partial. Qed.

Theorem C14_sequences : forall used h reqs,
  (forall i sp r, nth_error (run_spends used h reqs) i = Some (Some sp) -> In r (sp_inputs sp) -> ~ In r used) /\
  (forall i j sp1 sp2 r, i <> j -> nth_error (run_spends used h reqs) i = Some (Some sp1) ->
     nth_error (run_spends used h reqs) j = Some (Some sp2) -> In r (sp_inputs sp1) -> ~ In r (sp_inputs sp2)).
Proof. exact spend_sequences. Qed.

(* the ledger view may be a different one at every request (a spend confirmed, un-confirmed again by a fork switch, an
   older state revisited): the wallet's record persists and no reference is ever selected twice *)
Theorem C14_sequences_across_head_changes : forall used reqs,
  (forall i sp r, nth_error (WalletReorgProofs.run_spends_at used reqs) i = Some (Some sp) -> In r (sp_inputs sp) -> ~ In r used) /\
  (forall i j sp1 sp2 r, i <> j -> nth_error (WalletReorgProofs.run_spends_at used reqs) i = Some (Some sp1) ->
     nth_error (WalletReorgProofs.run_spends_at used reqs) j = Some (Some sp2) -> In r (sp_inputs sp1) -> ~ In r (sp_inputs sp2)).
Proof. exact WalletReorgProofs.spend_sequences_across_head_changes. Qed.

(* a record pruned to what the current head still lists re-spends an input after a fork switch *)
Theorem C14_pruned_record_reuses_after_fork_switch_refuted : exists h1 h2 h3 sp1 u1 sp2 u2 sp3 u3 r,
  WalletReorgProofs.create_spend_pruning [] h1 5 0 = Some (sp1, u1) /\
  WalletReorgProofs.create_spend_pruning u1 h2 5 0 = Some (sp2, u2) /\
  WalletReorgProofs.create_spend_pruning u2 h3 5 0 = Some (sp3, u3) /\
  In r (sp_inputs sp1) /\ In r (sp_inputs sp3).
Proof. exact WalletReorgProofs.pruning_reuses_after_fork_switch_refuted. Qed.

Theorem C14_prefix_poisons_refuted : exists used h v1 f1 v2 f2,
  fst (create_spend_prefix used h v1 f1) = None /\ total (avail used h) >= v2 + f2 /\
  (let used' := snd (create_spend_prefix used h v1 f1) in create_spend used' h v2 f2 = None).
Proof. exact prefix_poisons_refuted. Qed.

Print Assumptions C14_success.
Print Assumptions C14_minimal.
Print Assumptions C14_failure_frame.
Print Assumptions C14_affordable_after_failed_attempt.
Print Assumptions C14_sequences.
Print Assumptions C14_prefix_poisons_refuted.
Print Assumptions C14_sequences_across_head_changes.
Print Assumptions C14_pruned_record_reuses_after_fork_switch_refuted.
