(* C14 -- wallet spend builder, over the model of create_spend_transaction (greedy selection in wallet-key order x
   per-key reference order, used-set committed only on success = the code after the fix in known_findings.json).
   For any used-set, holdings with each reference listed once, amount and fee: on success the recipient gets exactly
   the amount, change is exactly inputs - amount - fee and is present iff non-zero, inputs are distinct, owned
   (listed in the holdings) and not previously used, selected greedily and minimally; insufficient funds is reported
   exactly when the unused holdings total less than amount + fee (amount + fee > 0), and then nothing changes, so a
   later affordable spend succeeds; across any sequence of spends no reference is selected twice.
   The behaviour shipped before the fix violates the failure frame: C14_prefix_poisons_refuted.
   Validity of the signed transaction under consensus rules (signatures verify, size limit) is tied by the check, not
   proved here: it needs verify(sign(m)) = true (ecdsa) and the size premise, see known finding "too many inputs". *)
From Coq Require Import NArith List.
From SkV Require Import WalletModel WalletProofs.
Import ListNotations.
Open Scope N_scope.

Theorem C14_success : forall used h value fee sp used',
  NoDup (map fst (all_refs h)) -> create_spend used h value fee = Some (sp, used') ->
  sp_pay sp = value /\ NoDup (sp_inputs sp) /\
  (forall r, In r (sp_inputs sp) -> In r (map fst (all_refs h)) /\ ~ In r used) /\
  (let got := sum_values h (sp_inputs sp) in
   value + fee <= got /\ (sp_change sp = None <-> got = value + fee) /\
   (forall c, sp_change sp = Some c -> c = got - (value + fee) /\ 0 < c) /\
   used' = used ++ sp_inputs sp /\
   (exists rest, map fst (avail used h) = sp_inputs sp ++ rest) /\ sp_inputs sp <> []).
Proof. exact spend_success. Qed.

Theorem C14_minimal : forall used h value fee sp used',
  NoDup (map fst (all_refs h)) -> create_spend used h value fee = Some (sp, used') ->
  0 < value + fee \/ removelast (sp_inputs sp) <> [] ->
  sum_values h (removelast (sp_inputs sp)) < value + fee.
Proof. exact spend_minimal_partial. Qed.

Theorem C14_failure_frame : forall used h value fee, 0 < value + fee ->
  (create_spend used h value fee = None <-> total (avail used h) < value + fee).
Proof. exact spend_failure_frame_partial. Qed.

Theorem C14_affordable_after_failed_attempt : forall used h v1 f1 v2 f2,
  create_spend used h v1 f1 = None -> 0 < v2 + f2 -> total (avail used h) >= v2 + f2 ->
  exists r, create_spend used h v2 f2 = Some r.
Proof. exact affordable_after_failed_attempt_partial. Qed.

Theorem C14_sequences : forall used h reqs,
  (forall i sp r, nth_error (run_spends used h reqs) i = Some (Some sp) -> In r (sp_inputs sp) -> ~ In r used) /\
  (forall i j sp1 sp2 r, i <> j -> nth_error (run_spends used h reqs) i = Some (Some sp1) ->
     nth_error (run_spends used h reqs) j = Some (Some sp2) -> In r (sp_inputs sp1) -> ~ In r (sp_inputs sp2)).
Proof. exact spend_sequences. Qed.

Theorem C14_prefix_poisons_refuted : exists used h v1 f1 v2 f2,
  fst (create_spend_prefix used h v1 f1) = None /\ total (avail used h) >= v2 + f2 /\
  (let used' := snd (create_spend_prefix used h v1 f1) in create_spend used' h v2 f2 = None).
Proof. exact prefix_poisons_refuted. Qed.

Print Assumptions C14_success.
Print Assumptions C14_minimal.
Print Assumptions C14_failure_frame.
Print Assumptions C14_affordable_after_failed_attempt.
Print Assumptions C14_sequences.
Print Assumptions C14_prefix_poisons_refuted.
