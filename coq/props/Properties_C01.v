(* C01 -- no unauthorised or double spending in any fully validated block.
   For all hash / signature functions (parameters, nothing assumed about them), all consensus parameters, all states
   and candidate blocks: acceptance by full validation (above the checkpoint horizon, FV) implies that every non-reward
   input spends an output that is unspent in the ledger state of the block's PARENT (hence not created in the block
   itself: created outputs are not in the parent's state), carries a real signature that verifies under the spent
   output's key over the encoding of the transaction with signatures blanked, and that no reference occurs twice in the
   block.  C01_signed_message_complete: that signed encoding determines ALL references and ALL outputs.
   C01_chain_replay: along any chain of stored blocks every spend removed an output that was present (replay succeeds
   and equals the stored state), so no output is spent twice on one chain.
   "The prior state is left exactly as it was" is a tie obligation (digest before/after), see DESIGN.md section 3. *)
From stdpp Require Import gmap.
From Coq Require Import NArith ZArith.
From SkV Require Import Bytes Codec CodecProofs Ledger ChainState Pow Validate ChainDefs ValidProofs ReplayProofs.
From SkV Require PositionProofs.

Theorem C01_accept_sound : forall sha scrypt blake verify P s b now s',
  add_block sha scrypt blake verify P s b now = Ok s' -> FV P b ->
  exists cb rest u, b_txs b = cb :: rest /\ cs_utxo s !! b_prev b = Some u /\
    Forall (fun t => Forall (fun i => exists o sg, u !! ref_key (in_ref i) = Some o /\ in_sig i = SigSecp sg /\
                                  verify (out_pk o) sg (enc_tx (signable t)) = 1%N) (tx_inputs t)) rest /\
    NoDup (concat (map tx_refs rest)) /\
    Forall (fun t => tx_inputs t <> [] /\ Forall (fun i => thin_air (in_ref i) = false) (tx_inputs t)) rest.
Proof. exact accept_sound_spend. Qed.

(* the same for every block POSITIONED above the checkpoint horizon (parent's height + 1 > horizon), whatever height
   it declares: a declared height that differs from the position is rejected on both sides of the horizon *)
Theorem C01_accept_sound_by_position : forall sha scrypt blake verify P s b now s',
  add_block sha scrypt blake verify P s b now = Ok s' -> PositionProofs.FVpos P s b ->
  exists cb rest u, b_txs b = cb :: rest /\ cs_utxo s !! b_prev b = Some u /\
    Forall (fun t => Forall (fun i => exists o sg, u !! ref_key (in_ref i) = Some o /\ in_sig i = SigSecp sg /\
                                  verify (out_pk o) sg (enc_tx (signable t)) = 1%N) (tx_inputs t)) rest /\
    NoDup (concat (map tx_refs rest)) /\
    Forall (fun t => tx_inputs t <> [] /\ Forall (fun i => thin_air (in_ref i) = false) (tx_inputs t)) rest.
Proof.
  intros sha scrypt blake verify P s b now s' H Hp.
  exact (accept_sound_spend sha scrypt blake verify P s b now s' H
           (PositionProofs.accepted_position_is_FV sha scrypt blake verify P s b now s' H Hp)).
Qed.

Theorem C01_signed_message_complete : forall a b, wf_tx a = true -> wf_tx b = true ->
  enc_tx (signable a) = enc_tx (signable b) ->
  map in_ref (tx_inputs a) = map in_ref (tx_inputs b) /\ tx_outputs a = tx_outputs b.
Proof. exact signable_determines. Qed.

(* on every chain of every reachable state the stored unspent set is the successful replay of the chain: each spend
   deleted an output that was present at that point (spend_inputs fails otherwise) *)
Theorem C01_chain_replay : forall sha l s ch b, arrivals sha l s -> stored sha s b -> path sha s ch b ->
  replay_utxo sha ∅ ch = cs_utxo s !! block_id sha b /\ is_Some (cs_utxo s !! block_id sha b).
Proof. exact utxo_replay. Qed.

Print Assumptions C01_accept_sound.
Print Assumptions C01_accept_sound_by_position.
Print Assumptions C01_signed_message_complete.
Print Assumptions C01_chain_replay.
