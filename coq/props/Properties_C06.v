(* C06 -- tamper evidence.  Value level, with the cryptographic idealisations as EXPLICIT premises of each theorem
   (injectivity of scrypt / blake2 / sha256d; never axioms): an acceptable block is determined by any two of its three
   components (summary, evidence, transaction list), so altering any single component of an accepted block never yields
   another acceptable block; two acceptable blocks with the same id are equal; two different byte strings that both
   decode are different blocks (canonicity).  NOT proved for all blocks: alterations that change several components at
   once (a flipped bit in a variable-length prefix shifts every later field) -- that needs a random-oracle argument;
   those cases are finite per block and are enumerated exhaustively by the check (every bit, every truncation point). *)
From stdpp Require Import gmap.
From Coq Require Import NArith.
From SkV Require Import Bytes Codec Ledger ChainState Pow Validate ChainDefs TamperProofs.

Theorem C06_single_component : forall sha scrypt blake verify P,
  (forall a b : bytes, scrypt a = scrypt b -> a = b) -> (forall a b : bytes, blake a = blake b -> a = b) ->
  forall s bs bs' b b' now now' s1,
  bytes_wf bs -> bytes_wf bs' -> dec_block bs = Some (b, []) -> dec_block bs' = Some (b', []) -> bs <> bs' ->
  add_block sha scrypt blake verify P s b now = Ok s1 -> FV P b -> FV P b' -> agree_on_two b b' ->
  forall s2, add_block sha scrypt blake verify P s b' now' <> Ok s2.
Proof. exact tampered_bytes_rejected. Qed.

Theorem C06_same_id_same_content : forall sha scrypt blake verify P,
  (forall a b : bytes, sha a = sha b -> a = b) -> (forall a b : bytes, blake a = blake b -> a = b) ->
  forall s s' b b' now now' s1 s2,
  add_block sha scrypt blake verify P s b now = Ok s1 -> add_block sha scrypt blake verify P s' b' now' = Ok s2 ->
  FV P b -> FV P b' -> wf_block b = true -> wf_block b' = true -> block_id sha b = block_id sha b' -> b = b'.
Proof. exact same_id_same_block_any_state. Qed.

Theorem C06_evidence_function : forall sha scrypt blake verify P s b b' now now' s1 s2,
  add_block sha scrypt blake verify P s b now = Ok s1 -> add_block sha scrypt blake verify P s b' now' = Ok s2 ->
  FV P b -> FV P b' -> h_summary (b_header b) = h_summary (b_header b') -> b_txs b = b_txs b' -> b = b'.
Proof. exact evidence_is_function. Qed.

Theorem C06_distinct_bytes_distinct_blocks : forall bs bs' b b', bytes_wf bs -> bytes_wf bs' ->
  dec_block bs = Some (b, []) -> dec_block bs' = Some (b', []) -> bs <> bs' -> b <> b'.
Proof. exact distinct_bytes_distinct_blocks. Qed.

Print Assumptions C06_single_component.
Print Assumptions C06_same_id_same_content.
Print Assumptions C06_evidence_function.
Print Assumptions C06_distinct_bytes_distinct_blocks.
