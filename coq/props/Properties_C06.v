(* C06 -- tamper evidence.  Value level, with the cryptographic idealisations as EXPLICIT premises of each theorem
   (injectivity of scrypt / blake2 / sha256d; never axioms): an acceptable block is determined by any two of its three
   components (summary, evidence, transaction list), so altering any single component of an accepted block never yields
   another acceptable block; two acceptable blocks with the same id are equal; two different byte strings that both
   decode are different blocks (canonicity).
   BYTE level (for every well-formed accepted block b above the horizon and its encoding enc_block b):
   C06_bit_flip: flipping ANY bit at ANY position -- except bit 7 (the continuation bit) of a byte of the variable-
   length height prefix -- yields bytes that either do not decode completely or decode to a block that full validation
   rejects against the same chain; C06_truncation: EVERY truncation point does.
   NOT proved for all blocks: a flipped continuation bit of the height prefix (1-3 positions per block) shifts every
   later field, which needs a random-oracle argument; those positions -- like all others -- are enumerated
   exhaustively per sampled block by the check. *)
From stdpp Require Import gmap.
From Coq Require Import NArith.
From SkV Require Import Bytes Codec Ledger ChainState Pow Validate ChainDefs TamperProofs ByteTamperProofs.

Theorem C06_single_component : forall sha scrypt blake verify P,
  (forall a b : bytes, scrypt a = scrypt b -> a = b) -> (forall a b : bytes, blake a = blake b -> a = b) ->
  forall s bs bs' b b' now now' s1,
  bytes_wf bs -> bytes_wf bs' -> dec_block bs = Some (b, []) -> dec_block bs' = Some (b', []) -> bs <> bs' ->
  add_block sha scrypt blake verify P s b now = Ok s1 -> FV P b -> FV P b' -> agree_on_two b b' ->
  forall s2, add_block sha scrypt blake verify P s b' now' <> Ok s2.
Proof. exact tampered_bytes_rejected. Qed.

Theorem C06_same_id_same_content : forall sha scrypt blake verify P,
  (forall a b : bytes, sha a = sha b -> a = b) -> (forall a b : bytes, blake a = blake b -> a = b) ->
  forall s s' b b' now now' s1 s2,
  add_block sha scrypt blake verify P s b now = Ok s1 -> add_block sha scrypt blake verify P s' b' now' = Ok s2 ->
  FV P b -> FV P b' -> wf_block b = true -> wf_block b' = true -> block_id sha b = block_id sha b' -> b = b'.
Proof. exact same_id_same_block_any_state. Qed.

Theorem C06_evidence_function : forall sha scrypt blake verify P s b b' now now' s1 s2,
  add_block sha scrypt blake verify P s b now = Ok s1 -> add_block sha scrypt blake verify P s b' now' = Ok s2 ->
  FV P b -> FV P b' -> h_summary (b_header b) = h_summary (b_header b') -> b_txs b = b_txs b' -> b = b'.
Proof. exact evidence_is_function. Qed.

Theorem C06_distinct_bytes_distinct_blocks : forall bs bs' b b', bytes_wf bs -> bytes_wf bs' ->
  dec_block bs = Some (b, []) -> dec_block bs' = Some (b', []) -> bs <> bs' -> b <> b'.
Proof. exact distinct_bytes_distinct_blocks. Qed.

Theorem C06_bit_flip : forall sha scrypt blake verify P,
  (forall a b : bytes, scrypt a = scrypt b -> a = b) -> (forall a b : bytes, blake a = blake b -> a = b) ->
  forall s b b' (i : nat) (k : N) now now' s1,
  wf_block b = true -> add_block sha scrypt blake verify P s b now = Ok s1 -> FV P b ->
  (i < length (enc_block b))%nat -> (k < 8)%N -> ~ (in_height_prefix b i /\ k = 7%N) ->
  dec_block (set_nth i (flip_bit k (nth i (enc_block b) 0%N)) (enc_block b)) = Some (b', []) ->
  (b_height b' <> b_height b -> FV P b') ->
  forall s2, add_block sha scrypt blake verify P s b' now' <> Ok s2.
Proof. exact bit_flip_tamper_rejected. Qed.

Theorem C06_truncation : forall sha scrypt blake verify P,
  (forall a b : bytes, blake a = blake b -> a = b) ->
  forall s b b' (n : nat) now now' s1,
  wf_block b = true -> add_block sha scrypt blake verify P s b now = Ok s1 -> FV P b ->
  (n < length (enc_block b))%nat -> dec_block (firstn n (enc_block b)) = Some (b', []) ->
  forall s2, add_block sha scrypt blake verify P s b' now' <> Ok s2.
Proof. exact truncation_tamper_rejected. Qed.

Theorem C06_header_truncation_undecodable : forall b n, wf_block b = true -> (n < header_len b)%nat ->
  dec_block (firstn n (enc_block b)) = None.
Proof. exact header_truncation_undecodable. Qed.

Print Assumptions C06_bit_flip.
Print Assumptions C06_truncation.
Print Assumptions C06_header_truncation_undecodable.
Print Assumptions C06_single_component.
Print Assumptions C06_same_id_same_content.
Print Assumptions C06_evidence_function.
Print Assumptions C06_distinct_bytes_distinct_blocks.
