(* C12 -- mining.  Adoption of a found block (over the node model, found-block handler after the fix recorded in
   known_findings.json): a found block that passes the node's own full validation becomes part of the served chain
   state (the head, if it extends the head), is written to the store and is broadcast exactly once; an invalid one
   changes nothing.  That every assembled block with id below target IS valid, pays exactly subsidy + fees and has a
   timestamp later than its parent is C12_assembly_valid / C12_reward_exact / C12_time below (over the Validate model,
   whose construct_block_for_mining is compared byte for byte with the implementation's candidate by the check). *)
From stdpp Require Import gmap.
From Coq Require Import NArith ZArith List Lia.
From SkV Require Import Bytes Codec Ledger ChainState Pow Validate ChainDefs AssemblyProofs.
From SkV Require PoolLink.
From SkV Require NodeModel NodeProofs.
Import NodeModel NodeProofs.

(* every candidate the node assembles from its head and an admissible pool (C13's invariant) passes the node's own
   full validation once its id is below target -- for all hash/signature functions, parameters, states, pools, keys,
   nonces and clock values satisfying the stated side conditions (block fits, reward data fits, timestamp after the
   parent's and at most 30 s ahead of the clock: mining.py uses max(now, parent+1), see C12_time and the known finding
   for a clock more than 29 s behind the head) *)
Theorem C12_assembly_valid : forall sha scrypt blake verify P s others pk ts data nonce b now cur prev u,
  construct_block_for_mining sha scrypt blake P s others pk ts data nonce = Some b ->
  cs_cur s = Some cur -> cs_blocks s !! cur = Some prev -> cs_utxo s !! cur = Some u -> is_zero32 cur = false ->
  Forall (fun t => v_noncb_by_itself P t = Ok tt) others ->
  Forall (fun t => v_noncb_in_state verify u t = Ok tt) others ->
  nodup_keys [] (concat (map tx_refs others)) = true -> nodup_bytes [] (map (tx_id sha) others) = true ->
  (N.of_nat (length (enc_block b)) <= p_max_block P)%N -> (N.of_nat (length data) <= p_max_cbdata P)%N ->
  (b_time prev < ts)%N -> (ts <= now + p_max_future P)%N ->
  bytes_ltb (block_id sha b) (b_target b) = true -> FV P b ->
  exists s', add_block sha scrypt blake verify P s b now = Ok s'.
Proof. exact assembly_valid. Qed.

Theorem C12_reward_exact : forall sha scrypt blake P s others pk ts data nonce b cur u,
  construct_block_for_mining sha scrypt blake P s others pk ts data nonce = Some b ->
  cs_cur s = Some cur -> cs_utxo s !! cur = Some u ->
  exists cb fees, b_txs b = cb :: others /\ block_fees u others = Some fees /\
    tx_outputs cb = [mkOutput (Z.to_N (Z.of_N (get_block_subsidy P (b_height b)) + fees)) pk] /\
    (0 <= Z.of_N (get_block_subsidy P (b_height b)) + fees)%Z.
Proof. exact assembly_reward_exact. Qed.

Theorem C12_assembly_header : forall sha scrypt blake P s others pk ts data nonce b cur prev,
  construct_block_for_mining sha scrypt blake P s others pk ts data nonce = Some b ->
  cs_cur s = Some cur -> cs_head s = Some prev ->
  b_height b = (b_height prev + 1)%N /\ b_time b = ts /\ b_prev b = cur /\ s_nonce (h_summary (b_header b)) = nonce.
Proof. exact assembly_header. Qed.

Theorem C12_adoption : forall tx_valid_at s b s' o,
  handle_mined tx_valid_at s b true = (s', o) ->
  ns_blocks s' = ns_blocks s ++ [b] /\ ns_rows s' = ns_rows s ++ ns_buffer s ++ [ab_id b] /\
  o = [ORelayBlock (ab_id b)] /\ Quiescent s' /\ ns_head s' = new_head (ns_blocks s) (ns_head s) b /\
  ns_pool s' = cleanup tx_valid_at (ns_head s') (ns_pool s).
Proof. exact mined_adopted_strong. Qed.

Theorem C12_adopted_as_head_when_extending : forall tx_valid_at s b s' o,
  Quiescent s -> has_block (ns_blocks s) (ab_id b) = false -> handle_mined tx_valid_at s b true = (s', o) ->
  In (ab_id b) (block_ids s') /\ In (ab_id b) (ns_rows s') /\ o = [ORelayBlock (ab_id b)] /\ Quiescent s' /\
  (ab_prev b = ns_head s -> ns_head s' = ab_id b).
Proof. exact mined_adopted. Qed.

Theorem C12_invalid_found_block_noop : forall tx_valid_at s b, handle_mined tx_valid_at s b false = (s, []).
Proof. exact mined_invalid_noop. Qed.

(* max(now, parent + 1) is later than the parent's timestamp, for every clock value *)
Theorem C12_time : forall now parent_ts : N, (parent_ts < N.max now (parent_ts + 1))%N.
Proof. intros. lia. Qed.

(* the pool premises of C12_assembly_valid are exactly what C13's invariant provides *)
Theorem C12_pool_premises_from_C13 : forall sha verify P tx_of utxo_at (s : NodeModel.nstate),
  NodeProofs.PoolInv (PoolLink.valid_at_real verify tx_of utxo_at) (PoolLink.conflict_real tx_of) s ->
  Forall (fun t => v_noncb_by_itself P (tx_of t) = Ok tt) (NodeModel.ns_pool s) ->
  (forall a b, List.In a (NodeModel.ns_pool s) -> List.In b (NodeModel.ns_pool s) ->
     tx_id sha (tx_of a) = tx_id sha (tx_of b) -> a = b) ->
  let others := map tx_of (NodeModel.ns_pool s) in
  Forall (fun t => v_noncb_by_itself P t = Ok tt) others /\
  Forall (fun t => v_noncb_in_state verify (utxo_at (NodeModel.ns_head s)) t = Ok tt) others /\
  nodup_keys [] (concat (map tx_refs others)) = true /\ nodup_bytes [] (map (tx_id sha) others) = true.
Proof. exact PoolLink.pool_premises. Qed.

Print Assumptions C12_pool_premises_from_C13.
Print Assumptions C12_assembly_valid.
Print Assumptions C12_reward_exact.
Print Assumptions C12_assembly_header.
Print Assumptions C12_adoption.
Print Assumptions C12_adopted_as_head_when_extending.
Print Assumptions C12_invalid_found_block_noop.
Print Assumptions C12_time.
