(* C12 -- mining.  Adoption of a found block (over the node model, found-block handler after the fix recorded in
   known_findings.json): a found block that passes the node's own full validation becomes part of the served chain
   state (the head, if it extends the head), is written to the store and is broadcast exactly once; an invalid one
   changes nothing.  That every assembled block with id below target IS valid, pays exactly subsidy + fees and has a
   timestamp later than its parent is tied by the check (real MinerWatcher + real validators + extracted
   construct_block_for_mining); the general assembly-validity theorem is not proved yet (DESIGN.md section 8). *)
From Coq Require Import NArith List Lia.
From SkV Require Import NodeModel NodeProofs.
Import ListNotations.

Theorem C12_adoption : forall tx_valid_at s b s' o,
  handle_mined tx_valid_at s b true = (s', o) ->
  ns_blocks s' = ns_blocks s ++ [b] /\ ns_rows s' = ns_rows s ++ ns_buffer s ++ [ab_id b] /\
  o = [ORelayBlock (ab_id b)] /\ Quiescent s' /\ ns_head s' = new_head (ns_blocks s) (ns_head s) b /\
  ns_pool s' = cleanup tx_valid_at (ns_head s') (ns_pool s).
Proof. exact mined_adopted_strong. Qed.

Theorem C12_adopted_as_head_when_extending : forall tx_valid_at s b s' o,
  Quiescent s -> has_block (ns_blocks s) (ab_id b) = false -> handle_mined tx_valid_at s b true = (s', o) ->
  In (ab_id b) (block_ids s') /\ In (ab_id b) (ns_rows s') /\ o = [ORelayBlock (ab_id b)] /\ Quiescent s' /\
  (ab_prev b = ns_head s -> ns_head s' = ab_id b).
Proof. exact mined_adopted. Qed.

Theorem C12_invalid_found_block_noop : forall tx_valid_at s b, handle_mined tx_valid_at s b false = (s, []).
Proof. exact mined_invalid_noop. Qed.

(* max(now, parent + 1) is later than the parent's timestamp, for every clock value *)
Theorem C12_time : forall now parent_ts : N, (parent_ts < N.max now (parent_ts + 1))%N.
Proof. intros. lia. Qed.

Print Assumptions C12_adoption.
Print Assumptions C12_adopted_as_head_when_extending.
Print Assumptions C12_invalid_found_block_noop.
Print Assumptions C12_time.
