(* C02 -- no inflation.  C02_rules: what acceptance implies about values; C02_step: the unspent total grows by at most
   the subsidy; C02_supply: along every validated history the unspent total at every block is bounded by the cumulative
   subsidy; C02_max: with the constants regenerated from /repo the cumulative subsidy never exceeds MAX_SASHIMI
   = 2,099,999,986,350,000 (via C16). *)
From stdpp Require Import gmap.
From Coq Require Import NArith ZArith Lia.
From SkV Require Import Bytes Codec Ledger ChainState Pow Validate ChainDefs ValidProofs MiscProofs.
From SkV Require Gen_Params PositionProofs.

Theorem C02_rules : forall sha scrypt blake verify P s b now s',
  add_block sha scrypt blake verify P s b now = Ok s' -> FV P b ->
  exists cb rest u fees, b_txs b = cb :: rest /\ cs_utxo s !! b_prev b = Some u /\ block_fees u rest = Some fees /\
    (Z.of_N (sum_outputs (tx_outputs cb)) <= fees + Z.of_N (get_block_subsidy P (b_height b)))%Z /\
    Forall (fun t => Forall (fun o => (0 < out_value o <= p_max_sashimi P)%N) (tx_outputs t) /\
                     (0 < sum_outputs (tx_outputs t) <= p_max_sashimi P)%N /\
                     exists vin, inputs_value u (tx_inputs t) = Some vin /\ (sum_outputs (tx_outputs t) <= vin)%N) rest /\
    (exists prev, cs_blocks s !! b_prev b = Some prev /\ b_height b = (b_height prev + 1)%N).
Proof. exact accept_sound_value. Qed.

Theorem C02_step : forall sha scrypt blake verify P s b now s',
  add_block sha scrypt blake verify P s b now = Ok s' -> FV P b ->
  exists u u', cs_utxo s !! b_prev b = Some u /\ cs_utxo s' !! block_id sha b = Some u' /\
    (utxo_total u' <= utxo_total u + get_block_subsidy P (b_height b))%N.
Proof. exact block_step_total. Qed.

(* positioned above the horizon, whatever height is declared *)
Theorem C02_step_by_position : forall sha scrypt blake verify P s b now s',
  add_block sha scrypt blake verify P s b now = Ok s' -> PositionProofs.FVpos P s b ->
  exists u u', cs_utxo s !! b_prev b = Some u /\ cs_utxo s' !! block_id sha b = Some u' /\
    (utxo_total u' <= utxo_total u + get_block_subsidy P (b_height b))%N.
Proof.
  intros sha scrypt blake verify P s b now s' H Hp.
  exact (block_step_total sha scrypt blake verify P s b now s' H
           (PositionProofs.accepted_position_is_FV sha scrypt blake verify P s b now s' H Hp)).
Qed.

Theorem C02_supply : forall sha scrypt blake verify P s0 s,
  SupplyInv P s0 -> validated_from sha scrypt blake verify P s0 s -> SupplyInv P s.
Proof. exact supply_bound. Qed.
Theorem C02_supply_from_empty : forall P, SupplyInv P cs_empty.
Proof. exact supply_inv_empty. Qed.

(* with the halving interval and initial subsidy REGENERATED from params.py: along every history validated from the
   empty state, the unspent total at every stored block never exceeds 2,099,999,986,350,000 sashimi (uses C16) *)
Theorem C02_max : forall P, Z.of_N (p_interval P) = Gen_Params.SUBSIDY_HALVING_INTERVAL ->
  Z.of_N (p_initial P) = Gen_Params.INITIAL_SUBSIDY ->
  forall sha scrypt blake verify s, validated_from sha scrypt blake verify P cs_empty s ->
  forall h b u, cs_blocks s !! h = Some b -> cs_utxo s !! h = Some u -> (utxo_total u <= 2099999986350000)%N.
Proof. exact supply_never_exceeds_max_reachable. Qed.

Print Assumptions C02_rules.
Print Assumptions C02_step_by_position.
Print Assumptions C02_max.
Print Assumptions C02_step.
Print Assumptions C02_supply.
