(* C08 -- block store fidelity, over the model of blockstore.py (chain table, transaction_locator with the
   transaction hash as PRIMARY KEY, insert-or-ignore, all-or-nothing batches, write buffer, read_blocks).
   C08_roundtrip_partial: for every block tree written in any batching in which parents precede children and NO TWO
   WRITTEN BLOCKS SHARE A TRANSACTION ID, reading back yields exactly the written blocks, each with exactly its
   transaction list in order, ordered by height, parents before children.
   The full statement of the property (forks that include the same pending transaction) is REFUTED for the faithful
   model: C08_shared_tx_refuted / C08_identical_reward_refuted -- the recorded finding (known_findings.json). *)
From Coq Require Import NArith List Permutation.
From SkV Require Import Store StoreProofs.
Import ListNotations.

Theorem C08_roundtrip_partial' : forall batches s, wf_batchseq batches -> no_shared_tx batches ->
  write_all store_empty batches = Some s ->
  Permutation (read_blocks s) (concat batches) /\ height_sorted (read_blocks s).
Proof. exact C08_roundtrip_partial. Qed.
Theorem C08_parents_first' : forall batches s, wf_batchseq batches -> no_shared_tx batches ->
  heights_consistent batches -> write_all store_empty batches = Some s ->
  forall b p, In b (read_blocks s) -> In p (read_blocks s) -> sb_prev b = sb_id p -> occurs_before p b (read_blocks s).
Proof. exact C08_parents_first. Qed.
Theorem C08_write_succeeds : forall batches, wf_batchseq batches -> exists s, write_all store_empty batches = Some s.
Proof. exact write_all_succeeds. Qed.
Theorem C08_flush_same_as_write : forall s bs, st_buffer s = [] ->
  flush (fold_left add_to_buffer bs s) =
  match write_blocks s bs with Some s' => Some (mkStore (st_chain s') (st_locator s') []) | None => None end.
Proof. exact flush_spec. Qed.
Theorem C08_shared_tx_refuted' : exists batches, wf_batchseq batches /\
  exists s, write_all store_empty batches = Some s /\ ~ Permutation (read_blocks s) (concat batches).
Proof. exact C08_shared_tx_refuted. Qed.
Theorem C08_identical_reward_refuted' : exists batches, wf_batchseq batches /\
  exists s, write_all store_empty batches = Some s /\ ~ Permutation (read_blocks s) (concat batches) /\
  exists b, In b (concat batches) /\ ~ In (sb_id b) (map sb_id (read_blocks s)).
Proof. exact C08_identical_reward_refuted. Qed.

Print Assumptions C08_roundtrip_partial'.
Print Assumptions C08_parents_first'.
Print Assumptions C08_write_succeeds.
Print Assumptions C08_flush_same_as_write.
Print Assumptions C08_shared_tx_refuted'.
Print Assumptions C08_identical_reward_refuted'.
