(* C03 -- the ledger state at a block is a function of that block's chain alone.
   For every hash function, every block tree and every parent-before-child arrival order (arrivals l s):
   the unspent set stored at a block is the replay of its ancestors from genesis; it does not depend on the arrival
   order, on competing forks, or on later additions.  (Per-key balances: C03_balances below, from BalanceProofs.)
   "A snapshot obtained earlier is never changed" is a tie obligation (object digests), since a functional model
   cannot mutate its argument; what IS proved is add_monotone: later arrivals leave every earlier entry untouched. *)
From stdpp Require Import gmap.
From Coq Require Import NArith.
From SkV Require Import Bytes Codec Ledger ChainState ChainDefs ReplayProofs BalanceProofs.

Theorem C03_utxo_replay : forall sha l s ch b, arrivals sha l s -> stored sha s b -> path sha s ch b ->
  replay_utxo sha ∅ ch = cs_utxo s !! block_id sha b /\ is_Some (cs_utxo s !! block_id sha b).
Proof. exact utxo_replay. Qed.
Theorem C03_chain_is_path : forall sha l s b, arrivals sha l s -> stored sha s b ->
  exists ch, chain_to s (block_id sha b) = Some ch /\ path sha s ch b.
Proof. exact chain_to_path. Qed.
Theorem C03_path_unique : forall sha s ch ch' b, path sha s ch b -> path sha s ch' b -> ch = ch'.
Proof. exact path_unique. Qed.
Theorem C03_order_independent : forall sha l1 l2 s1 s2, arrivals sha l1 s1 -> arrivals sha l2 s2 -> l1 ≡ₚ l2 ->
  cs_blocks s1 = cs_blocks s2 /\ cs_utxo s1 = cs_utxo s2 /\ (forall h, balances_at sha s1 h = balances_at sha s2 h).
Proof. exact order_independent. Qed.
Theorem C03_add_monotone : forall sha l s b s', arrivals sha l s -> admissible sha s b -> add_nv sha s b = Some s' ->
  forall h, is_Some (cs_blocks s !! h) ->
  cs_blocks s' !! h = cs_blocks s !! h /\ cs_utxo s' !! h = cs_utxo s !! h /\ cs_byheight s' !! h = cs_byheight s !! h.
Proof. exact add_monotone. Qed.

(* per-key balances = the unspent set grouped by key (value = sum, references = exactly the references), for every
   chain whose created output keys are fresh (transaction ids do not repeat while an output is unspent: in the real
   system a consequence of collision-freedom of sha256d plus reward-height uniqueness; kept as an explicit premise,
   and necessary: BalanceProofs.Example.freshness_needed) *)
Theorem C03_balances : forall sha chain u p, fresh_chain sha chain -> replay sha ∅ ∅ chain = Some (u, p) ->
  consistent u p.
Proof. exact balances_consistent_fresh_only. Qed.
Theorem C03_balance_refs_nodup : forall sha chain u p, well_formed_chain sha chain ->
  replay sha ∅ ∅ chain = Some (u, p) -> forall pk v refs, p !! pk = Some (v, refs) -> NoDup refs.
Proof. intros sha chain u p Hw Hr pk v refs Hp. eapply balances_refs_NoDup; eauto. Qed.

Print Assumptions C03_utxo_replay.
Print Assumptions C03_balances.
Print Assumptions C03_chain_is_path.
Print Assumptions C03_path_unique.
Print Assumptions C03_order_independent.
Print Assumptions C03_add_monotone.
