(* C04 -- fork choice.  For every hash function, every block tree and every parent-before-child arrival order
   (arrivals l s): the head is the earliest-arrived block among those of greatest height; the reported tips are
   exactly the stored blocks without stored children; the by-height index at every block lists exactly that block's
   ancestors and itself; forks() returns the last common ancestor with the active chain. *)
From stdpp Require Import gmap.
From Coq Require Import NArith.
From SkV Require Import Bytes Codec Ledger ChainState ChainDefs ForkChoiceProofs.
From SkV Require NodeModel StaleMinerProofs.

Theorem C04_head : forall sha l s, arrivals sha l s -> l <> [] ->
  exists hb, cs_cur s = Some (block_id sha hb) /\ stored sha s hb /\
    (forall b, stored sha s b -> (b_height b <= b_height hb)%N) /\
    (forall b, stored sha s b -> b_height b = b_height hb -> block_id sha b <> block_id sha hb ->
       exists i j, arrival_index sha l (block_id sha hb) = Some i /\ arrival_index sha l (block_id sha b) = Some j /\
                   (i < j)%nat).
Proof. exact fc_head. Qed.

Theorem C04_tips : forall sha l s, arrivals sha l s ->
  forall h, h ∈ dom (cs_heads s) <-> exists b, stored sha s b /\ block_id sha b = h /\ ~ has_child sha s b.
Proof. exact fc_tips. Qed.

Theorem C04_index : forall sha l s b, arrivals sha l s -> stored sha s b ->
  exists m, cs_byheight s !! block_id sha b = Some m /\
            forall k a, m !! k = Some a <-> (ancestor_or_self sha s a b /\ b_height a = k).
Proof. exact fc_index. Qed.

Theorem C04_forks_lca : forall sha l s h t c main, arrivals sha l s ->
  cs_heads s !! h = Some t -> cs_cur s = Some c -> cs_byheight s !! c = Some main ->
  exists a, lca_with_main sha (S (size (cs_blocks s))) s main t = Some a /\
    ancestor_or_self sha s a t /\
    (exists hb, stored sha s hb /\ block_id sha hb = c /\ ancestor_or_self sha s a hb) /\
    forall x hb, block_id sha hb = c -> stored sha s hb -> ancestor_or_self sha s x t ->
                 ancestor_or_self sha s x hb -> (b_height x <= b_height a)%N.
Proof. exact fc_lca. Qed.

Theorem C04_ids : forall sha l s h b, arrivals sha l s -> cs_blocks s !! h = Some b -> h = block_id sha b.
Proof. exact fc_ids. Qed.

Example C04_example_head_first_seen :
  cs_cur ForkChoiceProofs.Example.s3 = Some (block_id ForkChoiceProofs.Example.sha ForkChoiceProofs.Example.c1).
Proof. exact ForkChoiceProofs.Example.ex_head. Qed.

(* node level (known finding J): arrivals reach the served state from two threads.  The node model's found-block handler
   adds the found block to the CURRENT served state and never loses a served block; the shipped miner thread adds it to the
   snapshot of its last work request -- the two agree when nothing was adopted in between, and otherwise an adopted block
   vanishes and an equally high, later-arrived block becomes the head *)
Theorem C04_found_block_keeps_served_blocks : forall tx_valid_at s b valid s' o x,
  NodeModel.handle_mined tx_valid_at s b valid = (s', o) -> List.In x (NodeModel.ns_blocks s) -> List.In x (NodeModel.ns_blocks s').
Proof. exact StaleMinerProofs.handle_mined_keeps_blocks. Qed.

Theorem C04_snapshot_handler_agrees_without_adoption : forall tx_valid_at s b valid,
  StaleMinerProofs.handle_mined_snapshot tx_valid_at (NodeModel.ns_blocks s) (NodeModel.ns_head s) s b valid =
  NodeModel.handle_mined tx_valid_at s b valid.
Proof. exact StaleMinerProofs.snapshot_current_agrees. Qed.

Theorem C04_stale_snapshot_drops_adopted_block_refuted :
  exists (tx_valid_at : N -> N -> bool) snap_blocks snap_head s b s' o adopted,
    List.In adopted (NodeModel.ns_blocks s) /\ NodeModel.ns_head s = NodeModel.ab_id adopted /\
    NodeModel.ab_height adopted = NodeModel.ab_height b /\
    StaleMinerProofs.handle_mined_snapshot tx_valid_at snap_blocks snap_head s b true = (s', o) /\
    ~ List.In adopted (NodeModel.ns_blocks s') /\ NodeModel.ns_head s' = NodeModel.ab_id b.
Proof. exact StaleMinerProofs.stale_snapshot_drops_adopted_block_refuted. Qed.

Print Assumptions C04_head.
Print Assumptions C04_tips.
Print Assumptions C04_index.
Print Assumptions C04_forks_lca.
Print Assumptions C04_ids.
Print Assumptions C04_found_block_keeps_served_blocks.
Print Assumptions C04_snapshot_handler_agrees_without_adoption.
Print Assumptions C04_stale_snapshot_drops_adopted_block_refuted.
