(* C16 -- monetary schedule matches the documented parameters.
   Statements are over the definitions REGENERATED from /repo (Gen_Functions, Gen_Params); the documented numbers are
   written out literally here, so a change to the code or its constants breaks these theorems. *)
From Coq Require Import ZArith List Bool Lia ZifyBool.
From SkV Require Import Gen_Params Gen_Functions Subsidy SubsidyProofs Bridge_Subsidy.
Open Scope Z_scope.

Lemma params_documented :
  INITIAL_SUBSIDY = 1000000000 /\ SUBSIDY_HALVING_INTERVAL = 1050000 /\ MAX_SASHIMI = 2099999986350000.
Proof. repeat split; reflexivity. Qed.

Lemma c16_value h : 0 <= h -> get_block_subsidy h = 1000000000 / 2 ^ (h / 1050000).
Proof.
  intros Hh. rewrite bridge_subsidy by exact Hh.
  destruct params_documented as (-> & -> & _).
  apply subsidy_value; lia.
Qed.

Lemma c16_antitone h1 h2 : 0 <= h1 <= h2 -> get_block_subsidy h2 <= get_block_subsidy h1.
Proof.
  intros H. rewrite !bridge_subsidy by lia. destruct params_documented as (-> & -> & _).
  apply subsidy_antitone; lia.
Qed.

Lemma c16_zero_from h : 30 * 1050000 <= h -> get_block_subsidy h = 0.
Proof.
  intros H. rewrite bridge_subsidy by lia. destruct params_documented as (-> & -> & _).
  apply subsidy_zero_from with (k := 30); try lia; reflexivity.
Qed.

Lemma c16_positive_before h : 0 <= h < 30 * 1050000 -> 0 < get_block_subsidy h.
Proof.
  intros H. rewrite c16_value by lia.
  assert (Hq : 0 <= h / 1050000 <= 29).
  { split; [apply Z.div_pos; lia|]. enough (h / 1050000 < 30) by lia. apply Z.div_lt_upper_bound; lia. }
  apply Z.div_str_pos. split; [apply Z.pow_pos_nonneg; lia|].
  transitivity (2 ^ 29); [apply Z.pow_le_mono_r; lia | vm_compute; discriminate].
Qed.

Lemma sum_upto_ext f g n : (forall x, 0 <= x -> f x = g x) -> sum_upto f n = sum_upto g n.
Proof. intros H. induction n as [|n IH]; cbn [sum_upto]; [reflexivity|]. rewrite IH, H by lia. reflexivity. Qed.

Lemma c16_total (n : nat) : 30 * 1050000 <= Z.of_nat n ->
  sum_upto get_block_subsidy n = 2099999986350000.
Proof.
  intros Hn.
  rewrite (sum_upto_ext _ (subsidy 1050000 1000000000)).
  - rewrite subsidy_total with (k := 30%nat); try lia; try reflexivity.
  - intros x Hx. rewrite bridge_subsidy by exact Hx. destruct params_documented as (-> & -> & _). reflexivity.
Qed.

Lemma c16_range v : validate_sashimi_range v = true <-> 0 < v <= 2099999986350000.
Proof. rewrite bridge_range. destruct params_documented as (_ & _ & ->). unfold sashimi_in_range. lia. Qed.

(* ---- the property ---- *)
Theorem C16_value : forall h, 0 <= h -> get_block_subsidy h = 1000000000 / 2 ^ (h / 1050000).
Proof. exact c16_value. Qed.
Theorem C16_antitone : forall h1 h2, 0 <= h1 <= h2 -> get_block_subsidy h2 <= get_block_subsidy h1.
Proof. exact c16_antitone. Qed.
Theorem C16_zero_from : forall h, 30 * 1050000 <= h -> get_block_subsidy h = 0.
Proof. exact c16_zero_from. Qed.
Theorem C16_positive_before : forall h, 0 <= h < 30 * 1050000 -> 0 < get_block_subsidy h.
Proof. exact c16_positive_before. Qed.
Theorem C16_total : forall n : nat, 30 * 1050000 <= Z.of_nat n -> sum_upto get_block_subsidy n = 2099999986350000.
Proof. exact c16_total. Qed.
Theorem C16_max_is_validator_limit : MAX_SASHIMI = 2099999986350000 /\
  forall v, validate_sashimi_range v = true <-> 0 < v <= 2099999986350000.
Proof. split; [reflexivity | exact c16_range]. Qed.
(* non-vacuity: a concrete height in the third era *)
Example C16_example : get_block_subsidy 2100001 = 250000000.
Proof. reflexivity. Qed.

Print Assumptions C16_value.
Print Assumptions C16_antitone.
Print Assumptions C16_zero_from.
Print Assumptions C16_positive_before.
Print Assumptions C16_total.
Print Assumptions C16_max_is_validator_limit.
