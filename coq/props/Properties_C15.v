(* C15 -- wallet keys and file, over the model of wallet.py key management and save_wallet.
   C15_partition: annotated and unused keys stay disjoint subsets of the key pairs, without repetition, under generate
   (fresh key), hand-out (while unused keys remain) and restore of an annotated key.
   C15_no_reuse: over every sequence of hand-outs, generates and restores, a key handed out (while unused keys remain)
   is not handed out again unless it was restored in between.
   C15_exhausted_restore_refuted: the recorded finding -- after the exhausted-wallet fallback returned an already
   published key, restoring it puts it back among the unused keys and it is handed out again.
   C15_atomic: for every old/new content, every chunking of the write and EVERY prefix of the save operations the
   target file holds the old or the new content, the new one exactly when all operations completed; the in-place
   alternative is refuted.  (Process-crash model of open/write/close/rename; rename atomicity of the OS is assumed.)
   The JSON round trip of dump/load is tied by the check (json is trusted), see DESIGN.md. *)
From Coq Require Import NArith List.
From SkV Require Import WalletModel WalletProofs.
Import ListNotations.

Theorem C15_partition : forall w, WInv w ->
  (forall k, ~ In k (w_keys w) -> WInv (generate w k)) /\
  (forall a c, w_unused w <> [] -> WInv (snd (hand_out w a c))) /\
  (forall k, In k (map fst (w_annot w)) -> exists w', restore w k = Some w' /\ WInv w').
Proof. exact partition_inv. Qed.

Theorem C15_no_reuse : forall ops w (i j : nat) k, WInv w -> gens_fresh w ops -> (i < j)%nat ->
  nth_error (wrun w ops) i = Some (EHanded k) -> nth_error (wrun w ops) j = Some (EHanded k) ->
  exists m, (i < m < j)%nat /\ nth_error (wrun w ops) m = Some (ERestored k).
Proof. exact no_reuse. Qed.

Theorem C15_atomic : forall side target chunks f, side <> target ->
  let ops := save_ops side target chunks in
  (forall n, fs_get (run_ops f (firstn n ops)) target = fs_get f target \/
             fs_get (run_ops f (firstn n ops)) target = Some (concat chunks)) /\
  fs_get (run_ops f ops) target = Some (concat chunks) /\
  (forall n, (n < length ops)%nat -> fs_get (run_ops f (firstn n ops)) target = fs_get f target).
Proof. exact save_atomic. Qed.

Theorem C15_inplace_refuted : exists f target chunks old n,
  fs_get f target = Some old /\
  fs_get (run_ops f (firstn n (inplace_ops target chunks))) target <> Some old /\
  fs_get (run_ops f (firstn n (inplace_ops target chunks))) target <> Some (concat chunks) /\
  fs_get (run_ops f (inplace_ops target chunks)) target = Some (concat chunks).
Proof. exact inplace_not_atomic_refuted. Qed.

Print Assumptions C15_partition.
Print Assumptions C15_no_reuse.
Print Assumptions C15_atomic.
Print Assumptions C15_inplace_refuted.
