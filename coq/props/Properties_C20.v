(* C20 -- containment of malformed input, over the dispatch model (local_peer catch-all around framing, decoding,
   protocol order and the message handlers; the handlers themselves are a parameter, modelled in NodeModel / PeerBook /
   Sync).  For EVERY byte string read from a peer: the shared state afterwards (chain state, pool, store, peer book,
   other connections) is exactly the result of the frames that were handled successfully; hence every invariant the
   handlers preserve on their success path survives arbitrary input; a read whose first frame is malformed changes
   nothing and closes only the offending connection.
   PARTIAL by nature: which Python operations raise, and that everything raised is an Exception caught by the
   catch-all, is knowledge about the interpreter and libraries that the model mirrors; it is tied by bulk adversarial
   input in the check, not proved. *)
From Coq Require Import NArith List.
From SkV Require Import Bytes Wire Framing Dispatch DispatchProofs.
From SkV Require Vlq Codec BoundProofs.
Import ListNotations.

Theorem C20_state_is_handled_prefix : forall max shared handle c s data,
  shared_of shared (on_read max shared handle c s data) =
  frames_partial shared handle (c_hello c) s (snd (fst (receive max (c_recv c) data))).
Proof. exact read_state_is_handled_prefix. Qed.

Theorem C20_invariant_contained : forall max shared handle (I : shared -> Prop),
  (forall s h m b s', I s -> handle s h m b = Some s' -> I s') ->
  forall c s data, I s -> I (shared_of shared (on_read max shared handle c s data)).
Proof. exact invariant_contained. Qed.

Theorem C20_malformed_dropped : forall max shared handle c s data r' f fs e,
  receive max (c_recv c) data = (r', f :: fs, e) ->
  (dec_frame f = None \/
   (exists h m, dec_frame f = Some (h, m) /\
      ((is_hello m = false /\ c_hello c = false) \/ handle s h m (c_hello c) = None))) ->
  on_read max shared handle c s data = Dropped shared s.
Proof. exact malformed_first_frame_dropped. Qed.

Theorem C20_bad_framing_dropped : forall max shared handle c s data r' err,
  receive max (c_recv c) data = (r', [], Some err) -> on_read max shared handle c s data = Dropped shared s.
Proof. exact bad_framing_dropped. Qed.

(* resource bound of decoding: whatever element count a message DECLARES, a successful decode of any list the protocol
   carries (start hashes, inventory items, peers, inputs, outputs, transactions) yields no more elements than bytes were
   received, and a declared count above the remaining input is a decode failure (no work proportional to the number) *)
Theorem C20_protocol_lists_bounded :
  (forall bs l r, Codec.dec_list Wire.dec_hash32 bs = Some (l, r) -> (length l + length r <= length bs)%nat) /\
  (forall bs l r, Codec.dec_list Wire.dec_item bs = Some (l, r) -> (length l + length r <= length bs)%nat) /\
  (forall bs l r, Codec.dec_list Wire.dec_peer bs = Some (l, r) -> (length l + length r <= length bs)%nat) /\
  (forall bs l r, Codec.dec_list Codec.dec_input bs = Some (l, r) -> (length l + length r <= length bs)%nat) /\
  (forall bs l r, Codec.dec_list Codec.dec_output bs = Some (l, r) -> (length l + length r <= length bs)%nat) /\
  (forall bs l r, Codec.dec_list Codec.dec_tx bs = Some (l, r) -> (length l + length r <= length bs)%nat).
Proof. exact BoundProofs.protocol_lists_bounded. Qed.

Theorem C20_declared_count_exceeds_input_rejected : forall bs n r0,
  Vlq.vlq_dec bs = Some (n, r0) -> (N.of_nat (length r0) < n)%N -> Codec.dec_list Wire.dec_hash32 bs = None.
Proof. exact BoundProofs.getblocks_declared_count_exceeds_input_rejected. Qed.

Print Assumptions C20_state_is_handled_prefix.
Print Assumptions C20_invariant_contained.
Print Assumptions C20_malformed_dropped.
Print Assumptions C20_bad_framing_dropped.
Print Assumptions C20_protocol_lists_bounded.
Print Assumptions C20_declared_count_exceeds_input_rejected.
