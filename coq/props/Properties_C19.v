(* C19 -- peer book and back-off, over the PeerBook model (NetworkManager's two books, my_addresses, hello / peers
   handling, the periodic step, is_time_to_connect, write_peers).
   C19_disjoint: after EVERY event sequence (connects, accepts, greetings, announcements, disconnects incl. double
   disconnects, steps at any times) no key is both connected and waiting for reconnection, so _sanity_check never
   raises.  C19_backoff: an attempt is made only when min(first*2^k, max) has elapsed since the previous one, never beyond
   the failure limit; trace-level: any two consecutive logged attempts for one key are at least wait_for(k) apart
   (for runs in which an already-disconnected OUTGOING object is not disconnected a second time: in the real node
   LocalPeer.disconnect unregisters the socket first, and a second call fails there before touching the book; the
   model-level counter-example without that proviso is kept as PeerBookProofs.C19_backoff_trace_refuted).
   C19_self: a greeting carrying the node's own nonce on an outgoing connection records the address as own, moves
   it to the disconnected book and it is never attempted again.  C19_file: <= cap entries, newest first, no duplicate
   key, order of the others kept.  The shipped constants (regenerated from networking/params.py) are 10 / 1800 / 2880. *)
From Coq Require Import NArith ZArith List.
From SkV Require Import PeerBook PeerBookProofs.
From SkV Require Gen_Params.
Import ListNotations.

Theorem C19_disjoint' : forall fw mw ma evs, sane (s_book (run fw mw ma evs)) = true.
Proof. exact C19_sane_always. Qed.

Theorem C19_backoff' : forall fw mw ma,
  (forall d now t, is_time_to_connect fw mw ma d now = true -> d_last d = Some t -> (t <= now)%N ->
                   (wait_for fw mw (d_ban d) <= now - t)%N) /\
  (forall d now, (ma < d_ban d)%N -> is_time_to_connect fw mw ma d now = false).
Proof. exact C19_backoff. Qed.

Theorem C19_backoff_trace' : forall fw mw ma evs,
  mono_from 0%N evs -> wf_run fw mw ma s_init evs -> Forall stale_ok evs ->
  map fst (s_glog (run fw mw ma evs)) = b_attempts (s_book (run fw mw ma evs)) /\
  forall L1 k t1 n1 L2 t2 n2 L3,
    s_glog (run fw mw ma evs) = L1 ++ (k, t1, n1) :: L2 ++ (k, t2, n2) :: L3 ->
    (forall x, In x L2 -> fst (fst x) <> k) ->
    (wait_for fw mw n2 <= t2 - t1)%N /\ (t1 <= t2)%N /\ (n2 <= ma)%N.
Proof. exact C19_backoff_trace. Qed.

Theorem C19_self' : forall fw mw ma b c p, In c (b_conn b) -> k_dir (c_key c) = Outgoing ->
  let b' := hello b c p true in
  In (k_host (c_key c), k_port (c_key c)) (b_mine b') /\ find_conn (b_conn b') (c_key c) = None /\
  find_disc (b_disc b') (c_key c) = Some (mkD (c_key c) 0%N (c_last c)) /\
  (forall now d, k_host (d_key d) = k_host (c_key c) -> k_port (d_key d) = k_port (c_key c) ->
                 due fw mw ma b' now d = false) /\
  (forall now fresh t, In (c_key c, t) (b_attempts (step fw mw ma b' now fresh)) -> In (c_key c, t) (b_attempts b')).
Proof. exact C19_self. Qed.

Theorem C19_file' : forall cap db p,
  (length (write_peers cap db p) <= cap)%nat /\ ((0 < cap)%nat -> hd_error (write_peers cap db p) = Some p) /\
  (NoDup db -> NoDup (write_peers cap db p)) /\
  (forall n, cap = S n -> write_peers cap db p = p :: firstn n (filter (fun k => negb (key_eqb k p)) db)) /\
  (forall k, In k (write_peers cap db p) -> k = p \/ In k db).
Proof. exact C19_file. Qed.

Theorem C19_constants : Gen_Params.TIME_TO_SECOND_CONNECTION_ATTEMPT = 10%Z /\
  Gen_Params.MAX_TIME_BETWEEN_CONNECTION_ATTEMPTS = 1800%Z /\ Gen_Params.MAX_CONNECTION_ATTEMPTS = 2880%Z /\
  (forall k, wait_for 10 1800 k = N.min (10 * 2 ^ k) 1800)%N.
Proof. repeat split; try reflexivity. Qed.

Print Assumptions C19_disjoint'.
Print Assumptions C19_backoff'.
Print Assumptions C19_backoff_trace'.
Print Assumptions C19_self'.
Print Assumptions C19_file'.
Print Assumptions C19_constants.
