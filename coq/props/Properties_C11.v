(* C11 -- stream framing is independent of transport fragmentation.
   The receiver (model of MessageReceiver.receive) refines the grammar of the whole stream for EVERY way of cutting
   the stream into reads; unbounded in stream length and number/position of cuts. *)
From Coq Require Import NArith List.
From SkV Require Import Bytes Framing FramingProofs.
Import ListNotations.
Open Scope N_scope.

Theorem C11_spec : forall max chunks, Forall bytes_wf chunks ->
  let '(fs, e, st) := feed max r_init chunks in
  let '(fs', e', rest) := parse_stream max (concat chunks) in
  fs = fs' /\ e = e' /\ (e = None -> pending st = rest).
Proof. exact feed_spec. Qed.

Theorem C11_chunking : forall max c1 c2, Forall bytes_wf c1 -> Forall bytes_wf c2 -> concat c1 = concat c2 ->
  fst (fst (feed max r_init c1)) = fst (fst (feed max r_init c2)) /\
  snd (fst (feed max r_init c1)) = snd (fst (feed max r_init c2)).
Proof. exact chunking_independent. Qed.

Example C11_example :
  feed 100 r_init [[77;65]; [74;73;0;0;0;3;1;2]; [3;77;65;74;73;0;0;0;2;9;8]] = ([[1;2;3];[9;8]], None, r_init).
Proof. vm_compute. reflexivity. Qed.
Example C11_example_refused :
  fst (feed 100 r_init [[77;65;74;73;0;0;0;1;5;77]; [65;74;74]]) = ([[5]], Some BadMagic).
Proof. vm_compute. reflexivity. Qed.

Print Assumptions C11_spec.
Print Assumptions C11_chunking.
