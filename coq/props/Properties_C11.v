(* C11 -- stream framing is independent of transport fragmentation.
   The receiver (model of MessageReceiver.receive) refines the grammar of the whole stream for EVERY way of cutting
   the stream into reads; unbounded in stream length and number/position of cuts. *)
From Coq Require Import NArith List.
From SkV Require Import Bytes Wire Framing FramingProofs SenderProofs EndToEndProofs.
Import ListNotations.
Open Scope N_scope.

Theorem C11_spec : forall max chunks, Forall bytes_wf chunks ->
  let '(fs, e, st) := feed max r_init chunks in
  let '(fs', e', rest) := parse_stream max (concat chunks) in
  fs = fs' /\ e = e' /\ (e = None -> pending st = rest).
Proof. exact feed_spec. Qed.

Theorem C11_chunking : forall max c1 c2, Forall bytes_wf c1 -> Forall bytes_wf c2 -> concat c1 = concat c2 ->
  fst (fst (feed max r_init c1)) = fst (fst (feed max r_init c2)) /\
  snd (fst (feed max r_init c1)) = snd (fst (feed max r_init c2)).
Proof. exact chunking_independent. Qed.

(* sender and receiver composed: the payloads handed to send_message on one side are exactly the frames delivered to
   handle_message_data on the other, in order, for EVERY fragmentation of the stream; a connection observed part-way
   has delivered a prefix of them and refused nothing.  The size premise is necessary ([C11_oversize_refused]). *)
Theorem C11_send_receive : forall max ps chunks, Forall (sendable max) ps -> Forall bytes_wf chunks ->
  concat chunks = send_stream ps ->
  fst (fst (feed max r_init chunks)) = ps /\
  snd (fst (feed max r_init chunks)) = None /\
  pending (snd (feed max r_init chunks)) = [].
Proof. exact send_receive. Qed.

Theorem C11_send_receive_prefix : forall max ps chunks later, Forall (sendable max) ps -> Forall bytes_wf chunks ->
  concat chunks ++ later = send_stream ps ->
  snd (fst (feed max r_init chunks)) = None /\
  exists more, fst (fst (feed max r_init chunks)) ++ more = ps.
Proof. exact send_receive_prefix. Qed.

Theorem C11_oversize_refused : forall max p b, max < N.of_nat (length p) -> N.of_nat (length p) < 2 ^ 32 ->
  parse_stream max (send_frame p ++ b) = ([], Some TooLong, send_frame p ++ b).
Proof. exact send_oversize_refused. Qed.

(* the sender's state machine (send_buffer, send_backlog, writability registration) for EVERY interleaving of
   send_message calls and socket writes of any sizes: what the socket has taken is a prefix of the stream of everything
   sent; once the sender stops asking for writability nothing is left behind; a socket taking >= 1 byte makes progress;
   composed with the receiver under every re-fragmentation. *)
Theorem C11_sender_drained : forall ops, s_writing (s_run ops) = false ->
  s_written (s_run ops) = send_stream (sent_of ops) /\ s_buf (s_run ops) = [] /\ s_backlog (s_run ops) = [].
Proof. exact sender_drained. Qed.

Theorem C11_sender_progress : forall ops n, (1 <= n)%nat -> s_buf (s_run ops) <> [] ->
  (length (s_written (s_run ops)) < length (s_written (s_can_send (s_run ops) n)))%nat.
Proof. exact sender_progress. Qed.

Theorem C11_sender_receiver_prefix : forall max ops chunks,
  Forall (sendable max) (sent_of ops) -> Forall bytes_wf chunks -> concat chunks = s_written (s_run ops) ->
  snd (fst (feed max r_init chunks)) = None /\
  exists more, fst (fst (feed max r_init chunks)) ++ more = sent_of ops.
Proof. exact sender_receiver_prefix. Qed.

Theorem C11_sender_receiver_complete : forall max ops chunks,
  Forall (sendable max) (sent_of ops) -> Forall bytes_wf chunks -> concat chunks = s_written (s_run ops) ->
  s_writing (s_run ops) = false ->
  fst (fst (feed max r_init chunks)) = sent_of ops /\
  snd (fst (feed max r_init chunks)) = None /\
  pending (snd (feed max r_init chunks)) = [].
Proof. exact sender_receiver_complete. Qed.

(* wire codec + sender + receiver: the (header, message) pairs handed to send_message are the pairs handed to
   handle_message_received, in order ("the sequence of protocol messages a node extracts"), for every fragmentation;
   with the sender's state machine in between and observed at any moment, a correctly decoded prefix of them. *)
Theorem C11_messages_end_to_end : forall max hms chunks, Forall (sendable_msg max) hms -> Forall bytes_wf chunks ->
  concat chunks = send_stream (map payload_of hms) ->
  map dec_frame (fst (fst (feed max r_init chunks))) = map Some hms /\
  snd (fst (feed max r_init chunks)) = None /\
  pending (snd (feed max r_init chunks)) = [].
Proof. exact messages_end_to_end. Qed.

Theorem C11_messages_end_to_end_prefix : forall max ops hms chunks, sent_of ops = map payload_of hms ->
  Forall (sendable_msg max) hms -> Forall bytes_wf chunks -> concat chunks = s_written (s_run ops) ->
  snd (fst (feed max r_init chunks)) = None /\
  exists k, map dec_frame (fst (fst (feed max r_init chunks))) = map Some (firstn k hms).
Proof. exact messages_end_to_end_prefix. Qed.

Example C11_example :
  feed 100 r_init [[77;65]; [74;73;0;0;0;3;1;2]; [3;77;65;74;73;0;0;0;2;9;8]] = ([[1;2;3];[9;8]], None, r_init).
Proof. vm_compute. reflexivity. Qed.
Example C11_example_refused :
  fst (feed 100 r_init [[77;65;74;73;0;0;0;1;5;77]; [65;74;74]]) = ([[5]], Some BadMagic).
Proof. vm_compute. reflexivity. Qed.

Print Assumptions C11_spec.
Print Assumptions C11_chunking.
Print Assumptions C11_send_receive.
Print Assumptions C11_send_receive_prefix.
Print Assumptions C11_oversize_refused.
Print Assumptions C11_sender_drained.
Print Assumptions C11_sender_progress.
Print Assumptions C11_sender_receiver_prefix.
Print Assumptions C11_sender_receiver_complete.
Print Assumptions C11_messages_end_to_end.
Print Assumptions C11_messages_end_to_end_prefix.
