(* C10 -- synchronisation converges and relay terminates.  PARTIAL (see DESIGN.md section 8).
   Proved (for all chains, locators and batch sizes): the locator announces exactly head-k (k < 10) and head-k^2
   (4 <= k < 64), strictly descending; the get-blocks server replies with at most `batch` CONSECUTIVE ids of its active
   chain whose first id's parent is genesis or an id the requester announced and that lies on the active chain (so a
   FIFO requester always knows the parent of each delivered block); a matching announced id strictly below the head
   yields a non-empty reply that strictly extends it (progress); an announced id at or above the server's head yields
   the empty reply (also when it is a side-branch tip: recorded as C10_side_branch_tip_silences since it matters for
   convergence between equal-height forks); each node relays a block at most once (C10_relay_at_most_once = C09) and a
   transaction only when it is admitted (C13).
   NOT proved: that every interleaving of deliveries and timer steps reaches the converged state (needs fairness and
   the timer gating); explored by the check on 2-3 real nodes under seeded schedulers. *)
From Coq Require Import NArith List Sorted.
From SkV Require Import Sync SyncProofs SyncRoundProofs CatchUpProofs NodeModel NodeProofs.
Import ListNotations.
Open Scope N_scope.

Theorem C10_locator_exact : forall x h, In x (recent_heights h) <->
  (exists k, k < 10 /\ k <= h /\ x = h - k) \/ (exists k, (4 <= k /\ k < 64) /\ k * k <= h /\ x = h - k * k).
Proof. exact recent_heights_exact. Qed.
Theorem C10_locator_sorted : forall h, StronglySorted (fun a b => b < a) (recent_heights h).
Proof. exact recent_heights_sorted. Qed.

Theorem C10_serve_consecutive : forall main height_of, main <> [] -> forall batch starts ids,
  serve batch main height_of starts = ids ->
  exists start, (start = 1 \/ (exists s hs, In s starts /\ height_of s = Some hs /\ main_at main hs = Some s /\ start = hs + 1)) /\
    ids = firstn (length ids) (skipn (N.to_nat start) main) /\ (length ids <= N.to_nat batch)%nat.
Proof. exact serve_consecutive. Qed.

Theorem C10_serve_parent_known : forall main height_of, main <> [] -> forall batch starts first rest,
  serve batch main height_of starts = first :: rest ->
  let start := start_of main height_of starts in
  1 <= start /\ main_at main start = Some first /\
  (start = 1 \/ (exists p, In p starts /\ height_of p = Some (start - 1) /\ main_at main (start - 1) = Some p)).
Proof. exact serve_parent_known. Qed.

Theorem C10_serve_progress : forall main height_of, main <> [] ->
  (forall i h, nth_error main (N.to_nat h) = Some i -> height_of i = Some h) ->
  forall batch prefix s suffix hs, 0 < batch -> Forall (skippable main height_of) prefix ->
  height_of s = Some hs -> main_at main hs = Some s -> hs < head_height main ->
  let ids := serve batch main height_of (prefix ++ s :: suffix) in
  ids <> [] /\ start_of main height_of (prefix ++ s :: suffix) = hs + 1 /\
  height_of (last ids 0) = Some (N.min (hs + batch) (head_height main)) /\
  main_at main (N.min (hs + batch) (head_height main)) = Some (last ids 0) /\
  hs < N.min (hs + batch) (head_height main).
Proof. exact serve_progress_first. Qed.

Theorem C10_serve_no_new_info : forall main height_of, main <> [] -> forall batch prefix s suffix hs,
  Forall (fun x => height_of x = None) prefix -> height_of s = Some hs -> head_height main <= hs ->
  serve batch main height_of (prefix ++ s :: suffix) = [].
Proof. exact serve_no_new_info. Qed.

Theorem C10_relay_at_most_once : forall skip tx_valid_at tx_conflict,
  (forall a b, tx_conflict a b = tx_conflict b a) ->
  forall s0 es s o, Quiescent s0 -> PoolInv tx_valid_at tx_conflict s0 -> NoDup (block_ids s0) ->
  ok_run skip tx_valid_at tx_conflict s0 es -> run skip tx_valid_at tx_conflict s0 es = (s, o) ->
  (forall i, (count_occ N.eq_dec (relayed_blocks o) i <= 1)%nat) /\
  (forall i, In i (relayed_blocks o) -> ~ In i (block_ids s0) /\ In i (block_ids s)) /\
  Quiescent s /\ PoolInv tx_valid_at tx_conflict s /\ NoDup (block_ids s) /\ incl (block_ids s0) (block_ids s).
Proof. exact relay_at_most_once. Qed.

(* initial block download in the LINEAR case (the requester's chain is a prefix of the server's active chain): each round
   appends the next min(batch, remaining) ids, so after n rounds the requester holds min(|main|, |rc| + n*batch) blocks
   and reaches the server's chain; the forked case is not covered by a theorem (explored by the check) *)
Theorem C10_ibd_rounds_converge : forall batch main height_of, main <> [] ->
  (forall i h, nth_error main (N.to_nat h) = Some i -> height_of i = Some h) -> 0 < batch ->
  forall rc, rc <> [] -> prefix_of main rc -> forall n,
  prefix_of main (rounds batch main height_of n rc) /\
  length (rounds batch main height_of n rc) = Nat.min (length main) (length rc + n * N.to_nat batch).
Proof. intros batch main height_of H1 H2 H3. exact (rounds_converge batch main height_of H1 H2 H3). Qed.
Theorem C10_ibd_terminates : forall batch main height_of, main <> [] ->
  (forall i h, nth_error main (N.to_nat h) = Some i -> height_of i = Some h) -> 0 < batch ->
  forall rc, rc <> [] -> prefix_of main rc -> exists n, rounds batch main height_of n rc = main.
Proof. intros batch main height_of H1 H2 H3. exact (ibd_terminates batch main height_of H1 H2 H3). Qed.

(* a FORKED requester that is strictly behind (its chain shares the prefix `common` with the server's active chain, its own
   branch `side` is unknown to the server or known below the server's head): the first reply starts at or below the
   block after the fork point, every follow-up request continues where the last reply ended, and the ids the requester is
   told about cover every block of the server's active chain above the fork point -- nothing off that chain, in height
   order without gaps.  (Two nodes, no loss; equal-height forks are not required to switch and are not covered.) *)
Theorem C10_forked_requester_catches_up : forall batch main height_of common rest rc side,
  0 < batch -> main = common ++ rest -> rc = common ++ side -> common <> [] ->
  (forall i h, nth_error main (N.to_nat h) = Some i -> height_of i = Some h) ->
  (forall x, In x side -> ~ In x main /\ (height_of x = None \/ exists hx, height_of x = Some hx /\ hx < head_height main)) ->
  (length rc < length main)%nat ->
  (exists fuel, forall i, In i rest -> In i (catch_up batch main height_of fuel rc)) /\
  (forall fuel i, In i (catch_up batch main height_of fuel rc) -> In i main).
Proof.
  intros batch main height_of common rest rc side Hb Hm Hr Hc Hcons Hside Hbeh. split.
  - eapply catch_up_covers; eassumption.
  - intros fuel i. eapply catch_up_only_main; eassumption.
Qed.

Print Assumptions C10_forked_requester_catches_up.
Print Assumptions C10_ibd_rounds_converge.
Print Assumptions C10_ibd_terminates.
Print Assumptions C10_locator_exact.
Print Assumptions C10_locator_sorted.
Print Assumptions C10_serve_consecutive.
Print Assumptions C10_serve_parent_known.
Print Assumptions C10_serve_progress.
Print Assumptions C10_serve_no_new_info.
Print Assumptions C10_relay_at_most_once.
