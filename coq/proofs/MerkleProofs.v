(* C17: the merkle commitment determines the ordered list (symbolic hash model, then any injective,
   domain-separated concrete hash). *)
From Coq Require Import List Arith Lia.
From SkV Require Import Merkle.
Import ListNotations.

Lemma level_len {D} (H : D -> D -> D) : forall n l, length l <= n -> length (level H l) <= length l /\ (2 <= length l -> length (level H l) < length l).
Proof.
  induction n as [|n IH]; intros l Hl.
  - destruct l; simpl in *; [split; lia | lia].
  - destruct l as [|a [|b r]]; simpl in *; try (split; lia).
    destruct (IH r ltac:(lia)) as [H1 H2']. split; lia.
Qed.

Lemma flat_level {A} : forall n (l : list (tm A)), length l <= n -> flat (level Node l) = flat l.
Proof.
  induction n as [|n IH]; intros l Hl.
  - destruct l; [reflexivity | simpl in Hl; lia].
  - destruct l as [|a [|b r]]; try reflexivity.
    cbn [level]. unfold flat in *. cbn [map concat flatten]. rewrite IH by (simpl in Hl; lia).
    rewrite <- app_assoc. reflexivity.
Qed.

Lemma root_fuel_flat {A} : forall f (l : list (tm A)) t, root_fuel Node f l = Some t -> flatten t = flat l.
Proof.
  induction f as [|f IH]; intros l t Hr; [discriminate|].
  cbn [root_fuel] in Hr. destruct l as [|a [|b r]]; [discriminate| |].
  - inversion Hr; subst. unfold flat; cbn. rewrite app_nil_r. reflexivity.
  - apply IH in Hr. rewrite Hr. apply (flat_level (length (a :: b :: r))). lia.
Qed.

Lemma root_fuel_enough {D} (H : D -> D -> D) : forall f l, l <> [] -> length l <= f -> exists t, root_fuel H f l = Some t.
Proof.
  induction f as [|f IH]; intros l Hne Hl; [destruct l; [congruence | simpl in Hl; lia]|].
  cbn [root_fuel]. destruct l as [|a [|b r]]; [congruence | eexists; reflexivity |].
  apply IH.
  - cbn [level]. discriminate.
  - destruct (level_len H (length (a::b::r)) (a::b::r) (le_n _)) as [_ Hlt]. specialize (Hlt ltac:(simpl; lia)). simpl in *. lia.
Qed.

Lemma flat_atoms {A} (xs : list A) : flat (map Atom xs) = xs.
Proof. unfold flat. induction xs as [|x xs IH]; [reflexivity|]. cbn. f_equal. exact IH. Qed.

(* C17 in the symbolic model: the commitment determines the ordered list *)
Theorem root_sym_injective {A} (xs ys : list A) t :
  root Node (map Atom xs) = Some t -> root Node (map Atom ys) = Some t -> xs = ys.
Proof.
  intros Hx Hy. apply root_fuel_flat in Hx. apply root_fuel_flat in Hy.
  rewrite flat_atoms in Hx, Hy. congruence.
Qed.

(* transfer to any concrete hash that is collision-free and domain-separated on the atoms used *)
Section Interp.
  Variable D : Type.
  Variable H2 : D -> D -> D.
  Hypothesis H2_inj : forall a b a' b', H2 a b = H2 a' b' -> a = a' /\ b = b'.
  Fixpoint interp (t : tm D) : D := match t with Atom x => x | Node a b => H2 (interp a) (interp b) end.
  Fixpoint atoms_sep (t : tm D) : Prop :=
    match t with Atom x => forall a b, x <> H2 a b | Node a b => atoms_sep a /\ atoms_sep b end.

  Lemma interp_inj : forall t t', atoms_sep t -> atoms_sep t' -> interp t = interp t' -> t = t'.
  Proof.
    induction t as [x|a IHa b IHb]; intros [x'|a' b'] Hs Hs' He; cbn in *.
    - congruence.
    - exfalso. eapply Hs. exact He.
    - exfalso. eapply Hs'. symmetry. exact He.
    - destruct Hs, Hs'. apply H2_inj in He as [E1 E2]. f_equal; auto.
  Qed.

  Lemma level_interp l : level H2 (map interp l) = map interp (level Node l).
  Proof.
    assert (G : forall n l, length l <= n -> level H2 (map interp l) = map interp (level Node l)).
    { induction n as [|n IH]; intros l0 Hl; [destruct l0; [reflexivity|simpl in Hl; lia]|].
      destruct l0 as [|a [|b r]]; try reflexivity. cbn [map level interp]. f_equal. apply IH. simpl in Hl. lia. }
    apply (G (length l)). lia.
  Qed.

  Lemma root_fuel_interp f : forall l, root_fuel H2 f (map interp l) = option_map interp (root_fuel Node f l).
  Proof.
    induction f as [|f IH]; intros l; [reflexivity|].
    destruct l as [|a [|b r]]; try reflexivity.
    change (map interp (a :: b :: r)) with (interp a :: interp b :: map interp r).
    cbn [root_fuel]. change (interp a :: interp b :: map interp r) with (map interp (a :: b :: r)).
    rewrite level_interp. apply IH.
  Qed.

  Lemma atoms_sep_level : forall n l, length l <= n -> Forall atoms_sep l -> Forall atoms_sep (level Node l).
  Proof.
    induction n as [|n IH]; intros l Hl Hf; [destruct l; [constructor|simpl in Hl; lia]|].
    destruct l as [|a [|b r]]; try assumption. cbn [level].
    inversion Hf as [|? ? Ha Hf']; subst. inversion Hf' as [|? ? Hb Hr]; subst.
    constructor; [split; assumption|]. apply IH; [simpl in Hl; lia | assumption].
  Qed.
  Lemma root_fuel_sep f : forall l t, Forall atoms_sep l -> root_fuel Node f l = Some t -> atoms_sep t.
  Proof.
    induction f as [|f IH]; intros l t Hf Hr; [discriminate|].
    cbn [root_fuel] in Hr. destruct l as [|a [|b r]]; [discriminate| |].
    - inversion Hr; subst. inversion Hf; assumption.
    - eapply IH; [|exact Hr]. apply (atoms_sep_level (length (a::b::r))); [lia|assumption].
  Qed.

  (* C17 for the concrete hash, under the two idealisations *)
  Theorem root_injective (xs ys : list D) d :
    (forall x, In x (xs ++ ys) -> forall a b, x <> H2 a b) ->
    root H2 xs = Some d -> root H2 ys = Some d -> xs = ys.
  Proof.
    intros Hsep Hx Hy.
    assert (Mx : map interp (map Atom xs) = xs) by (rewrite map_map; apply map_id).
    assert (My : map interp (map Atom ys) = ys) by (rewrite map_map; apply map_id).
    unfold root in *. rewrite <- Mx in Hx at 2. rewrite <- My in Hy at 2.
    rewrite root_fuel_interp in Hx, Hy.
    destruct (root_fuel Node (length xs) (map Atom xs)) as [tx|] eqn:Ex; [|cbn in Hx; discriminate].
    destruct (root_fuel Node (length ys) (map Atom ys)) as [ty|] eqn:Ey; [|cbn in Hy; discriminate].
    cbn in Hx, Hy. assert (Heq : interp tx = interp ty) by congruence.
    assert (Sx : Forall atoms_sep (map Atom xs)).
    { apply Forall_forall. intros t Ht. apply in_map_iff in Ht as (x & <- & Hin). cbn. apply Hsep. apply in_or_app; auto. }
    assert (Sy : Forall atoms_sep (map Atom ys)).
    { apply Forall_forall. intros t Ht. apply in_map_iff in Ht as (x & <- & Hin). cbn. apply Hsep. apply in_or_app; auto. }
    apply interp_inj in Heq; [| eapply root_fuel_sep; [exact Sx | exact Ex] | eapply root_fuel_sep; [exact Sy | exact Ey]].
    subst ty. eapply root_sym_injective.
    - unfold root. rewrite map_length. exact Ex.
    - unfold root. rewrite map_length. exact Ey.
  Qed.
End Interp.
(* the separation premise is necessary *)
Example collision_without_separation (H : nat -> nat -> nat) a b c :
  root H [H a b; c] = root H [a; b; c].
Proof. reflexivity. Qed.
