(* C08: fidelity of the block store (model/Store.v): what is written is what is read back -- provided no
   transaction id is shared by two written blocks; and the refutation when a transaction id IS shared
   (transaction_locator has PRIMARY KEY transaction hash: the first writer wins). stdlib style. *)
From Coq Require Import NArith List Bool Arith Lia Permutation Sorted.
From SkV Require Import Store.
Import ListNotations.
Open Scope N_scope.

(* ------------------------------------------------------------------------------------------------ *)
(* Specification-level definitions                                                                  *)
(* ------------------------------------------------------------------------------------------------ *)

(* every block's parent is the genesis marker 0 or the id of a block that appears EARLIER in the list *)
Definition parents_precede (l : list sblock) : Prop :=
  forall l1 b l2, l = l1 ++ b :: l2 -> sb_prev b = 0 \/ In (sb_prev b) (map sb_id l1).

Record wf_batchseq (batches : list (list sblock)) : Prop := mkWf {
  wf_parents  : parents_precede (concat batches);                         (* (a) *)
  wf_ids      : NoDup (map sb_id (concat batches));                       (* (b) pairwise distinct ids ... *)
  wf_nonzero  : ~ In 0 (map sb_id (concat batches));                      (* (b) ... and non-zero *)
  wf_nonempty : Forall (fun b => sb_txs b <> []) (concat batches);        (* (c) *)
  wf_txnodup  : Forall (fun b => NoDup (sb_txs b)) (concat batches)       (* (d) *)
}.

(* no transaction id occurs in two different written blocks *)
Definition no_shared_tx (batches : list (list sblock)) : Prop :=
  forall b1 b2 t, In b1 (concat batches) -> In b2 (concat batches) ->
                  In t (sb_txs b1) -> In t (sb_txs b2) -> b1 = b2.

(* (e) heights are parent height + 1 (only needed for "parents are read before their children") *)
Definition heights_consistent (batches : list (list sblock)) : Prop :=
  forall b p, In b (concat batches) -> In p (concat batches) -> sb_prev b = sb_id p ->
              sb_height b = sb_height p + 1.

Fixpoint write_all (s : store) (batches : list (list sblock)) : option store :=
  match batches with
  | [] => Some s
  | bs :: r => match write_blocks s bs with Some s' => write_all s' r | None => None end
  end.

Definition height_le (a b : sblock) : Prop := sb_height a <= sb_height b.
Definition height_sorted (l : list sblock) : Prop := StronglySorted height_le l.
Definition occurs_before {A} (p b : A) (l : list A) : Prop := exists l1 l2 l3, l = l1 ++ p :: l2 ++ b :: l3.

(* the locator rows a block contributes when none of its transaction ids is present yet *)
Definition loc_rows (b : sblock) : list (N * N) := map (fun t => (t, sb_id b)) (sb_txs b).

(* ------------------------------------------------------------------------------------------------ *)
(* Generic list facts                                                                               *)
(* ------------------------------------------------------------------------------------------------ *)

Lemma NoDup_app_l {A} (l1 l2 : list A) : NoDup (l1 ++ l2) -> NoDup l1.
Proof.
  induction l1 as [|a l1 IH]; intros H; [constructor|].
  cbn in H. inversion H as [|x l Hn Hd]; subst. constructor.
  - intro Hin. apply Hn. apply in_or_app. now left.
  - now apply IH.
Qed.

Lemma NoDup_app_r {A} (l1 l2 : list A) : NoDup (l1 ++ l2) -> NoDup l2.
Proof.
  induction l1 as [|a l1 IH]; intros H; [exact H|].
  cbn in H. inversion H; subst. now apply IH.
Qed.

Lemma NoDup_app_intro {A} (l1 l2 : list A) :
  NoDup l1 -> NoDup l2 -> (forall x, In x l1 -> ~ In x l2) -> NoDup (l1 ++ l2).
Proof.
  induction l1 as [|a l1 IH]; intros H1 H2 Hd; [exact H2|].
  inversion H1 as [|x l Hn Hnd]; subst. cbn. constructor.
  - intro Hin. apply in_app_or in Hin. destruct Hin as [Hin|Hin]; [now apply Hn|].
    apply (Hd a); [now left|exact Hin].
  - apply IH; auto. intros x Hx. apply Hd. now right.
Qed.

Lemma filter_all_true {A} (f : A -> bool) (l : list A) :
  (forall x, In x l -> f x = true) -> filter f l = l.
Proof.
  induction l as [|a l IH]; intros H; [reflexivity|].
  cbn. rewrite (H a (or_introl eq_refl)). f_equal. apply IH. intros x Hx. apply H. now right.
Qed.

Lemma StronglySorted_app_r {A} (R : A -> A -> Prop) (l1 l2 : list A) :
  StronglySorted R (l1 ++ l2) -> StronglySorted R l2.
Proof.
  induction l1 as [|a l1 IH]; intros H; [exact H|].
  cbn in H. apply StronglySorted_inv in H. now apply IH.
Qed.

(* ------------------------------------------------------------------------------------------------ *)
(* has_row / has_tx                                                                                 *)
(* ------------------------------------------------------------------------------------------------ *)

Lemma has_row_In c i : has_row c i = true <-> In i (map sb_id c).
Proof.
  unfold has_row. rewrite existsb_exists, in_map_iff. split; intros [b [H1 H2]]; exists b.
  - apply N.eqb_eq in H2. tauto.
  - split; [exact H2|]. now apply N.eqb_eq.
Qed.

Lemma has_row_false c i : has_row c i = false <-> ~ In i (map sb_id c).
Proof. rewrite <- has_row_In. now rewrite not_true_iff_false. Qed.

Lemma has_tx_In l t : has_tx l t = true <-> In t (map fst l).
Proof.
  unfold has_tx. rewrite existsb_exists, in_map_iff. split; intros [b [H1 H2]]; exists b.
  - apply N.eqb_eq in H2. tauto.
  - split; [exact H2|]. now apply N.eqb_eq.
Qed.

Lemma has_tx_false l t : has_tx l t = false <-> ~ In t (map fst l).
Proof. rewrite <- has_tx_In. now rewrite not_true_iff_false. Qed.

(* ------------------------------------------------------------------------------------------------ *)
(* insert_chain: appends exactly the new blocks, in order                                           *)
(* ------------------------------------------------------------------------------------------------ *)

(* parents precede, relative to the rows c that are already there *)
Definition pp (c bs : list sblock) : Prop :=
  forall l1 b l2, bs = l1 ++ b :: l2 -> sb_prev b = 0 \/ In (sb_prev b) (map sb_id (c ++ l1)).

Lemma pp_nil_parents_precede bs : parents_precede bs <-> pp [] bs.
Proof. unfold parents_precede, pp. cbn. tauto. Qed.

Lemma pp_app c b1 b2 : pp c (b1 ++ b2) -> pp c b1 /\ pp (c ++ b1) b2.
Proof.
  intros H. split.
  - intros l1 b l2 E. apply (H l1 b (l2 ++ b2)). subst. rewrite <- app_assoc. reflexivity.
  - intros l1 b l2 E. destruct (H (b1 ++ l1) b l2) as [H0|Hin].
    + subst. rewrite <- app_assoc. reflexivity.
    + now left.
    + right. rewrite <- app_assoc. exact Hin.
Qed.

Lemma insert_chain_app : forall bs c,
  pp c bs -> NoDup (map sb_id (c ++ bs)) -> insert_chain c bs = Some (c ++ bs).
Proof.
  induction bs as [|b r IH]; intros c Hpp Hnd; cbn [insert_chain].
  - now rewrite app_nil_r.
  - assert (Hfresh : has_row c (sb_id b) = false).
    { apply has_row_false. intro Hin. rewrite map_app in Hnd. cbn [map] in Hnd.
      apply NoDup_remove_2 in Hnd. apply Hnd. apply in_or_app. now left. }
    rewrite Hfresh.
    assert (Hpar : (sb_prev b =? 0) || has_row c (sb_prev b) = true).
    { destruct (Hpp [] b r eq_refl) as [H0|Hin].
      - rewrite H0. reflexivity.
      - rewrite app_nil_r in Hin. apply has_row_In in Hin. rewrite Hin. apply orb_true_r. }
    rewrite Hpar. rewrite IH.
    + rewrite <- app_assoc. reflexivity.
    + intros l1 x l2 E. destruct (Hpp (b :: l1) x l2) as [H0|Hin].
      * subst. reflexivity.
      * now left.
      * right. rewrite <- app_assoc. exact Hin.
    + rewrite <- app_assoc. exact Hnd.
Qed.

(* ------------------------------------------------------------------------------------------------ *)
(* insert_locs / insert_all_locs: append (t, bid) for every transaction when no tx id is present    *)
(* ------------------------------------------------------------------------------------------------ *)

Lemma insert_locs_fresh : forall txs l bid,
  NoDup (map fst l ++ txs) -> insert_locs l bid txs = l ++ map (fun t => (t, bid)) txs.
Proof.
  induction txs as [|t r IH]; intros l bid Hnd; cbn [insert_locs map].
  - now rewrite app_nil_r.
  - assert (Hf : has_tx l t = false).
    { apply has_tx_false. intro Hin. apply NoDup_remove_2 in Hnd. apply Hnd. apply in_or_app. now left. }
    rewrite Hf. rewrite IH.
    + rewrite <- app_assoc. reflexivity.
    + rewrite map_app, <- app_assoc. exact Hnd.
Qed.

Lemma map_fst_loc_rows b : map fst (loc_rows b) = sb_txs b.
Proof. unfold loc_rows. rewrite map_map. cbn. apply map_id. Qed.

Lemma insert_all_locs_app : forall b1 b2 l,
  insert_all_locs l (b1 ++ b2) = insert_all_locs (insert_all_locs l b1) b2.
Proof. induction b1 as [|b r IH]; intros b2 l; cbn; [reflexivity|apply IH]. Qed.

Lemma insert_all_locs_fresh : forall bs l,
  NoDup (map fst l ++ flat_map sb_txs bs) -> insert_all_locs l bs = l ++ flat_map loc_rows bs.
Proof.
  induction bs as [|b r IH]; intros l Hnd; cbn [insert_all_locs flat_map].
  - now rewrite app_nil_r.
  - cbn [flat_map] in Hnd. rewrite app_assoc in Hnd.
    rewrite insert_locs_fresh by (eapply NoDup_app_l; exact Hnd).
    fold (loc_rows b). rewrite IH.
    + rewrite <- app_assoc. reflexivity.
    + rewrite map_app, map_fst_loc_rows. exact Hnd.
Qed.

(* ------------------------------------------------------------------------------------------------ *)
(* txs_of recovers exactly sb_txs b, order preserved                                                *)
(* ------------------------------------------------------------------------------------------------ *)

Lemma txs_of_app l1 l2 i : txs_of (l1 ++ l2) i = txs_of l1 i ++ txs_of l2 i.
Proof. unfold txs_of. now rewrite filter_app, map_app. Qed.

Lemma txs_of_rows_same : forall txs i, txs_of (map (fun t => (t, i)) txs) i = txs.
Proof.
  unfold txs_of. induction txs as [|t r IH]; intros i; cbn; [reflexivity|].
  rewrite N.eqb_refl. cbn. now rewrite IH.
Qed.

Lemma txs_of_rows_other : forall txs i j, j <> i -> txs_of (map (fun t => (t, j)) txs) i = [].
Proof.
  unfold txs_of. induction txs as [|t r IH]; intros i j Hne; cbn; [reflexivity|].
  apply N.eqb_neq in Hne. rewrite Hne. apply IH. now apply N.eqb_neq.
Qed.

Lemma txs_of_flat_absent : forall l i, ~ In i (map sb_id l) -> txs_of (flat_map loc_rows l) i = [].
Proof.
  induction l as [|x r IH]; intros i Hn; cbn [flat_map]; [reflexivity|].
  rewrite txs_of_app. unfold loc_rows at 1. rewrite txs_of_rows_other.
  - cbn. apply IH. intro Hin. apply Hn. now right.
  - intro E. apply Hn. now left.
Qed.

Lemma txs_of_flat : forall l b,
  NoDup (map sb_id l) -> In b l -> txs_of (flat_map loc_rows l) (sb_id b) = sb_txs b.
Proof.
  induction l as [|x r IH]; intros b Hnd Hin; [destruct Hin|].
  cbn [map] in Hnd. inversion Hnd as [|y ys Hx Hr]; subst.
  cbn [flat_map]. rewrite txs_of_app. destruct Hin as [E|Hin].
  - subst x. unfold loc_rows at 1. rewrite txs_of_rows_same.
    rewrite txs_of_flat_absent by exact Hx. apply app_nil_r.
  - unfold loc_rows at 1. rewrite txs_of_rows_other.
    + cbn. now apply IH.
    + intro E. apply Hx. rewrite E. now apply in_map.
Qed.

(* ------------------------------------------------------------------------------------------------ *)
(* sort_by_height is a permutation and sorted                                                       *)
(* ------------------------------------------------------------------------------------------------ *)

Lemma insert_sorted_perm : forall l b, Permutation (insert_sorted b l) (b :: l).
Proof.
  induction l as [|x r IH]; intros b; cbn; [reflexivity|].
  destruct (sb_height b <? sb_height x); [reflexivity|].
  rewrite perm_swap. constructor. apply IH.
Qed.

Lemma fold_insert_sorted_perm : forall l, Permutation (fold_right insert_sorted [] l) l.
Proof.
  induction l as [|x r IH]; cbn; [constructor|].
  rewrite insert_sorted_perm. now constructor.
Qed.

Lemma sort_by_height_perm l : Permutation (sort_by_height l) l.
Proof. unfold sort_by_height. rewrite fold_insert_sorted_perm. symmetry. apply Permutation_rev. Qed.

Lemma insert_sorted_sorted : forall l b, height_sorted l -> height_sorted (insert_sorted b l).
Proof.
  unfold height_sorted.
  induction l as [|x r IH]; intros b Hs; cbn.
  - constructor; constructor.
  - pose proof (StronglySorted_inv Hs) as [Hr Hx].
    destruct (sb_height b <? sb_height x) eqn:E.
    + apply N.ltb_lt in E. constructor; [exact Hs|]. constructor.
      * unfold height_le. lia.
      * eapply Forall_impl; [|exact Hx]. unfold height_le. intros a Ha. lia.
    + apply N.ltb_ge in E. constructor; [now apply IH|].
      apply Forall_forall. intros y Hy.
      apply (Permutation_in _ (insert_sorted_perm r b)) in Hy. destruct Hy as [Hy|Hy].
      * subst y. exact E.
      * rewrite Forall_forall in Hx. now apply Hx.
Qed.

Lemma sort_by_height_sorted l : height_sorted (sort_by_height l).
Proof.
  unfold sort_by_height. induction (rev l) as [|x r IH]; cbn.
  - constructor.
  - now apply insert_sorted_sorted.
Qed.

Lemma sorted_occurs_before : forall l p b,
  height_sorted l -> In p l -> In b l -> sb_height p < sb_height b -> occurs_before p b l.
Proof.
  intros l p b Hs Hp Hb Hlt.
  destruct (in_split _ _ Hb) as [l1 [l2 E]]. subst l.
  apply in_app_or in Hp. destruct Hp as [Hp|[Hp|Hp]].
  - destruct (in_split _ _ Hp) as [a [c E]]. subst l1.
    exists a, c, l2. rewrite <- app_assoc. reflexivity.
  - subst p. lia.
  - exfalso. apply StronglySorted_app_r in Hs. apply StronglySorted_inv in Hs.
    destruct Hs as [_ Hf]. rewrite Forall_forall in Hf. specialize (Hf p Hp).
    unfold height_le in Hf. lia.
Qed.

(* ------------------------------------------------------------------------------------------------ *)
(* read_blocks is the height-sorted chain when the locator is faithful                              *)
(* ------------------------------------------------------------------------------------------------ *)

Lemma read_blocks_faithful s :
  (forall b, In b (st_chain s) -> txs_of (st_locator s) (sb_id b) = sb_txs b /\ sb_txs b <> []) ->
  read_blocks s = sort_by_height (st_chain s).
Proof.
  intros H. unfold read_blocks.
  assert (Hin : forall b, In b (sort_by_height (st_chain s)) -> In b (st_chain s)).
  { intros b Hb. exact (Permutation_in _ (sort_by_height_perm _) Hb). }
  rewrite filter_all_true.
  - rewrite <- (map_id (sort_by_height (st_chain s))) at 2.
    apply map_ext_in. intros b Hb. destruct (H b (Hin b Hb)) as [E _]. rewrite E.
    destruct b; reflexivity.
  - intros b Hb. destruct (H b (Hin b Hb)) as [E Hne]. rewrite E.
    destruct (sb_txs b); [contradiction|reflexivity].
Qed.

(* ------------------------------------------------------------------------------------------------ *)
(* write_all                                                                                        *)
(* ------------------------------------------------------------------------------------------------ *)

Lemma write_all_general : forall batches s,
  pp (st_chain s) (concat batches) -> NoDup (map sb_id (st_chain s ++ concat batches)) ->
  write_all s batches =
  Some (mkStore (st_chain s ++ concat batches) (insert_all_locs (st_locator s) (concat batches)) (st_buffer s)).
Proof.
  induction batches as [|bs r IH]; intros s Hpp Hnd; cbn [write_all concat].
  - rewrite app_nil_r. destruct s; reflexivity.
  - cbn [concat] in Hpp, Hnd. apply pp_app in Hpp. destruct Hpp as [Hp1 Hp2].
    unfold write_blocks. rewrite insert_chain_app.
    + rewrite IH; cbn [st_chain st_locator st_buffer].
      * rewrite <- app_assoc, insert_all_locs_app. reflexivity.
      * exact Hp2.
      * rewrite <- app_assoc. exact Hnd.
    + exact Hp1.
    + rewrite app_assoc, map_app in Hnd. eapply NoDup_app_l. exact Hnd.
Qed.

Lemma write_all_from_empty batches :
  wf_batchseq batches ->
  write_all store_empty batches =
  Some (mkStore (concat batches) (insert_all_locs [] (concat batches)) []).
Proof.
  intros [Hp Hi _ _ _]. rewrite write_all_general.
  - reflexivity.
  - cbn. now apply pp_nil_parents_precede.
  - cbn. exact Hi.
Qed.

(* 1. no foreign-key failure when parents precede children *)
Theorem write_all_succeeds : forall batches,
  wf_batchseq batches -> exists s, write_all store_empty batches = Some s.
Proof. intros batches H. eexists. now apply write_all_from_empty. Qed.

Lemma no_shared_flat_nodup : forall l,
  NoDup l -> Forall (fun b => NoDup (sb_txs b)) l ->
  (forall b1 b2 t, In b1 l -> In b2 l -> In t (sb_txs b1) -> In t (sb_txs b2) -> b1 = b2) ->
  NoDup (flat_map sb_txs l).
Proof.
  induction l as [|b r IH]; intros Hnd Hd Hns; cbn [flat_map]; [constructor|].
  inversion Hnd as [|x xs Hb Hr]; subst. inversion Hd as [|x xs Hdb Hdr]; subst.
  apply NoDup_app_intro.
  - exact Hdb.
  - apply IH; auto. intros b1 b2 t H1 H2. apply Hns; now right.
  - intros t Ht Hin. apply in_flat_map in Hin. destruct Hin as [b2 [Hb2 Ht2]].
    assert (E : b = b2) by (apply (Hns b b2 t); [now left|now right|exact Ht|exact Ht2]).
    subst b2. now apply Hb.
Qed.

Lemma locator_from_empty batches :
  wf_batchseq batches -> no_shared_tx batches ->
  insert_all_locs [] (concat batches) = flat_map loc_rows (concat batches).
Proof.
  intros [_ Hi _ _ Hd] Hns. rewrite insert_all_locs_fresh; [reflexivity|].
  cbn. apply no_shared_flat_nodup; auto. eapply NoDup_map_inv. exact Hi.
Qed.

(* 2. the round trip. _partial: true only under no_shared_tx (see C08_shared_tx_refuted below). Reading back
   yields exactly the written blocks (record equality, sb_txs in order), sorted by height; in fact
   read_blocks s IS the stable height sort of the written sequence. *)
Theorem C08_roundtrip_partial : forall batches s,
  wf_batchseq batches -> no_shared_tx batches -> write_all store_empty batches = Some s ->
  Permutation (read_blocks s) (concat batches) /\ height_sorted (read_blocks s).
Proof.
  intros batches s Hwf Hns Hw.
  rewrite (write_all_from_empty _ Hwf) in Hw. injection Hw as <-.
  rewrite (locator_from_empty _ Hwf Hns).
  rewrite read_blocks_faithful; cbn [st_chain st_locator].
  - split; [apply sort_by_height_perm|apply sort_by_height_sorted].
  - intros b Hb. destruct Hwf as [_ Hi _ Hne _]. split.
    + now apply txs_of_flat.
    + rewrite Forall_forall in Hne. now apply Hne.
Qed.

(* the same, exposing the full store contents *)
Theorem C08_roundtrip_contents : forall batches s,
  wf_batchseq batches -> no_shared_tx batches -> write_all store_empty batches = Some s ->
  st_chain s = concat batches /\ st_locator s = flat_map loc_rows (concat batches) /\ st_buffer s = [] /\
  read_blocks s = sort_by_height (concat batches).
Proof.
  intros batches s Hwf Hns Hw.
  rewrite (write_all_from_empty _ Hwf) in Hw. injection Hw as <-.
  rewrite (locator_from_empty _ Hwf Hns). repeat split.
  rewrite read_blocks_faithful; cbn [st_chain st_locator]; [reflexivity|].
  intros b Hb. destruct Hwf as [_ Hi _ Hne _]. split.
  - now apply txs_of_flat.
  - rewrite Forall_forall in Hne. now apply Hne.
Qed.

(* each parent is read before its children, provided heights are parent + 1 *)
Theorem C08_parents_first : forall batches s,
  wf_batchseq batches -> no_shared_tx batches -> heights_consistent batches ->
  write_all store_empty batches = Some s ->
  forall b p, In b (read_blocks s) -> In p (read_blocks s) -> sb_prev b = sb_id p ->
              occurs_before p b (read_blocks s).
Proof.
  intros batches s Hwf Hns Hh Hw b p Hb Hp E.
  destruct (C08_roundtrip_partial _ _ Hwf Hns Hw) as [Hperm Hs].
  apply sorted_occurs_before; auto.
  assert (sb_height b = sb_height p + 1).
  { apply Hh; auto; eapply Permutation_in; eauto. }
  lia.
Qed.

(* ------------------------------------------------------------------------------------------------ *)
(* 3. the write buffer                                                                              *)
(* ------------------------------------------------------------------------------------------------ *)

Lemma fold_add_to_buffer : forall bs s,
  fold_left add_to_buffer bs s = mkStore (st_chain s) (st_locator s) (st_buffer s ++ bs).
Proof.
  induction bs as [|b r IH]; intros s; cbn [fold_left].
  - rewrite app_nil_r. destruct s; reflexivity.
  - rewrite IH. cbn. rewrite <- app_assoc. reflexivity.
Qed.

(* flush after buffering bs = write_blocks s bs with the buffer emptied; failure iff write_blocks fails *)
Theorem flush_spec : forall s bs,
  st_buffer s = [] ->
  flush (fold_left add_to_buffer bs s) =
  match write_blocks s bs with
  | Some s' => Some (mkStore (st_chain s') (st_locator s') [])
  | None => None
  end.
Proof.
  intros s bs Hb. rewrite fold_add_to_buffer, Hb. cbn [app].
  unfold flush, write_blocks. cbn [st_buffer st_chain st_locator].
  destruct bs as [|b r].
  - cbn. reflexivity.
  - destruct (insert_chain (st_chain s) (b :: r)); reflexivity.
Qed.

Corollary flush_same_contents : forall s bs s',
  st_buffer s = [] -> write_blocks s bs = Some s' ->
  exists s'', flush (fold_left add_to_buffer bs s) = Some s'' /\
              st_chain s'' = st_chain s' /\ st_locator s'' = st_locator s' /\ st_buffer s'' = [] /\
              read_blocks s'' = read_blocks s'.
Proof.
  intros s bs s' Hb Hw. rewrite flush_spec by exact Hb. rewrite Hw.
  eexists. split; [reflexivity|]. repeat split.
Qed.

Corollary flush_fails_iff_write_fails : forall s bs,
  st_buffer s = [] -> (flush (fold_left add_to_buffer bs s) = None <-> write_blocks s bs = None).
Proof.
  intros s bs Hb. rewrite flush_spec by exact Hb.
  destruct (write_blocks s bs); split; intro H; congruence.
Qed.

(* ------------------------------------------------------------------------------------------------ *)
(* 4. refutations                                                                                   *)
(* ------------------------------------------------------------------------------------------------ *)

(* boolean checker for parents_precede, used to discharge wf_batchseq on concrete witnesses *)
Fixpoint ppb (c bs : list sblock) : bool :=
  match bs with
  | [] => true
  | b :: r => ((sb_prev b =? 0) || has_row c (sb_prev b)) && ppb (c ++ [b]) r
  end.

Lemma ppb_sound : forall bs c, ppb c bs = true -> pp c bs.
Proof.
  induction bs as [|a r IH]; intros c H l1 b l2 E.
  - destruct l1; discriminate E.
  - cbn [ppb] in H. apply andb_true_iff in H. destruct H as [Ha Hr].
    destruct l1 as [|x l1]; cbn in E; injection E as E1 E2.
    + subst. apply orb_true_iff in Ha. destruct Ha as [Ha|Ha].
      * left. now apply N.eqb_eq.
      * right. rewrite app_nil_r. now apply has_row_In.
    + subst. destruct (IH _ Hr l1 b l2 eq_refl) as [H0|Hin]; [now left|].
      right. rewrite <- app_assoc in Hin. exact Hin.
Qed.

Ltac solve_wf :=
  constructor;
  [ apply pp_nil_parents_precede; apply ppb_sound; vm_compute; reflexivity
  | cbn; repeat (constructor; [cbn; intuition discriminate|]); constructor
  | cbn; intuition discriminate
  | cbn; repeat (constructor; [discriminate|]); constructor
  | cbn; repeat (constructor; [repeat (constructor; [cbn; intuition discriminate|]); constructor|]); constructor ].

Definition shared_tx_batches : list (list sblock) :=
  [ [mkSB 1 0 0 [10]]; [mkSB 2 1 1 [20; 77]]; [mkSB 3 1 1 [30; 77]] ].

Lemma shared_tx_wf : wf_batchseq shared_tx_batches.
Proof. solve_wf. Qed.

(* what is actually read back: block 3 has lost transaction 77 *)
Lemma shared_tx_read :
  option_map read_blocks (write_all store_empty shared_tx_batches) =
  Some [mkSB 1 0 0 [10]; mkSB 2 1 1 [20; 77]; mkSB 3 1 1 [30]].
Proof. vm_compute. reflexivity. Qed.

Theorem C08_shared_tx_refuted :
  exists batches, wf_batchseq batches /\
    exists s, write_all store_empty batches = Some s /\ ~ Permutation (read_blocks s) (concat batches).
Proof.
  exists shared_tx_batches. split; [exact shared_tx_wf|].
  destruct (write_all store_empty shared_tx_batches) as [s|] eqn:E; [|vm_compute in E; discriminate E].
  exists s. split; [reflexivity|].
  pose proof shared_tx_read as R. rewrite E in R. cbn [option_map] in R. injection R as R. rewrite R.
  intro P. apply Permutation_sym in P.
  assert (Hin : In (mkSB 3 1 1 [30; 77]) (concat shared_tx_batches)) by (cbn; tauto).
  apply (Permutation_in _ P) in Hin. cbn in Hin.
  destruct Hin as [H|[H|[H|H]]]; try discriminate H; exact H.
Qed.

Definition identical_reward_batches : list (list sblock) :=
  [ [mkSB 1 0 0 [10]]; [mkSB 2 1 1 [55]]; [mkSB 3 1 1 [55]] ].

Lemma identical_reward_wf : wf_batchseq identical_reward_batches.
Proof. solve_wf. Qed.

(* block 3 is not returned at all *)
Lemma identical_reward_read :
  option_map read_blocks (write_all store_empty identical_reward_batches) =
  Some [mkSB 1 0 0 [10]; mkSB 2 1 1 [55]].
Proof. vm_compute. reflexivity. Qed.

Theorem C08_identical_reward_refuted :
  exists batches, wf_batchseq batches /\
    exists s, write_all store_empty batches = Some s /\
      ~ Permutation (read_blocks s) (concat batches) /\
      (exists b, In b (concat batches) /\ ~ In (sb_id b) (map sb_id (read_blocks s))).
Proof.
  exists identical_reward_batches. split; [exact identical_reward_wf|].
  destruct (write_all store_empty identical_reward_batches) as [s|] eqn:E; [|vm_compute in E; discriminate E].
  exists s. split; [reflexivity|].
  pose proof identical_reward_read as R. rewrite E in R. cbn [option_map] in R. injection R as R. rewrite R.
  split.
  - intro P. apply Permutation_length in P. cbn in P. discriminate P.
  - exists (mkSB 3 1 1 [55]). split; [cbn; tauto|]. cbn. intuition discriminate.
Qed.

(* hypothesis (c) is needed as well: a block without transactions is written but never read back *)
Theorem C08_empty_block_refuted :
  exists s, write_all store_empty [[mkSB 1 0 0 []]] = Some s /\
            st_chain s = [mkSB 1 0 0 []] /\ read_blocks s = [].
Proof. eexists. split; [reflexivity|]. split; reflexivity. Qed.

(* ------------------------------------------------------------------------------------------------ *)
(* 5. a failed flush keeps the buffer; one bad block poisons every later flush                      *)
(* ------------------------------------------------------------------------------------------------ *)

(* the node's state after calling flush: on failure (exception) nothing changed *)
Definition flush_or_keep (s : store) : store := match flush s with Some s' => s' | None => s end.

Theorem failed_flush_keeps_buffer : forall s,
  flush s = None ->
  flush_or_keep s = s /\ st_buffer (flush_or_keep s) = st_buffer s /\ st_buffer s <> [] /\
  write_blocks s (st_buffer s) = None.
Proof.
  intros s H. unfold flush_or_keep. rewrite H. repeat split.
  - intro E. unfold flush in H. rewrite E in H. discriminate H.
  - unfold flush in H. destruct (st_buffer s) eqn:Eb; [discriminate H|].
    destruct (write_blocks s (s0 :: l)); [discriminate H|reflexivity].
Qed.

Lemma insert_chain_poisoned : forall pre c bad rest,
  sb_prev bad <> 0 ->
  ~ In (sb_prev bad) (map sb_id c ++ map sb_id pre) ->
  ~ In (sb_id bad) (map sb_id c ++ map sb_id pre) ->
  insert_chain c (pre ++ bad :: rest) = None.
Proof.
  induction pre as [|x pre IH]; intros c bad rest H0 Hp Hi; cbn [app insert_chain].
  - cbn in Hp, Hi. rewrite app_nil_r in Hp, Hi.
    apply has_row_false in Hp, Hi. rewrite Hi, Hp.
    apply N.eqb_neq in H0. rewrite H0. reflexivity.
  - assert (Hsub : forall i, ~ In i (map sb_id c ++ map sb_id (x :: pre)) ->
                             ~ In i (map sb_id (c ++ [x]) ++ map sb_id pre) /\
                             ~ In i (map sb_id c ++ map sb_id pre)).
    { intros i Hn. split; intro Hin; apply Hn.
      - rewrite map_app, <- app_assoc in Hin. exact Hin.
      - apply in_app_or in Hin. apply in_or_app. destruct Hin; [now left|right; now right]. }
    destruct (Hsub _ Hp) as [Hp1 Hp2]. destruct (Hsub _ Hi) as [Hi1 Hi2].
    destruct (has_row c (sb_id x)); [now apply IH|].
    destruct ((sb_prev x =? 0) || has_row c (sb_prev x)); [now apply IH|reflexivity].
Qed.

(* a buffered block whose (non-zero) parent is neither on disk nor earlier in the buffer, and which is not
   itself on disk/earlier in the buffer, makes this and every later flush fail, whatever is buffered after it *)
Theorem flush_poisoned : forall s pre bad rest,
  st_buffer s = pre ++ bad :: rest ->
  sb_prev bad <> 0 ->
  ~ In (sb_prev bad) (map sb_id (st_chain s) ++ map sb_id pre) ->
  ~ In (sb_id bad) (map sb_id (st_chain s) ++ map sb_id pre) ->
  forall more, flush (fold_left add_to_buffer more s) = None /\
               flush_or_keep (fold_left add_to_buffer more s) = fold_left add_to_buffer more s.
Proof.
  intros s pre bad rest Hb H0 Hp Hi more.
  assert (F : flush (fold_left add_to_buffer more s) = None).
  { rewrite fold_add_to_buffer, Hb. unfold flush, write_blocks. cbn [st_buffer st_chain st_locator].
    rewrite <- app_assoc. cbn [app].
    rewrite (insert_chain_poisoned pre (st_chain s) bad (rest ++ more) H0 Hp Hi).
    destruct (pre ++ bad :: rest ++ more) eqn:E; [|reflexivity].
    destruct pre; discriminate E. }
  split; [exact F|]. unfold flush_or_keep. now rewrite F.
Qed.

