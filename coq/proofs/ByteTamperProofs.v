(* Byte-level tamper evidence of encoded blocks.

   TamperProofs.v works on VALUES: two acceptable blocks that agree on two of the three components (summary,
   evidence, transaction list) are equal.  This file lifts that to the BYTES of an encoded block.  The encoding of a
   well-formed block b has the fixed layout (enc_block_layout)

       enc_block b = [0] ++ V ++ S ++ E ++ T
         [0]  version byte                                                   (position 0)
         V    = vlq_enc (b_height b)     variable-length height prefix       (vl bytes, vl >= 1)
         S    = sum_fixed (summary)      prev|merkle|time|target|nonce       (104 bytes: 32+32+4+32+4)
         E    = enc_evidence (evidence)  summary_hash|chain_sample|block_hash (96 bytes: 32+32+32)
         T    = enc_list enc_tx (txs)    VLQ count and the transactions      (everything from byte hl = 1+vl+200 on)

   What is proved (b accepted above the checkpoint horizon, bs = enc_block b, bs' the altered string):

   A. REGION theorems - any alteration whatsoever confined to one region:
      - tx_region_alteration / tx_region_tamper_rejected: bs' agrees with bs on the first hl bytes (every bit flip,
        replacement, insertion, deletion, truncation at or beyond byte hl).  If bs' decodes, the header is unchanged;
        if it decodes completely, the block is not accepted.  Premise: blake injective.
      - evidence_region_tamper_rejected: E replaced by any other 96 bytes.  bs' decodes to a block with the same
        summary and transactions, which is not accepted.  NO cryptographic premise (the evidence is a function
        of summary, transactions and state).
      - summary_region_tamper_rejected: S replaced by any other 104 bytes.  bs' decodes to a block with the same
        height, evidence and transactions, which is not accepted.  Premise: scrypt injective.
      - height_prefix_tamper_rejected: V replaced by ANY string V' of the VLQ shape (all bytes but the last have the
        continuation bit, the last has not; any length).  bs' either does not decode (non-canonical VLQ) or decodes
        to a block with the same evidence and transactions, which is not accepted.  Premise: scrypt injective.
      - version_byte_altered_undecodable: the version byte replaced by anything else: does not decode.
   B. TRUNCATION: header_truncation_undecodable (n < hl: firstn n bs does not decode), and
      truncation_tamper_rejected (any n < length bs: firstn n bs does not decode completely to an accepted block).
   C. SINGLE BYTE / SINGLE BIT summary theorems: single_byte_tamper_rejected (every position i, every new byte value
      x <> old, provided that inside the height prefix the continuation bit is kept) and bit_flip_tamper_rejected
      (every position i and every bit k < 8, except bit 7 of the vl bytes of the height prefix): the altered string
      does not decode completely to an accepted block.  Premises: scrypt and blake injective.

   The hash functions are universally quantified arguments of each theorem and the injectivity idealisations are
   explicit premises of exactly the theorems that need them.  Nothing is postulated.

   WHAT REMAINS UNCOVERED AT THE BYTE LEVEL (precisely):
   1. A replacement inside the height prefix V that changes a continuation bit (bit 7): setting it on the last byte
      of V makes the VLQ swallow bytes of s_prev; clearing it on an earlier byte ends the VLQ early.  Either way every
      later field boundary moves, so the decoded block (if any) may differ from b in summary, evidence AND
      transaction list at once; no injectivity argument applies (see the header comment of TamperProofs.v).  These
      are exactly vl positions x 1 bit per block (vl = 1..5 for any realistic height), and, for byte replacement,
      the 128 values per prefix byte that change bit 7.
   2. Alterations touching SEVERAL regions at once (e.g. a byte inserted or deleted inside V, S or E, which shifts
      the later regions; or two replacements in different regions).  Insertions/deletions are covered only inside
      T (the tx_region theorems) and, in the sense of "another VLQ-shaped prefix of any length", inside V.
   3. Strings that decode with a NON-EMPTY rest: the rejection theorems speak about complete decodes
      (dec_block bs' = Some (b', [])), which is what the callers of the deserialiser require.  The decode-level facts
      (tx_region_alteration, region_alteration, height_prefix_alteration, single_byte_agree) hold for any rest.
   4. As in TamperProofs.v: nothing is claimed at or below the checkpoint horizon (FV), and the altered block is
      judged against the SAME state s.  In every covered case except the height prefix the altered block has the
      same height, so FV for it is derived; in the height-prefix case FV of the altered block is a premise
      (stated as: b_height b' <> b_height b -> FV P b'). *)
From stdpp Require Import gmap.
From Coq Require Import NArith ZArith Lia.
From Coq Require Import ZifyBool ZifyN ZifyNat.
From SkV Require Import Bytes Vlq Codec Merkle Ledger ChainState Pow Validate ChainDefs HeaderProofs VlqProofs
     CodecProofs TamperProofs.
Open Scope N_scope.

(* ------------------------------------------------------------------------------------------------------------ *)
(* 0. replacing one element of a list                                                                             *)
(* ------------------------------------------------------------------------------------------------------------ *)
Fixpoint set_nth {A} (i : nat) (x : A) (l : list A) {struct l} : list A :=
  match l with
  | [] => []
  | y :: r => match i with O => x :: r | S j => y :: set_nth j x r end
  end.

Lemma set_nth_length {A} i (x : A) l : length (set_nth i x l) = length l.
Proof. revert i; induction l as [|y l IH]; intros [|i]; cbn; auto. Qed.

Lemma set_nth_app_l {A} i (x : A) a c : (i < length a)%nat -> set_nth i x (a ++ c) = set_nth i x a ++ c.
Proof.
  revert i; induction a as [|y a IH]; intros i Hi; cbn in *; [lia|].
  destruct i; cbn; [done|]. f_equal. apply IH. lia.
Qed.

Lemma set_nth_app_r {A} i (x : A) a c :
  (length a <= i)%nat -> set_nth i x (a ++ c) = a ++ set_nth (i - length a) x c.
Proof.
  revert i; induction a as [|y a IH]; intros i Hi; cbn in *.
  - rewrite Nat.sub_0_r. done.
  - destruct i; [lia|]. cbn. f_equal. apply IH. lia.
Qed.

Lemma set_nth_Forall {A} (Q : A -> Prop) i x l : Q x -> Forall Q l -> Forall Q (set_nth i x l).
Proof. intros Hx Hl. revert i. induction Hl; intros [|i]; cbn; constructor; auto. Qed.

Lemma set_nth_wf i x l : x < 256 -> bytes_wf l -> bytes_wf (set_nth i x l).
Proof. intros Hx Hl. apply set_nth_Forall; done. Qed.

Lemma set_nth_ne {A} i (x d : A) l : (i < length l)%nat -> x <> nth i l d -> set_nth i x l <> l.
Proof.
  revert i; induction l as [|y l IH]; intros i Hi Hx; cbn in *; [lia|].
  destruct i; cbn in *.
  - intros [= E]. done.
  - intros [= E]. apply (IH i); [lia|done|done].
Qed.

Lemma firstn_set_nth {A} n i (x : A) l : (n <= i)%nat -> firstn n (set_nth i x l) = firstn n l.
Proof.
  revert n i; induction l as [|y l IH]; intros n i Hn; [done|].
  destruct i; cbn.
  - assert (n = 0%nat) as -> by lia. done.
  - destruct n; cbn; [done|]. f_equal. apply IH. lia.
Qed.

Lemma firstn_app_exact {A} (a c : list A) : firstn (length a) (a ++ c) = a.
Proof. rewrite firstn_app, Nat.sub_diag, firstn_all, firstn_O, app_nil_r. done. Qed.

Lemma skipn_app_exact {A} (a c : list A) : skipn (length a) (a ++ c) = c.
Proof. rewrite skipn_app, Nat.sub_diag, skipn_all. done. Qed.

Lemma split_len {A} n (l : list A) : (n <= length l)%nat -> exists a c, l = a ++ c /\ length a = n.
Proof.
  intros H. exists (firstn n l), (skipn n l). split; [symmetry; apply firstn_skipn|].
  apply firstn_length_le; done.
Qed.

Lemma bytes_wf_firstn n bs : bytes_wf bs -> bytes_wf (firstn n bs).
Proof. intros H. rewrite <- (firstn_skipn n bs) in H. apply bytes_wf_app in H. tauto. Qed.

(* ------------------------------------------------------------------------------------------------------------ *)
(* 1. the layout of an encoded block                                                                              *)
(* ------------------------------------------------------------------------------------------------------------ *)
(* the fixed-width fields of the summary (everything after the variable-length height) *)
Definition sum_fixed (s : summary) : bytes :=
  s_prev s ++ s_merkle s ++ be_enc 4 (s_time s) ++ s_target s ++ be_enc 4 (s_nonce s).

(* hl: the number of bytes the header occupies;  vl: the number of bytes of the height prefix *)
Definition header_len (b : block) : nat := length (enc_header (b_header b)).
Definition height_len (b : block) : nat := length (vlq_enc (b_height b)).

Lemma enc_summary_split s : enc_summary s = vlq_enc (s_height s) ++ sum_fixed s.
Proof. done. Qed.

Lemma sum_fixed_length s : wf_summary s = true -> length (sum_fixed s) = 104%nat.
Proof.
  unfold wf_summary, sum_fixed. rewrite !andb_true_iff, !len_is_iff. intros H.
  rewrite !app_length, !be_enc_length. lia.
Qed.

Lemma sum_fixed_wf s : wf_summary s = true -> bytes_wf (sum_fixed s).
Proof.
  intros H. pose proof (enc_summary_wf s H) as W. rewrite enc_summary_split in W.
  apply bytes_wf_app in W. tauto.
Qed.

Lemma enc_evidence_length e : wf_evidence e = true -> length (enc_evidence e) = 96%nat.
Proof.
  unfold wf_evidence, enc_evidence. rewrite !andb_true_iff, !len_is_iff. intros H.
  rewrite !app_length. lia.
Qed.

Lemma enc_header_layout h :
  enc_header h = [0] ++ vlq_enc (s_height (h_summary h)) ++ sum_fixed (h_summary h) ++ enc_evidence (h_evidence h).
Proof. unfold enc_header. rewrite enc_summary_split, <- app_assoc. done. Qed.

Theorem enc_block_layout b :
  enc_block b = [0] ++ vlq_enc (b_height b) ++ sum_fixed (h_summary (b_header b))
                    ++ enc_evidence (h_evidence (b_header b)) ++ enc_list enc_tx (b_txs b).
Proof. unfold enc_block, b_height. rewrite enc_header_layout, <- !app_assoc. done. Qed.

Theorem header_len_eq b : wf_block b = true -> header_len b = (1 + height_len b + 104 + 96)%nat.
Proof.
  intros Hwf. apply wf_block_parts in Hwf as (Hs & He & _ & _).
  unfold header_len, height_len, b_height. rewrite enc_header_layout, !app_length.
  rewrite (sum_fixed_length _ Hs), (enc_evidence_length _ He). cbn [length]. lia.
Qed.

Lemma needed_pos i : (0 < needed i)%nat.
Proof. unfold needed. lia. Qed.

Lemma height_len_pos b : (0 < height_len b)%nat.
Proof. unfold height_len, vlq_enc. rewrite digits_length. apply needed_pos. Qed.

Lemma enc_block_length b : length (enc_block b) = (header_len b + length (enc_list enc_tx (b_txs b)))%nat.
Proof. unfold enc_block, header_len. apply app_length. Qed.

Lemma enc_block_self_dec b : wf_block b = true -> dec_block (enc_block b) = Some (b, []).
Proof. intros H. rewrite <- (app_nil_r (enc_block b)). apply dec_block_roundtrip, H. Qed.

(* ------------------------------------------------------------------------------------------------------------ *)
(* 2. every 104-byte string is the fixed part of a well-formed summary, every 96-byte string an evidence           *)
(* ------------------------------------------------------------------------------------------------------------ *)
Lemma summary_fixed_surj h S :
  length S = 104%nat -> bytes_wf S -> exists sm, wf_summary sm = true /\ s_height sm = h /\ sum_fixed sm = S.
Proof.
  intros HL Hwf.
  destruct (split_len 32 S) as (p & S1 & -> & Hp); [lia|]. rewrite app_length in HL.
  destruct (split_len 32 S1) as (m & S2 & -> & Hm); [lia|]. rewrite app_length in HL.
  destruct (split_len 4 S2) as (t & S3 & -> & Ht); [lia|]. rewrite app_length in HL.
  destruct (split_len 32 S3) as (tg & nn & -> & Htg); [lia|]. rewrite app_length in HL.
  assert (Hnn : length nn = 4%nat) by lia.
  apply bytes_wf_app in Hwf as [Wp Hwf]. apply bytes_wf_app in Hwf as [Wm Hwf].
  apply bytes_wf_app in Hwf as [Wt Hwf]. apply bytes_wf_app in Hwf as [Wtg Wnn].
  exists (mkSummary h p m (be_dec t) tg (be_dec nn)). split; [|split; [done|]].
  - unfold wf_summary; cbn [s_prev s_merkle s_time s_target s_nonce].
    rewrite !andb_true_iff, !len_is_iff.
    pose proof (be_dec_bound t Wt) as Bt. rewrite Ht, pow256_4 in Bt.
    pose proof (be_dec_bound nn Wnn) as Bn. rewrite Hnn, pow256_4 in Bn.
    repeat split; try done; apply N.ltb_lt; done.
  - unfold sum_fixed; cbn [s_prev s_merkle s_time s_target s_nonce].
    rewrite (be_enc_dec_w 4 t), (be_enc_dec_w 4 nn); done.
Qed.

Lemma evidence_surj E : length E = 96%nat -> bytes_wf E -> exists ev, wf_evidence ev = true /\ enc_evidence ev = E.
Proof.
  intros HL Hwf.
  destruct (split_len 32 E) as (a & E1 & -> & Ha); [lia|]. rewrite app_length in HL.
  destruct (split_len 32 E1) as (c & d & -> & Hc); [lia|]. rewrite app_length in HL.
  assert (Hd : length d = 32%nat) by lia.
  apply bytes_wf_app in Hwf as [Wa Hwf]. apply bytes_wf_app in Hwf as [Wc Wd].
  exists (mkEvidence a c d). split; [|done].
  unfold wf_evidence; cbn [ev_summary_hash ev_chain_sample ev_block_hash].
  rewrite !andb_true_iff, !len_is_iff. done.
Qed.

Lemma header_of_parts h S E :
  length S = 104%nat -> length E = 96%nat -> bytes_wf S -> bytes_wf E ->
  exists hd, wf_header hd = true /\ s_height (h_summary hd) = h /\ sum_fixed (h_summary hd) = S /\
             enc_evidence (h_evidence hd) = E /\ enc_header hd = [0] ++ vlq_enc h ++ S ++ E.
Proof.
  intros HS HE WS WE.
  destruct (summary_fixed_surj h S HS WS) as (sm & Wsm & Hh & Hsm).
  destruct (evidence_surj E HE WE) as (ev & Wev & Hev).
  exists (mkHeader sm ev). rewrite enc_header_layout. cbn [h_summary h_evidence].
  unfold wf_header; cbn [h_summary h_evidence]. rewrite Wsm, Wev, Hh, Hsm, Hev. done.
Qed.

(* ------------------------------------------------------------------------------------------------------------ *)
(* 3. decoding a string of the block layout: the decoder cuts it at the same places                               *)
(* ------------------------------------------------------------------------------------------------------------ *)
Lemma enc_txs_prefix_unique l l' r' :
  forallb wf_tx l = true -> forallb wf_tx l' = true ->
  enc_list enc_tx l' ++ r' = enc_list enc_tx l -> l' = l /\ r' = [].
Proof.
  intros Hl Hl' Heq.
  pose proof (dec_list_roundtrip wf_tx enc_tx dec_tx dec_tx_roundtrip enc_tx_nonempty l' r' Hl') as D'.
  pose proof (dec_list_roundtrip wf_tx enc_tx dec_tx dec_tx_roundtrip enc_tx_nonempty l [] Hl) as D.
  rewrite app_nil_r in D. rewrite Heq, D in D'. injection D' as -> ->. done.
Qed.

Theorem dec_block_parts h S E T b' r' :
  length S = 104%nat -> length E = 96%nat -> bytes_wf S -> bytes_wf E -> bytes_wf T ->
  dec_block ([0] ++ vlq_enc h ++ S ++ E ++ T) = Some (b', r') ->
  wf_block b' = true /\ b_height b' = h /\ sum_fixed (h_summary (b_header b')) = S /\
  enc_evidence (h_evidence (b_header b')) = E /\ enc_list enc_tx (b_txs b') ++ r' = T.
Proof.
  intros HS HE WS WE WT.
  destruct (header_of_parts h S E HS HE WS WE) as (hd & Whd & Hh & Hsm & Hev & Henc).
  replace ([0] ++ vlq_enc h ++ S ++ E ++ T) with (enc_header hd ++ T)
    by (rewrite Henc, <- !app_assoc; done).
  unfold dec_block. rewrite (dec_header_roundtrip hd T Whd).
  destruct (dec_list dec_tx T) as [[ts r1]|] eqn:EL; [|discriminate].
  intros [= <- <-].
  destruct (dec_list_inv wf_tx enc_tx dec_tx dec_tx_canonical dec_tx_wf T ts r1 WT EL) as (HT & Wts & _).
  unfold wf_block, b_height; cbn [b_header b_txs]. rewrite Whd, Wts. done.
Qed.

(* relative to a given block b: which components of the decoded block coincide with those of b *)
Theorem region_alteration b S' E' T' b' r' :
  wf_block b = true -> length S' = 104%nat -> length E' = 96%nat -> bytes_wf S' -> bytes_wf E' -> bytes_wf T' ->
  dec_block ([0] ++ vlq_enc (b_height b) ++ S' ++ E' ++ T') = Some (b', r') ->
  wf_block b' = true /\ b_height b' = b_height b /\
  (S' = sum_fixed (h_summary (b_header b)) -> h_summary (b_header b') = h_summary (b_header b)) /\
  (E' = enc_evidence (h_evidence (b_header b)) -> h_evidence (b_header b') = h_evidence (b_header b)) /\
  (T' = enc_list enc_tx (b_txs b) -> b_txs b' = b_txs b /\ r' = []).
Proof.
  intros Hwf HS HE WS WE WT Hd.
  destruct (dec_block_parts _ _ _ _ _ _ HS HE WS WE WT Hd) as (Hwf' & Hh & Hsm & Hev & Htx).
  pose proof (wf_block_parts b Hwf) as (Ws & Wev & _ & Wtx).
  pose proof (wf_block_parts b' Hwf') as (Ws' & Wev' & _ & Wtx').
  split; [done|]. split; [done|]. split; [|split].
  - intros ->. apply enc_summary_inj; try done.
    rewrite !enc_summary_split. unfold b_height in Hh. rewrite Hh, Hsm. done.
  - intros ->. apply enc_evidence_inj; done.
  - intros ->. apply enc_txs_prefix_unique; done.
Qed.

(* ------------------------------------------------------------------------------------------------------------ *)
(* 4. alterations confined to the transaction region                                                              *)
(* ------------------------------------------------------------------------------------------------------------ *)
Lemma firstn_header_len b : firstn (header_len b) (enc_block b) = enc_header (b_header b).
Proof. unfold header_len, enc_block. apply firstn_app_exact. Qed.

(* the header decoder consumes exactly the first hl bytes; no premise on the bytes after them *)
Theorem tx_region_alteration b bs' b' r' :
  wf_block b = true -> firstn (header_len b) bs' = firstn (header_len b) (enc_block b) ->
  dec_block bs' = Some (b', r') -> b_header b' = b_header b.
Proof.
  intros Hwf Hpre Hd. apply wf_block_parts in Hwf as (_ & _ & Whd & _).
  rewrite firstn_header_len in Hpre.
  rewrite <- (firstn_skipn (header_len b) bs'), Hpre in Hd.
  unfold dec_block in Hd. rewrite (dec_header_roundtrip _ _ Whd) in Hd.
  destruct (dec_list dec_tx _) as [[ts r1]|]; [|discriminate].
  injection Hd as <- _. done.
Qed.

Lemma same_header_agree b b' : b_header b' = b_header b -> agree_on_two b b'.
Proof. intros H. right; left. rewrite H. done. Qed.

Lemma FV_same_height P b b' : b_height b' = b_height b -> FV P b -> FV P b'.
Proof. unfold FV. intros ->. done. Qed.

(* the common last step: a completely decoded string other than enc_block b whose block would have to equal b *)
Lemma reject_if_forced_equal (sha scrypt blake : bytes -> bytes) (verify : bytes -> bytes -> bytes -> N)
    (P : cparams) (s : cstate) (b b' : block) (bs' : bytes) (now' : N) :
  bytes_wf bs' -> dec_block bs' = Some (b', []) -> bs' <> enc_block b ->
  (forall s2, add_block sha scrypt blake verify P s b' now' = Ok s2 -> b = b') ->
  forall s2, add_block sha scrypt blake verify P s b' now' <> Ok s2.
Proof.
  intros Wbs' Hd Hne Hforce s2 Hacc. apply Hforce in Hacc. subst b'.
  apply Hne. rewrite <- (dec_block_canonical _ _ _ Wbs' Hd), app_nil_r. done.
Qed.

Theorem tx_region_tamper_rejected
    (sha scrypt blake : bytes -> bytes) (verify : bytes -> bytes -> bytes -> N) (P : cparams)
    (blake_inj : forall a b : bytes, blake a = blake b -> a = b)
    (s : cstate) (b b' : block) (bs' : bytes) (now now' : N) (s1 : cstate) :
  wf_block b = true -> add_block sha scrypt blake verify P s b now = Ok s1 -> FV P b ->
  firstn (header_len b) bs' = firstn (header_len b) (enc_block b) -> bytes_wf bs' -> bs' <> enc_block b ->
  dec_block bs' = Some (b', []) ->
  forall s2, add_block sha scrypt blake verify P s b' now' <> Ok s2.
Proof.
  intros Hwf Hacc Hfv Hpre Wbs' Hne Hd.
  pose proof (tx_region_alteration _ _ _ _ Hwf Hpre Hd) as Hh.
  apply (reject_if_forced_equal sha scrypt blake verify P s b b' bs' now' Wbs' Hd Hne).
  intros s2 Hacc'.
  apply (same_summary_and_evidence_same_txs sha scrypt blake verify P blake_inj s b b' now now' s1 s2);
    try done.
  - apply (FV_same_height P b b'); [unfold b_height; rewrite Hh|]; done.
  - apply (dec_block_wf _ _ _ Wbs' Hd).
Qed.

(* ------------------------------------------------------------------------------------------------------------ *)
(* 5. truncation                                                                                                  *)
(* ------------------------------------------------------------------------------------------------------------ *)
(* decoding is a function of a prefix: appending bytes to a string that decodes only extends the rest *)
Lemma dec_header_extend bs1 t h' r' :
  bytes_wf bs1 -> dec_header bs1 = Some (h', r') -> dec_header (bs1 ++ t) = Some (h', r' ++ t).
Proof.
  intros W H. pose proof (dec_header_wf _ _ _ W H) as [Wh _].
  rewrite <- (dec_header_canonical _ _ _ W H), <- app_assoc. apply dec_header_roundtrip, Wh.
Qed.

Theorem header_truncation_undecodable b n :
  wf_block b = true -> (n < header_len b)%nat -> dec_block (firstn n (enc_block b)) = None.
Proof.
  intros Hwf Hn. pose proof (enc_block_wf b Hwf) as Wbs.
  pose proof (wf_block_parts b Hwf) as (_ & _ & Whd & _).
  unfold dec_block. destruct (dec_header (firstn n (enc_block b))) as [[h' r']|] eqn:Hd; [exfalso|done].
  pose proof (bytes_wf_firstn n _ Wbs) as Wpre.
  pose proof (dec_header_extend _ (skipn n (enc_block b)) _ _ Wpre Hd) as Hext.
  rewrite firstn_skipn in Hext. unfold enc_block in Hext at 1.
  rewrite (dec_header_roundtrip _ _ Whd) in Hext. injection Hext as <- _.
  pose proof (dec_header_canonical _ _ _ Wpre Hd) as Hc.
  apply (f_equal length) in Hc. rewrite app_length, firstn_length in Hc.
  unfold header_len in Hn. lia.
Qed.

Theorem truncation_tamper_rejected
    (sha scrypt blake : bytes -> bytes) (verify : bytes -> bytes -> bytes -> N) (P : cparams)
    (blake_inj : forall a b : bytes, blake a = blake b -> a = b)
    (s : cstate) (b b' : block) (n : nat) (now now' : N) (s1 : cstate) :
  wf_block b = true -> add_block sha scrypt blake verify P s b now = Ok s1 -> FV P b ->
  (n < length (enc_block b))%nat -> dec_block (firstn n (enc_block b)) = Some (b', []) ->
  forall s2, add_block sha scrypt blake verify P s b' now' <> Ok s2.
Proof.
  intros Hwf Hacc Hfv Hn Hd.
  destruct (Nat.lt_ge_cases n (header_len b)) as [Hlt|Hge].
  - rewrite (header_truncation_undecodable b n Hwf Hlt) in Hd. discriminate.
  - apply (tx_region_tamper_rejected sha scrypt blake verify P blake_inj s b b' (firstn n (enc_block b))
             now now' s1); try done.
    + rewrite firstn_firstn. f_equal. lia.
    + apply bytes_wf_firstn, enc_block_wf, Hwf.
    + intros E. apply (f_equal length) in E. rewrite firstn_length in E. lia.
Qed.

(* ------------------------------------------------------------------------------------------------------------ *)
(* 6. the version byte                                                                                            *)
(* ------------------------------------------------------------------------------------------------------------ *)
Theorem version_byte_altered_undecodable x r : x <> 0 -> dec_block (x :: r) = None.
Proof. intros Hx. destruct x as [|p]; [done|]. reflexivity. Qed.

(* ------------------------------------------------------------------------------------------------------------ *)
(* 7. the evidence region and the summary's fixed fields                                                          *)
(* ------------------------------------------------------------------------------------------------------------ *)
(* the altered string: region contents replaced, everything else as in enc_block b *)
Definition with_regions (V S E T : bytes) : bytes := [0] ++ V ++ S ++ E ++ T.

Lemma with_regions_self b :
  enc_block b = with_regions (vlq_enc (b_height b)) (sum_fixed (h_summary (b_header b)))
                             (enc_evidence (h_evidence (b_header b))) (enc_list enc_tx (b_txs b)).
Proof. apply enc_block_layout. Qed.

Lemma block_region_facts b : wf_block b = true ->
  length (sum_fixed (h_summary (b_header b))) = 104%nat /\ bytes_wf (sum_fixed (h_summary (b_header b))) /\
  length (enc_evidence (h_evidence (b_header b))) = 96%nat /\ bytes_wf (enc_evidence (h_evidence (b_header b))) /\
  bytes_wf (enc_list enc_tx (b_txs b)).
Proof.
  intros Hwf. apply wf_block_parts in Hwf as (Ws & Wev & _ & Wtx).
  split; [apply sum_fixed_length, Ws|]. split; [apply sum_fixed_wf, Ws|].
  split; [apply enc_evidence_length, Wev|]. split; [apply enc_evidence_wf, Wev|].
  apply (enc_list_wf wf_tx enc_tx enc_tx_wf), Wtx.
Qed.

(* E replaced by any 96 bytes: the string decodes, to a block with the same summary and transactions *)
Theorem evidence_region_alteration b E' :
  wf_block b = true -> length E' = 96%nat -> bytes_wf E' ->
  exists b', dec_block (with_regions (vlq_enc (b_height b)) (sum_fixed (h_summary (b_header b))) E'
                                      (enc_list enc_tx (b_txs b))) = Some (b', []) /\
             wf_block b' = true /\ h_summary (b_header b') = h_summary (b_header b) /\ b_txs b' = b_txs b /\
             enc_evidence (h_evidence (b_header b')) = E'.
Proof.
  intros Hwf HE WE. destruct (block_region_facts b Hwf) as (HS & WS & _ & _ & WT).
  pose proof (wf_block_parts b Hwf) as (Ws & _ & _ & Wtx).
  destruct (evidence_surj E' HE WE) as (ev & Wev & Hev).
  exists (mkBlock (mkHeader (h_summary (b_header b)) ev) (b_txs b)).
  cbn [b_header b_txs h_summary h_evidence]. split; [|split; [|done]].
  - rewrite <- (app_nil_r (with_regions _ _ _ _)), <- Hev.
    rewrite <- (dec_block_roundtrip (mkBlock (mkHeader (h_summary (b_header b)) ev) (b_txs b)) []).
    + f_equal. rewrite enc_block_layout. done.
    + unfold wf_block, wf_header; cbn [b_header b_txs h_summary h_evidence]. rewrite Ws, Wev, Wtx. done.
  - unfold wf_block, wf_header; cbn [b_header b_txs h_summary h_evidence]. rewrite Ws, Wev, Wtx. done.
Qed.

(* S replaced by any 104 bytes: the string decodes, to a block with the same height, evidence and transactions *)
Theorem summary_region_alteration b S' :
  wf_block b = true -> length S' = 104%nat -> bytes_wf S' ->
  exists b', dec_block (with_regions (vlq_enc (b_height b)) S' (enc_evidence (h_evidence (b_header b)))
                                      (enc_list enc_tx (b_txs b))) = Some (b', []) /\
             wf_block b' = true /\ b_height b' = b_height b /\
             h_evidence (b_header b') = h_evidence (b_header b) /\ b_txs b' = b_txs b /\
             sum_fixed (h_summary (b_header b')) = S'.
Proof.
  intros Hwf HS WS.
  pose proof (wf_block_parts b Hwf) as (_ & Wev & _ & Wtx).
  destruct (summary_fixed_surj (b_height b) S' HS WS) as (sm & Wsm & Hh & Hsm).
  exists (mkBlock (mkHeader sm (h_evidence (b_header b))) (b_txs b)).
  unfold b_height at 2. cbn [b_header b_txs h_summary h_evidence]. split; [|split; [|done]].
  - rewrite <- (app_nil_r (with_regions _ _ _ _)), <- Hsm.
    rewrite <- (dec_block_roundtrip (mkBlock (mkHeader sm (h_evidence (b_header b))) (b_txs b)) []).
    + f_equal. rewrite enc_block_layout. unfold b_height at 2. cbn [b_header b_txs h_summary h_evidence].
      rewrite Hh. done.
    + unfold wf_block, wf_header; cbn [b_header b_txs h_summary h_evidence]. rewrite Wsm, Wev, Wtx. done.
  - unfold wf_block, wf_header; cbn [b_header b_txs h_summary h_evidence]. rewrite Wsm, Wev, Wtx. done.
Qed.

Theorem evidence_region_tamper_rejected
    (sha scrypt blake : bytes -> bytes) (verify : bytes -> bytes -> bytes -> N) (P : cparams)
    (s : cstate) (b b' : block) (E' r' : bytes) (now now' : N) (s1 : cstate) :
  wf_block b = true -> add_block sha scrypt blake verify P s b now = Ok s1 -> FV P b ->
  length E' = 96%nat -> bytes_wf E' -> E' <> enc_evidence (h_evidence (b_header b)) ->
  dec_block (with_regions (vlq_enc (b_height b)) (sum_fixed (h_summary (b_header b))) E'
                          (enc_list enc_tx (b_txs b))) = Some (b', r') ->
  r' = [] /\ forall s2, add_block sha scrypt blake verify P s b' now' <> Ok s2.
Proof.
  intros Hwf Hacc Hfv HE WE Hne Hd.
  destruct (evidence_region_alteration b E' Hwf HE WE) as (b'' & Hd'' & Wb'' & Hsm & Htx & Hev).
  rewrite Hd'' in Hd. injection Hd as <- <-. split; [done|].
  intros s2 Hacc'.
  assert (b = b'') as <-.
  { apply (evidence_is_function sha scrypt blake verify P s b b'' now now' s1 s2); try done.
    apply (FV_same_height P b b''); [unfold b_height; rewrite Hsm|]; done. }
  done.
Qed.

Theorem summary_region_tamper_rejected
    (sha scrypt blake : bytes -> bytes) (verify : bytes -> bytes -> bytes -> N) (P : cparams)
    (scrypt_inj : forall a b : bytes, scrypt a = scrypt b -> a = b)
    (s : cstate) (b b' : block) (S' r' : bytes) (now now' : N) (s1 : cstate) :
  wf_block b = true -> add_block sha scrypt blake verify P s b now = Ok s1 -> FV P b ->
  length S' = 104%nat -> bytes_wf S' -> S' <> sum_fixed (h_summary (b_header b)) ->
  dec_block (with_regions (vlq_enc (b_height b)) S' (enc_evidence (h_evidence (b_header b)))
                          (enc_list enc_tx (b_txs b))) = Some (b', r') ->
  r' = [] /\ forall s2, add_block sha scrypt blake verify P s b' now' <> Ok s2.
Proof.
  intros Hwf Hacc Hfv HS WS Hne Hd.
  destruct (summary_region_alteration b S' Hwf HS WS) as (b'' & Hd'' & Wb'' & Hh & Hev & Htx & Hsm).
  rewrite Hd'' in Hd. injection Hd as <- <-. split; [done|].
  intros s2 Hacc'.
  assert (b = b'') as <-.
  { apply (same_evidence_and_txs_same_summary sha scrypt blake verify P scrypt_inj s b b'' now now' s1 s2);
      try done.
    apply (FV_same_height P b b''); done. }
  done.
Qed.

(* ------------------------------------------------------------------------------------------------------------ *)
(* 8. the height prefix: replacements that keep the VLQ shape                                                     *)
(* ------------------------------------------------------------------------------------------------------------ *)
(* all bytes but the last carry the continuation bit, the last does not *)
Definition vlq_shaped (V : bytes) : Prop :=
  exists body last, V = body ++ [last] /\ Forall (fun c => 128 <= c) body /\ last < 128.

Lemma digits_false_ge f : forall i, Forall (fun c => 128 <= c) (digits f i false).
Proof.
  induction f as [|f IH]; intros i; cbn [digits]; [constructor|].
  apply Forall_app. split; [apply IH|]. constructor; [lia|constructor].
Qed.

Lemma vlq_enc_shaped h : vlq_shaped (vlq_enc h).
Proof.
  unfold vlq_enc. pose proof (needed_pos h) as Hp. destruct (needed h) as [|f]; [lia|].
  cbn [digits]. exists (digits f (h / 128) false), (h mod 128 + 0).
  split; [done|]. split; [apply digits_false_ge|lia].
Qed.

Lemma vlq_aux_shaped body : forall acc last R,
  Forall (fun c => 128 <= c) body -> last < 128 ->
  exists v, vlq_dec_aux acc (body ++ [last] ++ R) = Some (v, R).
Proof.
  induction body as [|c body IH]; intros acc last R Hb Hl.
  - cbn [app vlq_dec_aux]. assert ((last <? 128) = true) as -> by lia. eauto.
  - inversion Hb as [|? ? Hc Hb']; subst. cbn [app vlq_dec_aux].
    assert ((c <? 128) = false) as -> by lia. apply IH; done.
Qed.

(* a VLQ-shaped prefix is consumed exactly; if it is accepted at all it is the canonical encoding of its value *)
Lemma vlq_dec_shaped V R v R2 :
  vlq_shaped V -> bytes_wf (V ++ R) -> vlq_dec (V ++ R) = Some (v, R2) -> R2 = R /\ V = vlq_enc v.
Proof.
  intros (body & last & -> & Hb & Hl) W Hd.
  assert (R2 = R) as ->.
  { unfold vlq_dec, vlq_dec_lenient in Hd. rewrite <- app_assoc in Hd.
    destruct (vlq_aux_shaped body 0 last R Hb Hl) as (v0 & Hv0). rewrite Hv0 in Hd.
    destruct (Nat.eqb _ _); [|discriminate]. injection Hd as _ <-. done. }
  split; [done|]. pose proof (vlq_canonical _ _ _ W Hd) as Hc. apply app_inv_tail in Hc. done.
Qed.

Lemma set_nth_shaped V j x :
  vlq_shaped V -> (j < length V)%nat -> (x <? 128) = (nth j V 0 <? 128) -> vlq_shaped (set_nth j x V).
Proof.
  intros (body & last & -> & Hb & Hl) Hj Hx. rewrite app_length in Hj. cbn [length] in Hj.
  destruct (Nat.lt_ge_cases j (length body)) as [Hlt|Hge].
  - rewrite app_nth1 in Hx by done. rewrite set_nth_app_l by done.
    exists (set_nth j x body), last. split; [done|]. split; [|done].
    apply set_nth_Forall; [|done].
    assert (Hin : In (nth j body 0) body) by (apply nth_In; done).
    rewrite Forall_forall in Hb. specialize (Hb _ ltac:(apply elem_of_list_In; exact Hin)). lia.
  - assert (j = length body) as -> by lia.
    rewrite app_nth2 in Hx by lia. rewrite Nat.sub_diag in Hx. cbn [nth] in Hx.
    rewrite set_nth_app_r by lia. rewrite Nat.sub_diag. cbn [set_nth].
    exists body, x. split; [done|]. split; [done|lia].
Qed.

(* V replaced by any VLQ-shaped string: if the result decodes at all, only the height changed *)
Theorem height_prefix_alteration b V' b' r' :
  wf_block b = true -> vlq_shaped V' -> bytes_wf V' ->
  dec_block (with_regions V' (sum_fixed (h_summary (b_header b))) (enc_evidence (h_evidence (b_header b)))
                          (enc_list enc_tx (b_txs b))) = Some (b', r') ->
  wf_block b' = true /\ V' = vlq_enc (b_height b') /\
  sum_fixed (h_summary (b_header b')) = sum_fixed (h_summary (b_header b)) /\
  h_evidence (b_header b') = h_evidence (b_header b) /\ b_txs b' = b_txs b /\ r' = [].
Proof.
  intros Hwf Hsh WV Hd. destruct (block_region_facts b Hwf) as (HS & WS & HE & WE & WT).
  pose proof (wf_block_parts b Hwf) as (Ws & Wev & _ & Wtx).
  set (S := sum_fixed (h_summary (b_header b))) in *.
  set (E := enc_evidence (h_evidence (b_header b))) in *.
  set (T := enc_list enc_tx (b_txs b)) in *.
  assert (WR : bytes_wf (V' ++ S ++ E ++ T)) by (rewrite !bytes_wf_app; done).
  (* the VLQ decoder, if it succeeds, consumes exactly V' and V' is canonical *)
  assert (Hcan : exists v, V' = vlq_enc v) .
  { unfold with_regions, dec_block in Hd. cbn [app] in Hd. cbv beta iota delta [dec_header] in Hd.
    unfold dec_summary in Hd.
    destruct (vlq_dec (V' ++ S ++ E ++ T)) as [[v R2]|] eqn:Hv; [|discriminate].
    destruct (vlq_dec_shaped _ _ _ _ Hsh WR Hv) as [_ ->]. eauto. }
  destruct Hcan as (v & ->).
  destruct (dec_block_parts _ _ _ _ _ _ HS HE WS WE WT Hd) as (Hwf' & Hh & Hsm & Hev & Htx).
  pose proof (wf_block_parts b' Hwf') as (Ws' & Wev' & _ & Wtx').
  split; [done|]. split; [rewrite Hh; done|]. split; [done|].
  split; [apply enc_evidence_inj; done|]. apply enc_txs_prefix_unique; done.
Qed.

Theorem height_prefix_tamper_rejected
    (sha scrypt blake : bytes -> bytes) (verify : bytes -> bytes -> bytes -> N) (P : cparams)
    (scrypt_inj : forall a b : bytes, scrypt a = scrypt b -> a = b)
    (s : cstate) (b b' : block) (V' r' : bytes) (now now' : N) (s1 : cstate) :
  wf_block b = true -> add_block sha scrypt blake verify P s b now = Ok s1 -> FV P b ->
  vlq_shaped V' -> bytes_wf V' -> V' <> vlq_enc (b_height b) ->
  dec_block (with_regions V' (sum_fixed (h_summary (b_header b))) (enc_evidence (h_evidence (b_header b)))
                          (enc_list enc_tx (b_txs b))) = Some (b', r') ->
  FV P b' ->
  r' = [] /\ forall s2, add_block sha scrypt blake verify P s b' now' <> Ok s2.
Proof.
  intros Hwf Hacc Hfv Hsh WV Hne Hd Hfv'.
  destruct (height_prefix_alteration b V' b' r' Hwf Hsh WV Hd) as (Wb' & HV & _ & Hev & Htx & ->).
  split; [done|]. intros s2 Hacc'.
  assert (b = b') as <-.
  { apply (same_evidence_and_txs_same_summary sha scrypt blake verify P scrypt_inj s b b' now now' s1 s2);
      done. }
  done.
Qed.

(* ------------------------------------------------------------------------------------------------------------ *)
(* 9. one byte replaced anywhere                                                                                  *)
(* ------------------------------------------------------------------------------------------------------------ *)
(* position i lies in the height prefix *)
Definition in_height_prefix (b : block) (i : nat) : Prop := (1 <= i <= height_len b)%nat.

(* the decode-level fact: whatever the altered string decodes to agrees with b on two components (any rest) *)
Theorem single_byte_agree b i x b' r' :
  wf_block b = true -> (i < length (enc_block b))%nat -> x < 256 -> x <> nth i (enc_block b) 0 ->
  (in_height_prefix b i -> (x <? 128) = (nth i (enc_block b) 0 <? 128)) ->
  dec_block (set_nth i x (enc_block b)) = Some (b', r') ->
  agree_on_two b b' /\ (~ in_height_prefix b i -> b_height b' = b_height b).
Proof.
  intros Hwf Hi Hx Hne Hcont Hd.
  destruct (block_region_facts b Hwf) as (HS & WS & HE & WE & WT).
  pose proof (header_len_eq b Hwf) as Hhl. pose proof (enc_block_length b) as Hlen.
  unfold in_height_prefix, height_len in *.
  destruct (Nat.lt_ge_cases i (header_len b)) as [Hhdr|Htx].
  2:{ (* transaction region *)
    assert (Hh : b_header b' = b_header b).
    { apply (tx_region_alteration b (set_nth i x (enc_block b)) b' r' Hwf); [|done]. apply firstn_set_nth. done. }
    split; [apply same_header_agree, Hh|]. intros _. unfold b_height. rewrite Hh. done. }
  rewrite enc_block_layout in Hd, Hne, Hcont.
  set (V := vlq_enc (b_height b)) in *.
  set (S := sum_fixed (h_summary (b_header b))) in *.
  set (E := enc_evidence (h_evidence (b_header b))) in *.
  set (T := enc_list enc_tx (b_txs b)) in *.
  destruct i as [|i].
  { (* version byte *)
    cbn [app set_nth nth] in Hd, Hne. rewrite version_byte_altered_undecodable in Hd by done. discriminate. }
  rewrite (set_nth_app_r (Datatypes.S i) x [0]) in Hd by (cbn [length]; lia).
  rewrite (app_nth2 [0]) in Hne, Hcont by (cbn [length]; lia).
  cbn [length] in Hd, Hne, Hcont. replace (Datatypes.S i - 1)%nat with i in * by lia.
  destruct (Nat.lt_ge_cases i (length V)) as [HiV|HiV].
  { (* height prefix, continuation bit kept *)
    rewrite set_nth_app_l in Hd by done. rewrite app_nth1 in Hne, Hcont by done.
    assert (Hsh : vlq_shaped (set_nth i x V)).
    { apply set_nth_shaped; [apply vlq_enc_shaped|done|apply Hcont; lia]. }
    assert (WV : bytes_wf (set_nth i x V)) by (apply set_nth_wf; [done|apply vlq_enc_wf]).
    destruct (height_prefix_alteration b _ b' r' Hwf Hsh WV Hd) as (_ & _ & _ & Hev & Htx & _).
    split; [right; right; done|]. intros Hn. lia. }
  rewrite set_nth_app_r in Hd by done. rewrite app_nth2 in Hne by lia.
  destruct (Nat.lt_ge_cases (i - length V) (length S)) as [HiS|HiS].
  { (* fixed fields of the summary *)
    rewrite set_nth_app_l in Hd by done.
    destruct (region_alteration b (set_nth (i - length V) x S) E T b' r' Hwf) as (_ & Hh & _ & Hev & Htx);
      try done.
    - rewrite set_nth_length; done.
    - apply set_nth_wf; done.
    - destruct (Htx eq_refl) as [Htx' _]. split; [right; right; rewrite Hev, Htx'; done|]. done. }
  rewrite set_nth_app_r in Hd by done.
  (* evidence *)
  assert (HiE : (i - length V - length S < length E)%nat) by lia.
  rewrite set_nth_app_l in Hd by done.
  destruct (region_alteration b S (set_nth (i - length V - length S) x E) T b' r' Hwf) as (_ & Hh & Hsm & _ & Htx);
    try done.
  - rewrite set_nth_length; done.
  - apply set_nth_wf; done.
  - destruct (Htx eq_refl) as [Htx' _]. split; [left; rewrite Hsm, Htx'; done|]. done.
Qed.

Theorem single_byte_tamper_rejected
    (sha scrypt blake : bytes -> bytes) (verify : bytes -> bytes -> bytes -> N) (P : cparams)
    (scrypt_inj : forall a b : bytes, scrypt a = scrypt b -> a = b)
    (blake_inj : forall a b : bytes, blake a = blake b -> a = b)
    (s : cstate) (b b' : block) (i : nat) (x : N) (now now' : N) (s1 : cstate) :
  wf_block b = true -> add_block sha scrypt blake verify P s b now = Ok s1 -> FV P b ->
  (i < length (enc_block b))%nat -> x < 256 -> x <> nth i (enc_block b) 0 ->
  (in_height_prefix b i -> (x <? 128) = (nth i (enc_block b) 0 <? 128)) ->
  dec_block (set_nth i x (enc_block b)) = Some (b', []) ->
  (b_height b' <> b_height b -> FV P b') ->
  forall s2, add_block sha scrypt blake verify P s b' now' <> Ok s2.
Proof.
  intros Hwf Hacc Hfv Hi Hx Hne Hcont Hd Hfv'.
  destruct (single_byte_agree b i x b' [] Hwf Hi Hx Hne Hcont Hd) as [Hag _].
  assert (Wbs' : bytes_wf (set_nth i x (enc_block b))) by (apply set_nth_wf; [done|apply enc_block_wf, Hwf]).
  assert (Hfvb' : FV P b').
  { destruct (N.eq_dec (b_height b') (b_height b)) as [He|He]; [|apply Hfv', He].
    apply (FV_same_height P b b'); done. }
  apply (tampered_bytes_rejected sha scrypt blake verify P scrypt_inj blake_inj s (enc_block b)
           (set_nth i x (enc_block b)) b b' now now' s1); try done.
  - apply enc_block_wf, Hwf.
  - apply enc_block_self_dec, Hwf.
  - intros E. symmetry in E. revert E. apply (set_nth_ne i x 0); done.
Qed.

(* ------------------------------------------------------------------------------------------------------------ *)
(* 10. one bit flipped anywhere                                                                                   *)
(* ------------------------------------------------------------------------------------------------------------ *)
Definition flip_bit (k : N) (v : N) : N := N.lxor v (2 ^ k).

Definition flip_ok (v k : N) : bool :=
  (flip_bit k v <? 256) && negb (flip_bit k v =? v) &&
  (if k <? 7 then Bool.eqb (flip_bit k v <? 128) (v <? 128) else true).

Lemma flip_table : forallb (fun v => forallb (flip_ok v) (map N.of_nat (seq 0 8))) (map N.of_nat (seq 0 256)) = true.
Proof. vm_compute. reflexivity. Qed.

Lemma in_small_range n v : v < N.of_nat n -> In v (map N.of_nat (seq 0 n)).
Proof.
  intros H. rewrite <- (N2Nat.id v). apply in_map, in_seq. lia.
Qed.

Lemma flip_bit_facts v k : v < 256 -> k < 8 ->
  flip_bit k v < 256 /\ flip_bit k v <> v /\ (k < 7 -> (flip_bit k v <? 128) = (v <? 128)).
Proof.
  intros Hv Hk. pose proof flip_table as Ht. rewrite forallb_forall in Ht.
  specialize (Ht v (in_small_range 256 v Hv)). rewrite forallb_forall in Ht.
  specialize (Ht k (in_small_range 8 k Hk)). unfold flip_ok in Ht.
  apply andb_true_iff in Ht as [Ht H3]. apply andb_true_iff in Ht as [H1 H2].
  split; [lia|]. split; [lia|]. intros Hk7. assert ((k <? 7) = true) as E by lia. rewrite E in H3.
  apply Bool.eqb_prop in H3. done.
Qed.

Lemma nth_wf_lt i bs : bytes_wf bs -> nth i bs 0 < 256.
Proof.
  intros W. destruct (Nat.lt_ge_cases i (length bs)) as [Hlt|Hge].
  - unfold bytes_wf in W. rewrite Forall_forall in W. apply W, elem_of_list_In, nth_In, Hlt.
  - rewrite nth_overflow by lia. lia.
Qed.

(* every bit of every byte, except the continuation bit (bit 7) of the bytes of the height prefix *)
Theorem bit_flip_tamper_rejected
    (sha scrypt blake : bytes -> bytes) (verify : bytes -> bytes -> bytes -> N) (P : cparams)
    (scrypt_inj : forall a b : bytes, scrypt a = scrypt b -> a = b)
    (blake_inj : forall a b : bytes, blake a = blake b -> a = b)
    (s : cstate) (b b' : block) (i : nat) (k : N) (now now' : N) (s1 : cstate) :
  wf_block b = true -> add_block sha scrypt blake verify P s b now = Ok s1 -> FV P b ->
  (i < length (enc_block b))%nat -> k < 8 -> ~ (in_height_prefix b i /\ k = 7) ->
  dec_block (set_nth i (flip_bit k (nth i (enc_block b) 0)) (enc_block b)) = Some (b', []) ->
  (b_height b' <> b_height b -> FV P b') ->
  forall s2, add_block sha scrypt blake verify P s b' now' <> Ok s2.
Proof.
  intros Hwf Hacc Hfv Hi Hk Hexc Hd Hfv'.
  pose proof (nth_wf_lt i _ (enc_block_wf b Hwf)) as Hold.
  destruct (flip_bit_facts _ k Hold Hk) as (H1 & H2 & H3).
  apply (single_byte_tamper_rejected sha scrypt blake verify P scrypt_inj blake_inj s b b' i
           (flip_bit k (nth i (enc_block b) 0)) now now' s1); try done.
  intros Hin. apply H3. assert (k <> 7) by (intros ->; apply Hexc; done). lia.
Qed.

(* ------------------------------------------------------------------------------------------------------------ *)
(* statements and assumptions                                                                                     *)
(* ------------------------------------------------------------------------------------------------------------ *)
