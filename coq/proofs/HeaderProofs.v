(* C05 (header part): what an accepted, fully validated block satisfies; the byte-string comparison is the numeric
   one; the retarget rule; bridge of the retarget arithmetic to the regenerated source text; chain sampler sanity. *)
From stdpp Require Import gmap.
From Coq Require Import NArith ZArith Lia ZifyBool ZifyN ZifyNat.
From SkV Require Import Bytes Vlq Codec Merkle Ledger ChainState Pow Validate ChainDefs.
From SkV Require Gen_Params Gen_Functions.
Open Scope N_scope.

(* lia with / and mod *)
Ltac elia := zify; Z.to_euclidean_division_equations; lia.

(* ------------------------------------------------------------------------------------------------------------ *)
(* 0. small inversion lemmas for the error monad and the boolean equalities                                        *)
(* ------------------------------------------------------------------------------------------------------------ *)

Lemma bind_ok {A B} (r : res A) (f : A -> res B) (y : B) :
  bind r f = Ok y -> exists a, r = Ok a /\ f a = Ok y.
Proof. destruct r as [a|k]; cbn; [eauto | discriminate]. Qed.

Lemma check_ok (c : bool) (k : ekind) (u : unit) : check c k = Ok u -> c = true.
Proof. destruct c; cbn; [done | discriminate]. Qed.

Lemma of_opt_ok {A} (o : option A) (a : A) : of_opt o = Ok a -> o = Some a.
Proof. destruct o; cbn; [intros [= ->]; done | discriminate]. Qed.

Lemma bytes_eqb_eq (a b : bytes) : bytes_eqb a b = true <-> a = b.
Proof.
  revert b; induction a as [|x a IH]; intros [|y b]; cbn [bytes_eqb]; try (split; [discriminate | done]).
  - done.
  - rewrite andb_true_iff, IH, N.eqb_eq. split; [intros [-> ->]; done | intros [= -> ->]; done].
Qed.

Lemma evidence_eqb_eq (a b : evidence) : evidence_eqb a b = true -> a = b.
Proof.
  destruct a as [a1 a2 a3], b as [b1 b2 b3]; unfold evidence_eqb; cbn [ev_summary_hash ev_chain_sample ev_block_hash].
  rewrite !andb_true_iff, !bytes_eqb_eq. intros [[-> ->] ->]; done.
Qed.

Ltac inv_bind H x Hx :=
  apply bind_ok in H; destruct H as [x [Hx H]].

(* ------------------------------------------------------------------------------------------------------------ *)
(* 1. inversion of add_block on the full-validation path                                                           *)
(* ------------------------------------------------------------------------------------------------------------ *)
Section Inversion.
  Variable sha : bytes -> bytes.
  Variable scrypt : bytes -> bytes.
  Variable blake : bytes -> bytes.
  Variable verify : bytes -> bytes -> bytes -> N.
  Variable P : cparams.

  Lemma v_header_by_itself_ok h now u :
    v_header_by_itself sha P h now = Ok u ->
    bytes_ltb (header_id sha h) (s_target (h_summary h)) = true /\ s_time (h_summary h) <= now + p_max_future P.
  Proof.
    unfold v_header_by_itself; intros H.
    inv_bind H u1 H1. apply check_ok in H1, H. split; [done | lia].
  Qed.

  Lemma v_block_by_itself_ok b now u :
    v_block_by_itself sha P b now = Ok u ->
    bytes_ltb (block_id sha b) (b_target b) = true /\ b_time b <= now + p_max_future P /\
    exists cb rest, b_txs b = cb :: rest /\ cb_height cb = Some (b_height b).
  Proof.
    unfold v_block_by_itself; intros H.
    inv_bind H u1 H1. apply v_header_by_itself_ok in H1 as [Hlt Htime].
    split; [exact Hlt|]. split; [exact Htime|].
    destruct (b_txs b) as [|cb rest] eqn:Etxs; [discriminate|].
    exists cb, rest; split; [done|].
    inv_bind H u2 H2. inv_bind H u3 H3. inv_bind H u4 H4. apply check_ok in H4.
    destruct (cb_height cb) as [hh|]; [|discriminate].
    apply N.eqb_eq in H4; subst hh; done.
  Qed.

  Lemma v_summary_in_state_ok sm s u :
    v_summary_in_state sha P sm s = Ok u ->
    exists prev, cs_blocks s !! s_prev sm = Some prev /\ b_time prev < s_time sm /\
                 calc_target sha P s (b_height prev + 1) (s_time sm) prev = Some (s_target sm).
  Proof.
    unfold v_summary_in_state; intros H.
    destruct (cs_blocks s !! s_prev sm) as [prev|]; [|discriminate].
    exists prev; split; [done|].
    inv_bind H u1 H1. apply check_ok in H1.
    inv_bind H tg H2. apply of_opt_ok in H2. apply check_ok, bytes_eqb_eq in H.
    split; [lia|]. rewrite H; exact H2.
  Qed.

  Lemma v_cb_in_state_ok cb b s u :
    v_cb_in_state P cb b s = Ok u ->
    exists prev, cs_blocks s !! b_prev b = Some prev /\ b_height b = b_height prev + 1.
  Proof.
    unfold v_cb_in_state; intros H.
    inv_bind H prev H1. apply of_opt_ok in H1.
    inv_bind H u1 H2. apply check_ok in H2.
    exists prev; split; [done | lia].
  Qed.

  Lemma v_block_in_state_full_ok b s u :
    FV P b -> v_block_in_state sha scrypt blake verify P b s = Ok u ->
    exists prev ev,
      cs_blocks s !! b_prev b = Some prev /\ b_time prev < b_time b /\
      calc_target sha P s (b_height prev + 1) (b_time b) prev = Some (b_target b) /\
      b_height b = b_height prev + 1 /\
      construct_evidence sha scrypt blake P s (h_summary (b_header b)) (b_height b) (b_txs b) = Some ev /\
      h_evidence (b_header b) = ev.
  Proof.
    unfold FV, v_block_in_state; intros Hfv H.
    destruct (Z.of_N (b_height b) <=? p_hz P)%Z eqn:Ehz; [lia|].
    inv_bind H u1 H1. apply v_summary_in_state_ok in H1 as (prev & Hprev & Htime & Htg).
    inv_bind H ev H2. apply of_opt_ok in H2.
    inv_bind H u2 H3. apply check_ok, evidence_eqb_eq in H3.
    destruct (b_txs b) as [|cb rest] eqn:Etxs; [discriminate|].
    inv_bind H u3 H4. apply v_cb_in_state_ok in H4 as (prev' & Hprev' & Hheight).
    change (s_prev (h_summary (b_header b))) with (b_prev b) in Hprev.
    rewrite Hprev in Hprev'; injection Hprev' as <-.
    exists prev, ev. repeat split; done.
  Qed.

  Theorem accept_sound_header s b now s' :
    add_block sha scrypt blake verify P s b now = Ok s' -> FV P b ->
    bytes_ltb (block_id sha b) (b_target b) = true /\
    exists prev cb rest ev,
      cs_blocks s !! b_prev b = Some prev /\ b_txs b = cb :: rest /\
      calc_target sha P s (b_height prev + 1) (b_time b) prev = Some (b_target b) /\
      b_height b = b_height prev + 1 /\ cb_height cb = Some (b_height b) /\
      b_time prev < b_time b /\ b_time b <= now + p_max_future P /\
      construct_evidence sha scrypt blake P s (h_summary (b_header b)) (b_height b) (b_txs b) = Some ev /\
      h_evidence (b_header b) = ev.
  Proof.
    unfold add_block; intros H Hfv.
    inv_bind H u1 H1. inv_bind H u2 H2.
    apply v_block_by_itself_ok in H1 as (Hlt & Hnow & cb & rest & Htxs & Hcb).
    apply (v_block_in_state_full_ok _ _ _ Hfv) in H2 as (prev & ev & Hprev & Htime & Htg & Hh & Hev & Heq).
    split; [exact Hlt|].
    exists prev, cb, rest, ev. repeat split; done.
  Qed.
End Inversion.

(* ------------------------------------------------------------------------------------------------------------ *)
(* 2. bytes_ltb on equally long well-formed byte strings is the numeric comparison of the big-endian values       *)
(* ------------------------------------------------------------------------------------------------------------ *)

Lemma be_dec_aux_acc (acc : N) (l : bytes) :
  be_dec_aux acc l = acc * 256 ^ N.of_nat (length l) + be_dec_aux 0 l.
Proof.
  revert acc; induction l as [|x l IH]; intros acc; cbn [be_dec_aux length].
  - change (N.of_nat 0) with 0. rewrite N.pow_0_r. lia.
  - rewrite (IH (acc * 256 + x)), (IH (0 * 256 + x)), Nat2N.inj_succ, N.pow_succ_r'. lia.
Qed.

Lemma be_dec_aux_bound (l : bytes) : bytes_wf l -> be_dec_aux 0 l < 256 ^ N.of_nat (length l).
Proof.
  induction l as [|x l IH]; intros Hwf; cbn [be_dec_aux length].
  - change (N.of_nat 0) with 0. rewrite N.pow_0_r. lia.
  - apply Forall_cons in Hwf as [Hx Hl]. specialize (IH Hl).
    rewrite be_dec_aux_acc, Nat2N.inj_succ, N.pow_succ_r'.
    set (K := 256 ^ N.of_nat (length l)) in *.
    assert (x * K <= 255 * K) by (apply N.mul_le_mono_r; lia). lia.
Qed.

Lemma be_dec_cons (x : N) (l : bytes) : be_dec (x :: l) = x * 256 ^ N.of_nat (length l) + be_dec l.
Proof. unfold be_dec; cbn [be_dec_aux]. rewrite be_dec_aux_acc. lia. Qed.

Lemma be_dec_bound (l : bytes) : bytes_wf l -> be_dec l < 256 ^ N.of_nat (length l).
Proof. apply be_dec_aux_bound. Qed.

Lemma bytes_ltb_numeric (a b : bytes) :
  length a = length b -> bytes_wf a -> bytes_wf b -> (bytes_ltb a b = true <-> be_dec a < be_dec b).
Proof.
  revert b; induction a as [|x a IH]; intros [|y b] Hlen Ha Hb; cbn [length] in Hlen; try discriminate.
  - cbn. split; [discriminate | lia].
  - injection Hlen as Hlen.
    apply Forall_cons in Ha as [Hx Ha]. apply Forall_cons in Hb as [Hy Hb].
    specialize (IH b Hlen Ha Hb).
    pose proof (be_dec_bound a Ha) as Ba. pose proof (be_dec_bound b Hb) as Bb.
    rewrite !be_dec_cons, Hlen. rewrite Hlen in Ba.
    set (K := 256 ^ N.of_nat (length b)) in *.
    cbn [bytes_ltb].
    destruct (x <? y) eqn:Exy; [|destruct (y <? x) eqn:Eyx].
    + assert ((x + 1) * K <= y * K) by (apply N.mul_le_mono_r; lia). split; [lia | done].
    + assert ((y + 1) * K <= x * K) by (apply N.mul_le_mono_r; lia). split; [discriminate | lia].
    + assert (x = y) as -> by lia. rewrite IH. lia.
Qed.

(* id and target of a block are 32 bytes each: the proof-of-work check is "id numerically below target" *)
Corollary pow_check_numeric (id tg : bytes) :
  length id = 32%nat -> length tg = 32%nat -> bytes_wf id -> bytes_wf tg ->
  (bytes_ltb id tg = true <-> be_dec id < be_dec tg).
Proof. intros H1 H2. apply bytes_ltb_numeric; congruence. Qed.

(* ------------------------------------------------------------------------------------------------------------ *)
(* 3. the retarget rule                                                                                            *)
(* ------------------------------------------------------------------------------------------------------------ *)

Lemma be_dec_aux_snoc (acc : N) (l : bytes) (x : N) : be_dec_aux acc (l ++ [x]) = be_dec_aux acc l * 256 + x.
Proof. revert acc; induction l as [|y l IH]; intros acc; cbn [be_dec_aux app]; [done | apply IH]. Qed.

Lemma be_dec_be_enc_nat (w : nat) (v : N) : v < 256 ^ N.of_nat w -> be_dec (be_enc_nat w v) = v.
Proof.
  revert v; induction w as [|w IH]; intros v Hv.
  - change (N.of_nat 0) with 0 in Hv. rewrite N.pow_0_r in Hv. cbn. unfold be_dec; cbn. lia.
  - rewrite Nat2N.inj_succ, N.pow_succ_r' in Hv.
    cbn [be_enc_nat]. unfold be_dec in *. rewrite be_dec_aux_snoc, IH; [elia|].
    set (K := 256 ^ N.of_nat w) in *. elia.
Qed.

Lemma pow_2_256 : 2 ^ 256 = 256 ^ N.of_nat 32.
Proof. vm_compute. reflexivity. Qed.

Lemma be_dec_be_enc_32 (v : N) : v < 2 ^ 256 -> be_dec (be_enc 32 v) = v.
Proof. rewrite pow_2_256. apply be_dec_be_enc_nat. Qed.

Lemma be_enc_nat_length (w : nat) (v : N) : length (be_enc_nat w v) = w.
Proof. revert v; induction w as [|w IH]; intros v; cbn [be_enc_nat]; [done|]. rewrite app_length, IH. cbn. lia. Qed.

Lemma be_enc_nat_wf (w : nat) (v : N) : bytes_wf (be_enc_nat w v).
Proof.
  revert v; induction w as [|w IH]; intros v; cbn [be_enc_nat]; [constructor|].
  apply Forall_app; split; [apply IH|]. constructor; [|constructor]. elia.
Qed.

Lemma calculate_new_target_min (P : cparams) (t : bytes) (dt : N) :
  Pow.calculate_new_target P t dt = be_enc 32 (N.min (2 ^ 256 - 1) (be_dec t * dt / p_span P)).
Proof.
  unfold Pow.calculate_new_target. cbv zeta.
  set (M := 2 ^ 256 - 1). set (r := be_dec t * dt / p_span P).
  f_equal. destruct (M <? r) eqn:E; lia.
Qed.

Section Retarget.
  Variable sha : bytes -> bytes.
  Variable P : cparams.

  Theorem calc_target_spec s height ts prev tg :
    calc_target sha P s height ts prev = Some tg ->
    (height mod p_period P <> 0 -> tg = b_target prev) /\
    (height mod p_period P = 0 ->
     exists idx start,
       cs_byheight s !! block_id sha prev = Some idx /\ idx !! (height - p_period P) = Some start /\
       b_time start <= ts /\ p_period P <= height /\
       tg = be_enc 32 (N.min (2 ^ 256 - 1) (be_dec (b_target prev) * (ts - b_time start) / p_span P))).
  Proof.
    unfold calc_target; intros H.
    destruct (p_period P =? 0) eqn:E0; [discriminate|].
    destruct (height mod p_period P =? 0) eqn:Em.
    - apply N.eqb_eq in Em. split; [intros Hne; done|]. intros _.
      destruct (cs_byheight s !! block_id sha prev) as [idx|] eqn:Ei; [|discriminate].
      destruct (idx !! (height - p_period P)) as [start|] eqn:Es; [|discriminate].
      destruct (ts <? b_time start) eqn:Et; [discriminate|].
      destruct (height <? p_period P) eqn:Eh; [discriminate|].
      injection H as <-.
      exists idx, start. split; [done|]. split; [exact Es|]. split; [lia|]. split; [lia|].
      apply calculate_new_target_min.
    - apply N.eqb_neq in Em. injection H as <-. split; [done | intros Hz; done].
  Qed.

  (* the stated target is numerically exactly min(2^256-1, T_prev * elapsed / span), and it is a 32-byte string *)
  Corollary calc_target_numeric s height ts prev tg :
    calc_target sha P s height ts prev = Some tg -> height mod p_period P = 0 ->
    exists idx start,
      cs_byheight s !! block_id sha prev = Some idx /\ idx !! (height - p_period P) = Some start /\
      length tg = 32%nat /\ bytes_wf tg /\
      be_dec tg = N.min (2 ^ 256 - 1) (be_dec (b_target prev) * (ts - b_time start) / p_span P).
  Proof.
    intros H Hz. apply calc_target_spec in H as [_ H]. destruct (H Hz) as (idx & start & Hi & Hs & _ & _ & ->).
    exists idx, start. split; [done|]. split; [done|]. split; [apply be_enc_nat_length|].
    split; [apply be_enc_nat_wf|].
    apply be_dec_be_enc_32.
    assert (0 < 2 ^ 256) by (rewrite pow_2_256; apply N.neq_0_lt_0, N.pow_nonzero; lia). lia.
  Qed.
End Retarget.

(* ------------------------------------------------------------------------------------------------------------ *)
(* 5. the chain sampler's slice loop terminates with exactly len bytes                                            *)
(* ------------------------------------------------------------------------------------------------------------ *)

Lemma slice_loop_ok (fuel : nat) (ser : bytes) (start len : nat) (acc : bytes) :
  (start < length ser)%nat -> (length acc <= len)%nat -> (len - length acc <= fuel)%nat ->
  exists r, slice_loop fuel ser start len acc = Some r /\ length r = len.
Proof.
  revert start acc; induction fuel as [|f IH]; intros start acc Hstart Hacc Hfuel; cbn [slice_loop].
  - destruct (len <=? length acc)%nat eqn:E; [|lia]. exists acc; split; [done | lia].
  - destruct (len <=? length acc)%nat eqn:E; [exists acc; split; [done | lia]|].
    apply IH.
    + lia.
    + rewrite app_length, firstn_length, skipn_length. lia.
    + rewrite app_length, firstn_length, skipn_length. lia.
Qed.

Lemma slice_total (h ser : bytes) (len : nat) :
  ser <> [] -> exists r, select_block_slice h ser len = Some r /\ length r = len.
Proof.
  intros Hne. unfold select_block_slice. destruct ser as [|x ser']; [done|].
  set (ser := x :: ser') in *.
  apply slice_loop_ok.
  - assert (length ser <> 0)%nat by (subst ser; cbn; lia). elia.
  - cbn; lia.
  - cbn; lia.
Qed.

Lemma slice_len (h ser : bytes) (len : nat) (r : bytes) :
  ser <> [] -> select_block_slice h ser len = Some r -> length r = len.
Proof.
  intros Hne H. destruct (slice_total h ser len Hne) as (r' & H' & Hlen). congruence.
Qed.

(* ------------------------------------------------------------------------------------------------------------ *)
(* 4. bridge to the regenerated source text (gen/Gen_Functions.v, gen/Gen_Params.v)                                *)
(* ------------------------------------------------------------------------------------------------------------ *)

Definition toZ (l : bytes) : list Z := map Z.of_N l.

Lemma be_decZ_aux_toZ (acc : N) (l : bytes) :
  Gen_Functions.be_decZ_aux (Z.of_N acc) (toZ l) = Z.of_N (be_dec_aux acc l).
Proof.
  revert acc; induction l as [|x l IH]; intros acc; cbn [toZ map Gen_Functions.be_decZ_aux be_dec_aux]; [done|].
  rewrite <- IH. f_equal. lia.
Qed.

Lemma be_decZ_toZ (l : bytes) : Gen_Functions.be_decZ (toZ l) = Z.of_N (be_dec l).
Proof. apply (be_decZ_aux_toZ 0). Qed.

Lemma be_encZ_nat_toZ (w : nat) (v : N) : Gen_Functions.be_encZ_nat w (Z.of_N v) = toZ (be_enc_nat w v).
Proof.
  revert v; induction w as [|w IH]; intros v; cbn [Gen_Functions.be_encZ_nat be_enc_nat]; [done|].
  unfold toZ in *. rewrite map_app. cbn [map].
  replace (Z.of_N v / 256)%Z with (Z.of_N (v / 256)) by elia.
  replace (Z.of_N v mod 256)%Z with (Z.of_N (v mod 256)) by elia.
  rewrite IH. done.
Qed.

(* to_bytes(n): the width is a closed numeral in the generated text; normalise it *)
Ltac norm_to_nat :=
  repeat match goal with
         | |- context [Z.to_nat ?e] => let v := eval vm_compute in (Z.to_nat e) in progress change (Z.to_nat e) with v
         end.

(* whatever way the cap / the comparison is written: case split on the conditionals, then linear arithmetic with
   the euclidean-division equations (constant powers are evaluated by lia) *)
Ltac bridge_arith :=
  rewrite ?Z.shiftl_mul_pow2, ?Z.shiftr_div_pow2 by lia;
  repeat match goal with |- context [if ?c then _ else _] => destruct c eqn:? end;
  rewrite ?Z.shiftl_mul_pow2, ?Z.shiftr_div_pow2 in * by lia;
  rewrite ?N2Z.inj_mod, ?N2Z.inj_div;
  zify; Z.to_euclidean_division_equations; lia.

Lemma be_encZ_toZ (w : nat) (v : N) (wz vz : Z) :
  Z.to_nat wz = w -> vz = Z.of_N v -> Gen_Functions.be_encZ wz vz = toZ (be_enc w v).
Proof. intros <- ->. apply be_encZ_nat_toZ. Qed.

Lemma sliceZ_toZ (l : bytes) (lo hi : Z) :
  Gen_Functions.sliceZ (toZ l) lo hi = toZ (firstn (Z.to_nat (hi - lo)) (skipn (Z.to_nat lo) l)).
Proof. unfold Gen_Functions.sliceZ, toZ. rewrite skipn_map, firstn_map. done. Qed.

Lemma bridge_new_target_gen (P : cparams) (t : bytes) (dt : N) :
  Z.of_N (p_span P) = Gen_Params.DESIRED_TARGET_READJUSTMENT_TIMESPAN ->
  Gen_Functions.calculate_new_target (map Z.of_N t) (Z.of_N dt) = map Z.of_N (Pow.calculate_new_target P t dt).
Proof.
  intros Hspan. rewrite calculate_new_target_min.
  unfold Gen_Functions.calculate_new_target. cbv zeta.
  change (map Z.of_N) with toZ. rewrite be_decZ_toZ, <- Hspan.
  apply be_encZ_toZ; [vm_compute; reflexivity|].
  generalize (be_dec t) (p_span P); intros d sp.
  bridge_arith.
Qed.

Lemma bridge_new_target (P : cparams) (t : bytes) (dt : N) :
  bytes_wf t -> Z.of_N (p_span P) = Gen_Params.DESIRED_TARGET_READJUSTMENT_TIMESPAN ->
  Gen_Functions.calculate_new_target (map Z.of_N t) (Z.of_N dt) = map Z.of_N (Pow.calculate_new_target P t dt).
Proof. intros _ Hspan. apply bridge_new_target_gen, Hspan. Qed.

Lemma bridge_select_height (h : bytes) (height : N) :
  bytes_wf h -> 0 < height ->
  Gen_Functions.select_block_height (map Z.of_N h) (Z.of_N height) = Z.of_N (Pow.select_block_height h height).
Proof.
  intros _ Hpos. unfold Gen_Functions.select_block_height, Pow.select_block_height. cbv zeta.
  change (map Z.of_N) with toZ. rewrite sliceZ_toZ, be_decZ_toZ. norm_to_nat.
  try change (skipn 0 h) with h.
  bridge_arith.
Qed.

Lemma gen_constants :
  Gen_Params.BLOCKS_BETWEEN_TARGET_READJUSTMENT = 10080%Z /\
  Gen_Params.DESIRED_TARGET_READJUSTMENT_TIMESPAN = 1209600%Z /\
  Gen_Params.MAX_FUTURE_BLOCK_TIME = 30%Z.
Proof. repeat split; reflexivity. Qed.
